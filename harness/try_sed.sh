#!/bin/bash
# try_sed.sh <prop> <file> <sed-expression> [tier]: apply a one-line change to a scratch worktree of /repo and run the property's check against it
wt=$(mktemp -d -u /tmp/trysed-XXXX); ev=$(mktemp -d)
git -C /repo worktree add -q --detach $wt HEAD
(cd $wt && sed -i "$3" $2 && git diff --stat | tail -1)
out=$(cd /verif && PYTHONPATH=$wt VERIF_EVIDENCE_DIR=$ev VERIF_OUT_DIR=$ev /venv/bin/python harness/vcheck.py --property $1 --tier ${4:-quick} 2>&1); rc=$?
echo "$1 rc=$rc"; echo "$out" | grep -E "violation class|GROWTH-DIV|^OK|MACHINERY" | head -6 | cut -c1-300
git -C /repo worktree remove --force $wt; rm -rf $ev
