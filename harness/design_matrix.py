#!/venv/bin/python
"""Regenerate the catch matrix of DESIGN.md (section 11.6) from seeded/*/meta.json."""
import glob, json, os, re
V = os.path.dirname(os.path.dirname(os.path.abspath(__file__)))
rows = []
for m in sorted(glob.glob(os.path.join(V, "seeded", "*", "meta.json"))):
    d = json.load(open(m))
    q = d.get("detected_by", {}).get("quick", {})
    cls = (q.get("violation_classes") or [""])[0]
    rows.append("| `%s` | %s | %s | %s |" % (d["name"], d["property"], q.get("verdict", "?"), ("`%s`" % cls) if cls else ""))
p = os.path.join(V, "DESIGN.md")
s = open(p).read()
a = s.index("Catch matrix (quick tier;")
a = s.index("\n", a) + 1
b = s.index("\n## ", a)
head = "\n| Seed | Property | Quick tier | First failing clause / class |\n|---|---|---|---|\n"
s = s[:a] + head + "\n".join(rows) + "\n" + s[b:]
open(p, "w").write(s)
print("%d rows" % len(rows))
