#!/venv/bin/python
"""Single entry point: vcheck.py --property C07 --tier quick|thorough  (cwd /verif)."""
import argparse
import importlib
import os
import sys
import traceback

HERE = os.path.dirname(os.path.abspath(__file__))
sys.path.insert(0, HERE)
os.environ.setdefault("PYTHONHASHSEED", "0")
os.environ["TRACKLIB_VERIF_TRACE"] = "1"       # guard of the harness-side runtime wrappers
import warnings
warnings.filterwarnings("ignore")

import core  # noqa: E402


def main():
    ap = argparse.ArgumentParser()
    ap.add_argument("--property", required=True)
    ap.add_argument("--tier", default=os.environ.get("VERIF_TIER", "quick"), choices=["quick", "thorough"])
    ap.add_argument("--seed", type=int, default=int(os.environ.get("VERIF_SEED", "20260928")))
    a = ap.parse_args()
    pid = a.property.upper()
    ctx = None
    try:
        ctx = core.Ctx(pid, a.tier, a.seed)
        with core.quiet():
            import tracklib  # noqa: F401  (from /repo's working tree; editable install)
        mod = importlib.import_module("drivers.%s" % pid.lower())
        mod.run(ctx)
        rc = ctx.finish()
    except core.Machinery as e:
        print("MACHINERY-FAILURE property=%s: %s" % (pid, e))
        rc = 2
    except Exception:
        traceback.print_exc()
        print("MACHINERY-FAILURE property=%s: unexpected exception in the harness" % pid)
        rc = 2
    finally:
        if ctx is not None:
            import shutil
            shutil.rmtree(ctx.tmp, ignore_errors=True)
    sys.exit(rc)


if __name__ == "__main__":
    main()
