#!/bin/bash
# seed_confirm.sh <id> : confirm a sub-agent's seeded change in its worktree /tmp/wt/<id>:
#  demo fails with the patch, passes without, baseline (243 stable tests) still passes with the patch
id=$1; wt=/tmp/wt/$id
cd $wt || exit 2
git diff -- tracklib > /tmp/wt/$id.patch
echo "--- patch ($id)"; cat /tmp/wt/$id.patch
echo "--- demo WITH patch"; PYTHONPATH=$wt /venv/bin/python demo_$id.py 2>&1 | tail -4; echo "exit=${PIPESTATUS[0]}"
git checkout -q -- tracklib
echo "--- demo WITHOUT patch"; PYTHONPATH=$wt /venv/bin/python demo_$id.py 2>&1 | tail -2; echo "exit=${PIPESTATUS[0]}"
git apply /tmp/wt/$id.patch
echo "--- baseline WITH patch"; /venv/bin/python /verif/harness/baseline.py $wt 2>&1 | tail -2
