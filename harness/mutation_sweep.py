#!/venv/bin/python
"""Mutation sweep: small syntactic changes inside the code each property is anchored in.

For every property the anchored line ranges (properties.jsonl, mechanism / state 'where', widened by a few lines because the
fix: commits moved lines) are mutated one token at a time (relational operators, +/-1 constants, +/- swaps, and/or,
index shifts).  A mutant is kept only if the library still imports and the repository's 243 stable tests still pass
with it; the quick check of the property is then run against it in a scratch worktree (PYTHONPATH, evidence
redirected).  The outcome (detected / missed) is written to out/mutation_sweep.json and summarised on stdout; missed
mutants are triaged by hand (equivalent = the property still holds, or a gap to close).

usage: mutation_sweep.py [--props C01,C05] [--per 12] [--seed 1] [--jobs 8]
"""
import argparse
import json
import os
import random
import re
import shutil
import subprocess
import sys
import tempfile
from concurrent.futures import ThreadPoolExecutor

VERIF = os.path.dirname(os.path.dirname(os.path.abspath(__file__)))
BASE = json.load(open("/root/.vp/BASELINE.json"))["stable_pass"]

RULES = [
    (r"<=", "<"), (r"(?<![<>=!])<(?![<=])", "<="), (r">=", ">"), (r"(?<![<>=!-])>(?![>=])", ">="),
    (r"==", "!="), (r"!=", "=="),
    (r"\+ 1\b", "+ 2"), (r"- 1\b", "- 2"), (r"\+ 1\b", "+ 0"), (r"- 1\b", "- 0"),
    (r"\band\b", "or"), (r"\bor\b", "and"),
    (r"range\(1, ", "range(0, "), (r"range\(0, ", "range(1, "),
    (r"\[i - 1\]", "[i]"), (r"\[i \+ 1\]", "[i]"), (r"\[0\]", "[1]"), (r"\[-1\]", "[0]"),
    (r" \+ ", " - "), (r" - ", " + "), (r" \* ", " / "),
    (r"\bTrue\b", "False"), (r"\bFalse\b", "True"), (r"\bmin\(", "max("), (r"\bmax\(", "min("),
]


def anchors():
    out = {}
    for line in open(os.path.join(VERIF, "properties.jsonl")):
        p = json.loads(line)
        spans = []
        for m in p["anchors"].get("mechanism", []) + p["anchors"].get("state", []):
            for part in m["where"].split(";"):
                mm = re.match(r"\s*(\S+\.py):(\d+)(?:-(\d+))?(?:,\s*(\d+)-(\d+))?", part)
                if mm:
                    spans.append((mm.group(1), int(mm.group(2)) - 6, int(mm.group(3) or mm.group(2)) + 14))
                    if mm.group(4):
                        spans.append((mm.group(1), int(mm.group(4)) - 6, int(mm.group(5)) + 14))
        out[p["id"]] = spans
    return out


def candidates(prop, spans, rnd, per):
    cands = []
    for (f, lo, hi) in spans:
        path = os.path.join("/repo", f)
        if not os.path.exists(path):
            continue
        lines = open(path).read().split("\n")
        for ln in range(max(1, lo), min(len(lines), hi) + 1):
            text = lines[ln - 1]
            st = text.strip()
            if not st or st.startswith("#") or st.startswith('"""') or st.startswith("print") or "def " in st or "import " in st \
                    or st.startswith(":") or st.startswith('"') or st.startswith("message") or "raise " in st or st.startswith("output +="):
                continue
            code = text.split("#")[0]
            for pat, rep in RULES:
                for m in re.finditer(pat, code):
                    new = text[:m.start()] + rep + text[m.end():]
                    if new != text:
                        cands.append({"prop": prop, "file": f, "line": ln, "old": text, "new": new, "rule": "%s -> %s" % (pat, rep)})
    # one candidate per (file, line, rule) and a seeded sample
    uniq = {}
    for c in cands:
        uniq.setdefault((c["file"], c["line"], c["rule"], c["new"]), c)
    cands = sorted(uniq.values(), key=lambda c: (c["file"], c["line"], c["rule"], c["new"]))
    rnd.shuffle(cands)
    return cands[:per]


def evaluate(c):
    wt = tempfile.mkdtemp(prefix="mut-", dir="/tmp")
    os.rmdir(wt)
    ev = tempfile.mkdtemp(prefix="mut-ev-", dir="/tmp")
    res = dict(c)
    try:
        subprocess.run(["git", "-C", "/repo", "worktree", "add", "-q", "--detach", wt, "HEAD"], check=True,
                       stdout=subprocess.DEVNULL, stderr=subprocess.DEVNULL)
        path = os.path.join(wt, c["file"])
        lines = open(path).read().split("\n")
        if lines[c["line"] - 1] != c["old"]:
            res["outcome"] = "stale"
            return res
        lines[c["line"] - 1] = c["new"]
        open(path, "w").write("\n".join(lines))
        env = dict(os.environ, PYTHONPATH=wt, VERIF_EVIDENCE_DIR=ev, VERIF_OUT_DIR=ev)
        env.pop("TRACKLIB_VERIF_TRACE", None)
        r = subprocess.run(["/venv/bin/python", "-c", "import tracklib, tracklib.algo, tracklib.io, tracklib.core"], env=env, cwd=wt,
                           stdout=subprocess.DEVNULL, stderr=subprocess.DEVNULL)
        if r.returncode != 0:
            res["outcome"] = "does-not-import"
            return res
        r = subprocess.run(["/venv/bin/python", os.path.join(VERIF, "harness", "baseline.py"), wt], env=env, cwd=wt,
                           stdout=subprocess.PIPE, stderr=subprocess.STDOUT, text=True, timeout=1500)
        if r.returncode != 0:
            res["outcome"] = "killed-by-existing-tests"
            return res
        r = subprocess.run(["/venv/bin/python", "harness/vcheck.py", "--property", c["prop"], "--tier", "quick"], env=env, cwd=VERIF,
                           stdout=subprocess.PIPE, stderr=subprocess.STDOUT, text=True, timeout=3000)
        res["outcome"] = {0: "MISSED", 1: "detected"}.get(r.returncode, "machinery-%d" % r.returncode)
        cls = re.findall(r"violation class \[([^\]]+)\]", r.stdout)
        res["classes"] = cls[:3]
        if r.returncode == 2:
            res["tail"] = r.stdout[-600:]
    except subprocess.TimeoutExpired:
        res["outcome"] = "timeout"
    finally:
        subprocess.run(["git", "-C", "/repo", "worktree", "remove", "--force", wt], stdout=subprocess.DEVNULL, stderr=subprocess.DEVNULL)
        shutil.rmtree(ev, ignore_errors=True)
    return res


def main():
    ap = argparse.ArgumentParser()
    ap.add_argument("--props", default=",".join("C%02d" % i for i in range(1, 21)))
    ap.add_argument("--per", type=int, default=12)
    ap.add_argument("--seed", type=int, default=1)
    ap.add_argument("--jobs", type=int, default=6)
    ap.add_argument("--out", default=os.path.join(VERIF, "out", "mutation_sweep.json"))
    a = ap.parse_args()
    rnd = random.Random(a.seed)
    anc = anchors()
    todo = []
    for p in a.props.split(","):
        todo.extend(candidates(p, anc[p], rnd, a.per))
    print("%d mutants to evaluate" % len(todo), flush=True)
    results = []
    with ThreadPoolExecutor(a.jobs) as ex:
        for r in ex.map(evaluate, todo):
            results.append(r)
            print("%s %s:%d [%s] %s %s" % (r["prop"], r["file"].split("/")[-1], r["line"], r["rule"], r["outcome"], r.get("classes", "")), flush=True)
            if r["outcome"] == "MISSED":
                print("      - %s\n      + %s" % (r["old"].strip(), r["new"].strip()), flush=True)
    os.makedirs(os.path.dirname(a.out), exist_ok=True)
    json.dump(results, open(a.out, "w"), indent=1)
    tally = {}
    for r in results:
        tally.setdefault(r["prop"], {}).setdefault(r["outcome"], 0)
        tally[r["prop"]][r["outcome"]] += 1
    for p in sorted(tally):
        print(p, tally[p])


if __name__ == "__main__":
    sys.exit(main())
