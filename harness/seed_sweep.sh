#!/bin/bash
# run every quick check under several VERIF_SEED values (robustness against seed-dependent false alarms)
for s in "$@"; do echo "=== VERIF_SEED=$s"; VERIF_SEED=$s harness/run_all.sh quick; done
