#!/bin/bash
# usage: harness/run_all.sh quick|thorough [ids...]   - runs the registered checks one after the other, prints one line each
tier=${1:-quick}; shift
ids=${@:-C01 C02 C03 C04 C05 C06 C07 C08 C09 C10 C11 C12 C13 C14 C15 C16 C17 C18 C19 C20}
rc=0
for p in $ids; do
  s=$(date +%s)
  out=$(/venv/bin/python harness/vcheck.py --property $p --tier $tier 2>&1); r=$?
  echo "$p rc=$r $(( $(date +%s) - s ))s :: $(echo "$out" | tail -1 | cut -c1-200)"
  [ $r -ne 0 ] && { rc=1; echo "$out" | tail -15 | cut -c1-400; }
done
exit $rc
