"""C20 - Projection.tla / ProjectionTrace.tla bound to tracklib.util.geometry.proj_segment, proj_polyligne and
tracklib.algo.mapping.mapOnTrack (code -> spec).

TLC checks on the model that every non-vertical branch of the transcribed proj_segment / proj_polyligne satisfies the
acceptance predicate (point on segment i, distance = distance to that point = exact minimum over the polyline) and
refutes it for the pinned vertical branch (sensitivity self-test; this is the recorded known finding).  The driver
calls the real functions on every lattice segment x query, every 3-vertex lattice polyline x query and random longer
polylines (zero-length, horizontal, vertical, oblique segments; queries on, beside, beyond, far), abstracts the floats
to the lattice of exact answers (denominator |AB|^2 of the returned segment) and TLC judges each record."""
import itertools
import math
import random

import core


def abstract(poly, q, raised, d=None, x=None, y=None, i=None):
    e = {"poly": [list(p) for p in poly], "q": list(q), "raised": bool(raised), "lat": True, "i": 0,
         "p": [0, 0, 1], "dd": [0, 1]}
    if raised:
        return e
    try:
        i = int(i)
    except Exception:
        e["lat"] = False
        return e
    e["i"] = i
    den = 1
    if 0 <= i < len(poly) - 1:
        a, b = poly[i], poly[i + 1]
        den = (b[0] - a[0]) ** 2 + (b[1] - a[1]) ** 2 or 1
    try:
        x, y, d = float(x), float(y), float(d)
        if any(math.isnan(v) or math.isinf(v) for v in (x, y, d)):
            raise ValueError
    except Exception:
        e["lat"] = False
        return e
    xn, yn = round(x * den), round(y * den)
    if abs(x - xn / den) > 1e-9 * max(1.0, abs(x)) or abs(y - yn / den) > 1e-9 * max(1.0, abs(y)):
        e["lat"] = False
        return e
    g = math.gcd(math.gcd(abs(xn), abs(yn)), den)
    e["p"] = [xn // g, yn // g, den // g]
    n = round(d * d * den)
    if d < 0 or abs(d - math.sqrt(n / den)) > 1e-9 * max(1.0, abs(d)):
        e["lat"] = False
        return e
    g = math.gcd(n, den)
    e["dd"] = [n // g, den // g]
    return e


SMALL = 2.0 ** -20      # the property does not depend on the unit: every third call is made on coordinates scaled by 2^-20 (a micrometre per lattice step)
                        # (exact in binary floating point), and the answer is scaled back before it is abstracted


DECI = 0.1               # ... and every third on coordinates in tenths (decimal numbers as a file holds them: NOT exact in binary
                         # floating point; the answer, scaled back, is snapped to the lattice of exact answers within 1e-9)


def scale_of(*pts):
    h = 0
    for p in pts:
        h = h * 31 + int(p[0]) * 7 + int(p[1]) * 13
    if h % 3 == 1:
        # the first argument is the query in two of the three callers: look at every consecutive pair of the others as well
        # (a pair with equal x and different y is a vertical segment; pairing the query with a vertex only makes the test wider).
        # Polylines with a vertical segment stay on exact coordinates: that branch is the known finding, identified by the
        # exact transcription of what it returns, which rounding would blur
        if any(pts[k][0] == pts[k + 1][0] and pts[k][1] != pts[k + 1][1] for k in range(len(pts) - 1)):
            return 1
        return DECI
    return SMALL if h % 3 == 0 else 1


def call_seg(a, b, q):
    from tracklib.util.geometry import proj_segment
    poly = [a, b]
    s = scale_of(a, b, q)
    try:
        with core.quiet():
            d, x, y = proj_segment([a[0] * s, a[1] * s, b[0] * s, b[1] * s], q[0] * s, q[1] * s)
            d, x, y = d / s, x / s, y / s
        e = abstract(poly, q, False, d, x, y, 0)
    except Exception as ex:
        e = abstract(poly, q, True)
        e["exc"] = repr(ex)[:80]
    e["ev"] = "proj_segment"
    return e


def call_poly(poly, q, floats=False):
    from tracklib.util.geometry import proj_polyligne
    s = scale_of(q, *poly)
    X = [(float(p[0]) if floats else p[0]) * s for p in poly]
    Y = [(float(p[1]) if floats else p[1]) * s for p in poly]
    try:
        with core.quiet():
            d, x, y, i = proj_polyligne(X, Y, (float(q[0]) if floats else q[0]) * s, (float(q[1]) if floats else q[1]) * s)
            d, x, y = d / s, x / s, y / s
        e = abstract(poly, q, False, d, x, y, i)
    except Exception as ex:
        e = abstract(poly, q, True)
        e["exc"] = repr(ex)[:80]
    e["ev"] = "proj_polyligne"
    return e


def mk_track(poly, s=1):
    from tracklib.core.track import Track
    from tracklib.core.obs import Obs
    from tracklib.core.obs_coords import ENUCoords
    return Track([Obs(ENUCoords(float(p[0]) * s, float(p[1]) * s, 0.0)) for p in poly])


def call_map(poly, q):
    from tracklib.algo.mapping import mapOnTrack
    from tracklib.core.obs_coords import ENUCoords
    s = scale_of(q, *poly)
    # history (every other call): the Track object was used for a projection BEFORE its geometry was edited in place into
    # the polyline under test (same number of vertices): the answer is defined by the geometry at the time of the call
    reuse = (int(q[0]) + 2 * int(q[1]) + len(poly)) % 2 == 0
    try:
        with core.quiet():
            if reuse:
                trk = mk_track([(p[0] + 3, 2 - p[1]) for p in poly], s)
                try:
                    mapOnTrack(ENUCoords(float(q[0]) * s, float(q[1]) * s, 0.0), trk)
                except Exception:
                    pass
                for k, p in enumerate(poly):
                    trk[k].position.setX(float(p[0]) * s)
                    trk[k].position.setY(float(p[1]) * s)
            else:
                trk = mk_track(poly, s)
            c, d, i = mapOnTrack(ENUCoords(float(q[0]) * s, float(q[1]) * s, 0.0), trk)
        e = abstract(poly, q, False, d / s, c.getX() / s, c.getY() / s, i)
        if reuse:
            e["hist"] = "track object reused after an in-place edit"
    except Exception as ex:
        e = abstract(poly, q, True)
        e["exc"] = repr(ex)[:80]
    e["ev"] = "mapOnTrack(coord)"
    return e


def call_maptrack(poly, qs):
    """mapOnTrack(track, track): one record per projected observation"""
    from tracklib.algo.mapping import mapOnTrack
    out = []
    try:
        with core.quiet():
            s_ = scale_of(qs[0], *poly)
            qt = mk_track(qs, s_)
            if (len(qs) + len(poly) + int(sum(q[0] for q in qs))) % 2 == 0:
                # history: the projected track already carries features named like the outputs (it is the result of an earlier
                # projection on another line, whose values it still holds)
                qt.createAnalyticalFeature("dist", [99.0 + k for k in range(len(qs))])
                qt.createAnalyticalFeature("edge", [7] * len(qs))
            res = mapOnTrack(qt, mk_track(poly, s_))
            n = res.size()
            rows = [(res["dist", k] / s_, res[k].position.getX() / s_, res[k].position.getY() / s_, res["edge", k]) for k in range(n)]
        if n != len(qs):
            raise core.Machinery("mapOnTrack(track, track) returned %d observations for %d" % (n, len(qs)))
        for q, (d, x, y, i) in zip(qs, rows):
            e = abstract(poly, q, False, d, x, y, i)
            e["ev"] = "mapOnTrack(track)"
            out.append(e)
    except core.Machinery:
        raise
    except Exception as ex:
        if len(qs) == 1:
            e = abstract(poly, qs[0], True)
            e["exc"] = repr(ex)[:80]
            e["ev"] = "mapOnTrack(track)"
            out.append(e)
        else:                       # find which observation(s) make the call fail: one call per observation
            for q in qs:
                out.extend(call_maptrack(poly, [q]))
    return out


def proper(poly):
    return any(poly[k] != poly[k + 1] for k in range(len(poly) - 1))


def job_seg(args):
    lat, pad = args[0], args[1]
    pts = [(x, y) for x in range(lat + 1) for y in range(lat + 1)]
    qs = [(x, y) for x in range(-pad, lat + pad + 1) for y in range(-pad, lat + pad + 1)]
    a = args[2]
    return [call_seg(a, b, q) for b in pts if b != a for q in qs]


def job_poly(args):
    lat, pad, nv, first = args
    pts = [(x, y) for x in range(lat + 1) for y in range(lat + 1)]
    qs = [(x, y) for x in range(-pad, lat + pad + 1) for y in range(-pad, lat + pad + 1)]
    out = []
    for rest in itertools.product(pts, repeat=nv - 1):
        poly = [first] + list(rest)
        if not proper(poly):
            continue
        for q in qs:
            out.append(call_poly(poly, q))
    return out


def job_random(args):
    seed, count = args
    rnd = random.Random(seed)
    out = []
    for _ in range(count):
        n = rnd.randrange(2, 7)
        style = rnd.random()
        poly = []
        cur = (rnd.randrange(0, 13), rnd.randrange(0, 13))
        poly.append(cur)
        while len(poly) < n:
            r = rnd.random()
            if r < 0.15:
                nxt = cur                                               # zero-length segment
            elif r < 0.35 and style < 0.7:
                nxt = (rnd.randrange(0, 13), cur[1])                    # horizontal
            elif r < 0.55 and style < 0.3:
                nxt = (cur[0], rnd.randrange(0, 13))                    # vertical
            else:
                nxt = (rnd.randrange(0, 13), rnd.randrange(0, 13))
                if style >= 0.3 and nxt[0] == cur[0] and nxt != cur:
                    nxt = (nxt[0] + 1 if nxt[0] < 12 else nxt[0] - 1, nxt[1])
            poly.append(nxt)
            cur = nxt
        if not proper(poly):
            continue
        qs = []
        for k in range(len(poly) - 1):
            a, b = poly[k], poly[k + 1]
            qs.append(a)                                                # at a vertex
            if (a[0] + b[0]) % 2 == 0 and (a[1] + b[1]) % 2 == 0:
                qs.append(((a[0] + b[0]) // 2, (a[1] + b[1]) // 2))     # on the segment
            qs.append((2 * b[0] - a[0], 2 * b[1] - a[1]))               # beyond its end
        qs.append(poly[-1])
        qs += [(rnd.randrange(-5, 18), rnd.randrange(-5, 18)) for _ in range(6)]
        qs = [q for q in qs if -5 <= q[0] <= 17 and -5 <= q[1] <= 17]
        for q in qs:
            out.append(call_poly(poly, q, floats=rnd.random() < 0.5))
            out.append(call_map(poly, q))
        out.extend(call_maptrack(poly, qs[:8]))
    return out


def mc_cfg(lat, pad, invs):
    return ("SPECIFICATION Spec\nCONSTANTS\n  LatMax = %d\n  QPad = %d\n  Mode = \"mc\"\n" % (lat, pad)
            + "".join("INVARIANT %s\n" % i for i in invs) + "CHECK_DEADLOCK FALSE\n")


def is_vertex(e):
    p = e["p"]
    return p[2] == 1 and [p[0], p[1]] in e["poly"]


def run(ctx):
    quick = ctx.tier == "quick"
    ctx.rule = ("TLC: transcribed proj_segment / proj_polyligne satisfy the acceptance predicate on every segment and 3-vertex "
                "polyline of a lattice x every query (vertical branch refuted = known finding). Binding: proj_segment on every "
                "non-degenerate lattice segment x query; proj_polyligne on every 3-vertex (thorough: 4-vertex) lattice polyline "
                "x query; random polylines of 2-6 vertices (zero-length / horizontal / vertical / oblique) with queries at "
                "vertices, on, beyond, beside and far through proj_polyligne and mapOnTrack(coord | track). Non-trivial = "
                "distinct (polyline, query) whose returned point is not a vertex (foot strictly inside a segment).")
    ctx.assumptions += ["integer coordinates in -5..17 (exact products in TLC's 32-bit integers)",
                        "polylines with at least one non-degenerate segment; proj_segment on non-degenerate segments",
                        "floats are mapped to the lattice of exact answers with relative tolerance 1e-9"]
    lat = 2 if quick else 3
    c = ctx.write_cfg("PJ.cfg", mc_cfg(lat, 1, ["DefConsistent", "NonVerticalAccepted", "PolyAccepted"]))
    ctx.tlc_mc("Projection", c, label="Projection design check, lattice 0..%d" % lat)
    c = ctx.write_cfg("PJ_legacy.cfg", mc_cfg(2, 1, ["LegacyVerticalAccepted"]))
    ctx.tlc_mc("Projection", c, label="self-test: pinned vertical branch refuted", expect_violation="LegacyVerticalAccepted")

    import multiprocessing as mp
    jobs = []
    slat = 3 if quick else 4
    for a in [(x, y) for x in range(slat + 1) for y in range(slat + 1)]:
        jobs.append((job_seg, (slat, 1, a)))
    for first in [(x, y) for x in range(3) for y in range(3)]:
        jobs.append((job_poly, (2, 1, 3, first)))
        if not quick:
            jobs.append((job_poly, (2, 1, 4, first)))
    per = 25 if quick else 2000
    for k in range(32):
        jobs.append((job_random, (ctx.seed * 31 + k, per)))
    events = []
    with mp.get_context("fork").Pool(16, initializer=core._pool_init, initargs=(None,)) as pool:
        res = [pool.apply_async(f, (a,)) for f, a in jobs]
        for r in res:
            events.extend(r.get())
    for k, e in enumerate(events):
        e["id"] = k
    rej = ctx.tlc_trace("ProjectionTrace", events, chunks=16, label="projection trace")
    byid = {e["id"]: e for e in events}
    for i, clause in sorted(rej.items()):
        e = byid[i]
        what = "%s of %s on %s -> %s: %s" % (
            e["ev"], e["q"], e["poly"],
            ("raised " + e.get("exc", "")) if e["raised"] else "segment %s point %s d^2 %s%s" % (e["i"], e["p"], e["dd"], "" if e["lat"] else " (off lattice)"),
            clause)
        if clause == "legacy_vertical":
            ctx.violation("proj/segment with x1 = x2", what, e)
        else:
            vert = any(e["poly"][k][0] == e["poly"][k + 1][0] and e["poly"][k] != e["poly"][k + 1] for k in range(len(e["poly"]) - 1))
            ctx.violation("proj/%s/%s%s" % (e["ev"], clause, "/has-vertical" if vert else ""), what, e)
    for e in events:
        if not e["raised"] and e["lat"] and e["id"] not in rej and not is_vertex(e):
            ctx.nontriv(repr((e["poly"], e["q"])))
    ctx.evaluations += len(events)
    ctx.exhaustive = True
    ctx.extra["records_by_call"] = {k: sum(1 for e in events if e["ev"] == k) for k in sorted({e["ev"] for e in events})}
    for e in events:
        if e["id"] not in rej and not e["raised"] and not is_vertex(e) and len(e["poly"]) > 3:
            ctx.sample({k: e[k] for k in ("ev", "poly", "q", "i", "p", "dd")}, limit=3)
