"""CellOps.tla bound to tracklib.core.utils.co_count_distinct / co_dominant (spec -> code): every list printed by the model is
handed to the two operators (NaN = 99 in the model; co_dominant only on lists without NaN, and on the empty list)."""
import math

import core

NANV = 99


def replay(cases):
    from tracklib.core.utils import co_count_distinct, co_dominant
    viol, nontriv, samples = [], set(), []
    for ci, c in enumerate(cases):
        lst = [float("nan") if v == NANV else float(v) for v in c["l"]]
        try:
            with core.quiet():
                d = co_count_distinct(list(lst))
                dom = co_dominant(list(lst)) if NANV not in c["l"] else None
        except (Exception, SystemExit) as ex:
            viol.append(("cellops/raised", "operators on %s raised %r" % (c["l"], ex), c))
            continue
        if int(d) != c["distinct"]:
            viol.append(("cellops/count_distinct", "co_count_distinct(%s) = %r, specification %r" % (c["l"], d, c["distinct"]), c))
        if dom is not None:
            want = c["dom"]
            ok = (isinstance(dom, float) and math.isnan(dom)) if want == NANV else (dom == want)
            if not ok:
                viol.append(("cellops/dominant", "co_dominant(%s) = %r, specification %r" % (c["l"], dom, "NaN" if want == NANV else want), c))
        if len(set(c["l"])) >= 2:
            nontriv.add("mixed")
        if ci == 0:
            samples.append(c)
    return len(cases), viol, nontriv, samples


CFG = "SPECIFICATION Spec\nCONSTANTS\n  Emit = TRUE\n  MaxLen = %d\n  Vals = {0, 1, 2}\n  NaNv = 99\nINVARIANT Inv\nCHECK_DEADLOCK FALSE\n"


def run(ctx, quick):
    n = 5 if quick else 7
    path, out = ctx.tlc_emit_file("CellOps", ctx.write_cfg("CO.cfg", CFG % n), label="cell operators co_count_distinct / co_dominant, lists to %d values" % n)
    got = ctx.pmap_emitted(path, replay, chunk=500, growth=True)
    if got != out.distinct:
        raise core.Machinery("CellOps: emitted states %d != distinct states %d" % (got, out.distinct))
    ctx.extra["cell_operator_lists_replayed"] = got
