"""C03 - Calendar.tla bound to tracklib.core.obs_time.ObsTime (spec -> code replay).

TLC walks the day chain 1970..2099 x a time-of-day lattice, checks the calendar
invariants on the model and prints every state with its successors (one unit apart in
each field, offsets crossing day/month/year ends).  Every printed state and transition
is replayed on the real ObsTime and compared with the specification's values."""
import random

import core

KINDS_ADD = {"S1": ("addSec", 1), "M1": ("addMin", 1), "H1": ("addHour", 1), "D1": ("addDay", 1),
             "D31": ("addDay", 31), "D365": ("addDay", 365), "B1": ("addSec", -1), "S3661": ("addSec", 3661),
             "MB45": ("addMin", -45), "HB5": ("addHour", -5),
             "DM1": ("addDay", -1), "DMD": ("addDay", None)}      # None: minus the day of the month of the state
DAYMS = 86400000


def _tod(o):
    return ((o.hour * 60 + o.min) * 60 + o.sec) * 1000 + o.ms


def _fields(o):
    return [o.year, o.month, o.day, o.hour, o.min, o.sec, o.ms]


def _same_instant(o, dt, tod, exact, alt):
    """o (an ObsTime from the code) denotes the model instant (dt, tod); exact when there is
    no sub-second part, within 1 ms otherwise.  alt = {date tuple: day offset} for neighbours."""
    for v, lo, hi in ((o.month, 1, 12), (o.day, 1, 31), (o.hour, 0, 23), (o.min, 0, 59), (o.sec, 0, 59), (o.ms, 0, 999)):
        if not isinstance(v, int) or v < lo or v > hi:
            return False
    key = (o.year, o.month, o.day)
    if key not in alt:
        return False
    diff = alt[key] * DAYMS + _tod(o) - tod
    return diff == 0 if exact else abs(diff) <= 1


def _moved_by(a, b, ms, alt):
    """b denotes the instant of a moved by ms milliseconds, to within the millisecond of one conversion"""
    ka, kb = (a.year, a.month, a.day), (b.year, b.month, b.day)
    if ka not in alt or kb not in alt:
        return False
    return abs((alt[kb] - alt[ka]) * DAYMS + _tod(b) - _tod(a) - ms) <= 1


def replay(cases):
    from tracklib.core.obs_time import ObsTime
    viol, nontriv, samples = [], set(), []
    for c in cases:
        y, m, d = c["y"], c["m"], c["d"]
        h, mi, s, ms = c["f"]
        t = ObsTime(y, m, d, h, mi, s, ms)
        exact = (ms == 0)
        # ---- to seconds since 1970
        a = t.toAbsTime()
        exp = c["day"] * 86400 + c["tod"] / 1000.0
        if abs(a - exp) > 2e-6:
            viol.append(("toAbsTime", "toAbsTime(%s) = %r, specification says %r" % (_fields(t), a, exp), c["day"]))
        # ---- the fields of a timestamp are public: the same OBJECT, edited, denotes the instant of its current fields
        te = ObsTime(y, m, d, h, mi, s, ms)
        te.toAbsTime()
        which = (c["day"] + h) % 3
        if which == 0:
            te.ms = (ms + 500) % 1000
            exp2 = exp + (te.ms - ms) / 1000.0
        elif which == 1:
            te.sec = (s + 7) % 60
            exp2 = exp + (te.sec - s)
        else:
            te.hour = (h + 5) % 24
            exp2 = exp + 3600 * (te.hour - h)
        a2 = te.toAbsTime()
        if abs(a2 - exp2) > 2e-6:
            viol.append(("toAbsTime/edited-object", "toAbsTime of %s after editing the object %s = %r, specification says %r"
                         % ([y, m, d, h, mi, s, ms], _fields(te), a2, exp2), c["day"]))
        # ---- and back
        nd = c["succ"]["D1"]["dt"]
        alt = {(y, m, d): 0, tuple(nd): 1}
        if "P" in c:
            alt[tuple(c["P"])] = -1
        try:
            r = ObsTime.readUnixTime(exp)
            ok = _same_instant(r, (y, m, d), c["tod"], exact, alt)
            got = _fields(r)
        except Exception as e:  # pragma: no cover
            ok, got = False, repr(e)
        if not ok:
            viol.append(("readUnixTime", "readUnixTime(%r) = %s, specification state %s"
                         % (exp, got, [y, m, d, h, mi, s, ms]), c["day"]))
        # ---- results are VALUES: converting another instant of the same whole second, or offsetting the result by a fraction of
        #      a second, leaves an earlier result alone, and the results compare as their instants do
        if ok:
            before = _fields(r)
            ms2 = (ms + 250 + (c["day"] % 3) * 250) % 1000
            tod2 = c["tod"] - ms + ms2
            try:
                r2 = ObsTime.readUnixTime(c["day"] * 86400 + tod2 / 1000.0)
                r3 = r.addSec(0.25) if ms <= 700 else None
                if _fields(r) != before or r2 is r or r3 is r:
                    viol.append(("readUnixTime/earlier-result-changed", "readUnixTime(%r) gave %s; after converting %r (and addSec(0.25)) "
                                 "the first result reads %s" % (exp, before, c["day"] * 86400 + tod2 / 1000.0, _fields(r)), c["day"]))
                elif not _same_instant(r2, (y, m, d), tod2, False, alt):
                    viol.append(("readUnixTime", "readUnixTime(%r) = %s right after readUnixTime(%r)" % (c["day"] * 86400 + tod2 / 1000.0, _fields(r2), exp), c["day"]))
                elif bool(r < r2) != (ms < ms2) or bool(r2 < r) != (ms2 < ms) or r == r2:
                    viol.append(("compare/same-second", "%s vs %s (same second, read from %r and %r): <, >, == disagree with the seconds"
                                 % (_fields(r), _fields(r2), exp, c["day"] * 86400 + tod2 / 1000.0), c["day"]))
                elif r3 is not None and (not _moved_by(r, r3, 250, alt) or not (r < r3) or r3 < r or r3 == r):
                    viol.append(("addSec/sub-second", "%s.addSec(0.25) = %s" % (_fields(r), _fields(r3)), c["day"]))
            except Exception as e:  # pragma: no cover
                viol.append(("readUnixTime", "second conversion in the same second raised %r" % (e,), c["day"]))
        # ---- seconds are floats: an instant (or an offset) with a sub-millisecond part just below a whole second comes back as a
        #      WELL-FORMED timestamp (ms 0..999) within one millisecond - .999 of that second or .000 of the next
        frac = (0.9996, 0.99999, 0.9995001)[c["day"] % 3]
        sec0 = c["tod"] // 1000
        try:
            r4 = ObsTime.readUnixTime(c["day"] * 86400 + sec0 + frac)
            if not _same_instant(r4, (y, m, d), sec0 * 1000 + frac * 1000, False, alt):
                viol.append(("readUnixTime/sub-millisecond", "readUnixTime(%r) = %s" % (c["day"] * 86400 + sec0 + frac, _fields(r4)), c["day"]))
            elif (c["day"] + h) % 2:
                t0 = ObsTime(y, m, d, h, mi, s, 0)
                r5 = t0.addSec(frac)
                if not _same_instant(r5, (y, m, d), sec0 * 1000 + frac * 1000, False, alt):
                    viol.append(("addSec/sub-millisecond", "%s.addSec(%r) = %s" % (_fields(t0), frac, _fields(r5)), c["day"]))
        except Exception as e:  # pragma: no cover
            viol.append(("readUnixTime/sub-millisecond", "instant %r raised %r" % (c["day"] * 86400 + sec0 + frac, e), c["day"]))
        # ---- day of the week (growth of the clock model)
        try:
            dow = t.getDayOfWeek()
        except Exception as e:  # pragma: no cover
            dow = repr(e)
        if dow != c["dow"]:
            viol.append(("growth:getDayOfWeek", "getDayOfWeek(%s) = %r, specification %r" % (_fields(t), dow, c["dow"]), c["day"]))
        # ---- offsets and order
        for k, sc in c["succ"].items():
            if sc["day"] < 0:
                continue            # domain: instants from 1970-01-01 on
            u = ObsTime(sc["dt"][0], sc["dt"][1], sc["dt"][2], *sc["f"])
            if k in KINDS_ADD:
                fn, nb = KINDS_ADD[k]
                if nb is None:
                    nb = -d
                try:
                    r = getattr(t, fn)(nb)
                    altk = {tuple(sc["dt"]): 0, tuple(sc["nx"]): 1}
                    ok = _same_instant(r, tuple(sc["dt"]), sc["tod"], exact, altk)
                    got = _fields(r)
                except Exception as e:  # pragma: no cover
                    ok, got = False, repr(e)
                if not ok:
                    viol.append((fn, "%s.%s(%d) = %s, specification successor %s" %
                                 (_fields(t), fn, nb, got, sc["dt"] + sc["f"]), c["day"]))
            cmp_ = sc["cmp"]           # order of the two INSTANTS according to the specification
            obs = {"<": t < u, ">": t > u, "<=": t <= u, ">=": t >= u, "==": t == u, "!=": t != u,
                   "r<": u < t, "r>": u > t}
            want = {"<": cmp_ < 0, ">": cmp_ > 0, "<=": cmp_ <= 0, ">=": cmp_ >= 0, "==": cmp_ == 0, "!=": cmp_ != 0,
                    "r<": cmp_ > 0, "r>": cmp_ < 0}
            for op in obs:
                if bool(obs[op]) != want[op]:
                    viol.append(("compare", "%s %s %s is %r but the instants compare as %d"
                                 % (_fields(t), op, _fields(u), obs[op], cmp_), c["day"]))
        for fu, cmp_ in c.get("xp", []):      # same-day instants differing in several fields at once, both signs
            u = ObsTime(y, m, d, *fu)
            obs = {"<": t < u, ">": t > u, "<=": t <= u, ">=": t >= u, "==": t == u, "!=": t != u, "r<": u < t, "r>": u > t, "r==": u == t}
            want = {"<": cmp_ < 0, ">": cmp_ > 0, "<=": cmp_ <= 0, ">=": cmp_ >= 0, "==": cmp_ == 0, "!=": cmp_ != 0,
                    "r<": cmp_ > 0, "r>": cmp_ < 0, "r==": cmp_ == 0}
            for op in obs:
                if bool(obs[op]) != want[op]:
                    viol.append(("compare/multi-field", "%s %s %s is %r but the instants compare as %d"
                                 % (_fields(t), op, [y, m, d] + list(fu), obs[op], cmp_), c["day"]))
                    break
        tc = ObsTime(y, m, d, h, mi, s, ms)
        if not (t == tc) or (t != tc) or (t < tc) or (t > tc) or not (t <= tc) or not (t >= tc):
            viol.append(("compare", "reflexive comparison wrong on %s" % _fields(t), c["day"]))
        # non-trivial: the date is within one day of a month / year end or is 29 Feb
        if d == 1 or nd[2] == 1 or (m == 2 and d == 29):
            nontriv.add((y, m, d, c["tod"]))
        if len(samples) < 1 and d == 1 and m == 1 and ms:
            samples.append({"state": [y, m, d, h, mi, s, ms], "dayNo": c["day"], "succ_D365": c["succ"]["D365"]})
    return len(cases), viol, nontriv, samples


def seconds_of_special_days(args):
    """thorough: every second of one special day; dayNo and the neighbour dates come from the model."""
    from tracklib.core.obs_time import ObsTime
    out = []
    for (y, m, d, dayno, nxt) in args:
        bad = []
        for sod in range(86400):
            h, r = divmod(sod, 3600)
            mi, s = divmod(r, 60)
            t = ObsTime(y, m, d, h, mi, s, 0)
            a = t.toAbsTime()
            if a != dayno * 86400 + sod:
                bad.append(("toAbsTime", "toAbsTime(%s)=%r, specification %r" % (_fields(t), a, dayno * 86400 + sod), dayno))
                break
            r_ = ObsTime.readUnixTime(a)
            if _fields(r_) != [y, m, d, h, mi, s, 0]:
                bad.append(("readUnixTime", "readUnixTime(%r)=%s, specification %s" % (a, _fields(r_), [y, m, d, h, mi, s, 0]), dayno))
                break
            n_ = t.addSec(1)
            if sod + 1 == 86400:
                exp = list(nxt) + [0, 0, 0, 0]
            else:
                hh, rr = divmod(sod + 1, 3600)
                exp = [y, m, d, hh, rr // 60, rr % 60, 0]
            if _fields(n_) != exp or not (t < n_) or (n_ < t) or t == n_:
                bad.append(("addSec", "%s.addSec(1)=%s, specification %s" % (_fields(t), _fields(n_), exp), dayno))
                break
        out.append((86400, bad))
    return out


def cfg(y0, y1, tods, emit, props=True):
    return """SPECIFICATION Spec
CONSTANTS
  Y0 = %d
  Y1 = %d
  Tods = {%s}
  Emit = %s
INVARIANT WellFormed
INVARIANT SumAgrees
INVARIANT LoopsInvert
INVARIANT OrderAgrees
INVARIANT OrderAgreesX
PROPERTY DayChain
CHECK_DEADLOCK FALSE
""" % (y0, y1, ", ".join(str(t) for t in sorted(tods)), "TRUE" if emit else "FALSE")


def run(ctx):
    rnd = random.Random(ctx.seed)
    ctx.rule = ("TLC enumerates every calendar day 1970-01-01..2099-12-31 x a time-of-day lattice (00:00:00.000, "
                "23:59:59.999, noon, seeded random ms, ...) with 9 successor kinds per state; every state and "
                "transition is replayed on ObsTime. Non-trivial = date within one day of a month/year end or 29 Feb "
                "(distinct (date, time-of-day) pairs).")
    ctx.assumptions += ["instants travel as (dayNo, ms of day); the abstraction function maps ObsTime fields to them",
                        "read-back of an instant with a sub-second part is accepted within 1 ms (property text)",
                        "epoch anchors ToDays(2000-03-01)=11017, (2038-01-19)=24855, (2100-01-01)=47482 are ASSUMEd in the spec"]
    fixed = [0, 86399999, 43200000]
    if ctx.tier == "quick":
        tods = set(fixed + [999, rnd.randrange(1, DAYMS)])
    else:
        tods = set(fixed + [1, 999, 1000, 59999, 60000, 3599999, 3600000, 43261001, 86399000]
                   + [rnd.randrange(1, DAYMS) for _ in range(4)])
    c = ctx.write_cfg("Calendar_gen.cfg", cfg(1970, 2099, tods, True))
    path, out = ctx.tlc_emit_file("Calendar", c, timeout=1500, label="Calendar day chain x %d tods, emit" % len(tods))
    n = ctx.pmap_emitted(path, replay, chunk=1500)
    expected = (47482) * len(tods)
    if n != expected:
        raise core.Machinery("emitted %d states, expected %d (interleaved PrintT output?)" % (n, expected))
    ctx.exhaustive = True
    ctx.extra["days_enumerated"] = 47482
    ctx.extra["tods"] = sorted(tods)
    if ctx.tier == "thorough":
        # every second of 28/29 Feb, 31 Dec and 1 Jan of each year: dayNo / next date come from a model run
        c2 = ctx.write_cfg("Calendar_days.cfg", cfg(1970, 2099, {0}, True))
        cases, _ = ctx.tlc_emit("Calendar", c2, label="Calendar day chain (special days)")
        special = []
        for cs in cases:
            y, m, d = cs["y"], cs["m"], cs["d"]
            if (m, d) in ((2, 28), (2, 29), (12, 31), (1, 1)):
                special.append((y, m, d, cs["day"], tuple(cs["succ"]["D1"]["dt"])))
        import multiprocessing as mp
        groups = [special[i::64] for i in range(64)]
        with mp.get_context("fork").Pool(16, initializer=core._pool_init, initargs=(None,)) as pool:
            for res in pool.imap_unordered(seconds_of_special_days, groups):
                for nsec, bad in res:
                    ctx.evaluations += nsec
                    ctx.bound += nsec
                    for b in bad:
                        ctx.violation(*b)
        ctx.extra["special_days_every_second"] = len(special)
