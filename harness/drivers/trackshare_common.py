"""TrackShare.tla bound to tracklib.core.track.Track (spec -> code): every history of public calls printed by the model is
replayed on real tracks; per track the values read, which tracks hold the same LIST object (getObsList() is ...) and which
positions hold the same Obs object are compared with the heap of the specification (ids canonicalised by first appearance)."""
import core


def canon(seqs):
    seen, out = {}, []
    for s in seqs:
        row = []
        for v in s:
            seen.setdefault(v, len(seen) + 1)
            row.append(seen[v])
        out.append(row)
    return out


def replay(cases):
    from tracklib.core.track import Track
    from tracklib.core.obs import Obs
    from tracklib.core.obs_coords import ENUCoords
    from tracklib.core.obs_time import ObsTime
    viol, nontriv, samples = [], set(), []
    for ci, c in enumerate(cases):
        hist = c["hist"]
        label = [(o["op"], o["a"], o["b"]) for o in hist]
        last = hist[-1]["op"] if hist else "init"
        made = [0]

        def fresh():
            made[0] += 1
            return Obs(ENUCoords(10.0 * made[0], 0.0, 0.0), ObsTime.readUnixTime(1600000000 + made[0]))
        try:
            with core.quiet():
                T = []
                for o in hist:
                    op, a, b = o["op"], o["a"], o["b"]
                    if op == "new":
                        T.append(Track([fresh() for _ in range(a)]) if a else Track())
                    elif op == "wrap":
                        T.append(Track(T[a - 1].getObsList()))
                    elif op == "extract":
                        T.append(T[a - 1].extract(0, 0))
                    elif op == "tail":
                        T.append(T[a - 1] > 1)
                    elif op == "concat":
                        T.append(T[a - 1] + T[b - 1])
                    elif op == "copy":
                        k0 = made[0]
                        T.append(T[a - 1].copy())
                        made[0] = k0 + len({id(T[-1].getObs(k)) for k in range(T[-1].size())})          # the copies count as new observations (ids only)
                    elif op == "add":
                        T[a - 1].addObs(fresh())
                    elif op == "removefirst":
                        T[a - 1].removeObs(0)
                    elif op == "move":
                        p = T[a - 1].getObs(0).position
                        p.setX(p.getX() + 1)
                    elif op == "setlist":
                        T[a - 1].setObsList(T[b - 1].getObsList())
                got_vals = [[int(round(t.getObs(k).position.getX())) for k in range(t.size())] for t in T]
                got_lists = canon([[id(t.getObsList())] for t in T])
                got_obs = canon([[id(t.getObs(k)) for k in range(t.size())] for t in T])
        except (Exception, SystemExit) as ex:
            viol.append(("trackshare/raised/after-" + last, "history %s raised %r" % (label, ex), hist))
            continue
        want_vals = [list(v) for v in c["vals"]]
        want_lists = canon([[l] for l in c["listid"]])
        want_obs = canon([list(s) for s in c["obs"]])
        if got_vals != want_vals:
            viol.append(("trackshare/values/after-" + last, "history %s: tracks read %s, specification %s" % (label, got_vals, want_vals), hist))
        elif got_lists != want_lists:
            viol.append(("trackshare/list-identity/after-" + last, "history %s: list objects %s, specification %s" % (label, got_lists, want_lists), hist))
        elif got_obs != want_obs:
            viol.append(("trackshare/obs-identity/after-" + last, "history %s: Obs objects %s, specification %s" % (label, got_obs, want_obs), hist))
        if len({o["op"] for o in hist}) >= 3:
            nontriv.add("mixed")
        if ci == 0:
            samples.append(c)
    return len(cases), viol, nontriv, samples


CFG = "SPECIFICATION Spec\nCONSTANTS\n  Emit = %s\n  MaxOps = %d\n%sCHECK_DEADLOCK FALSE\n"
PROPS = "".join("PROPERTY %s\n" % p for p in ("CopyIsolated", "FreshListSharedObs", "CreationIsPure", "ListEditLocal", "ObsEditLocal"))


def run(ctx, quick):
    ctx.tlc_mc("TrackShare", ctx.write_cfg("TS_cc.cfg", CFG % ("FALSE", 3, "PROPERTY ConstructorCopiesList\n")), expect_violation="ConstructorCopiesList",
               label="TrackShare self-test: the constructor keeps the (non-empty) list it is given (ConstructorCopiesList refuted)")
    depth = 5 if quick else 6
    path, out = ctx.tlc_emit_file("TrackShare", ctx.write_cfg("TS.cfg", CFG % ("TRUE", depth, "INVARIANT Inv\n" + PROPS)),
                                  label="track sharing histories to %d operations" % depth)
    n = ctx.pmap_emitted(path, replay, chunk=500, growth=True)
    if n != out.distinct:
        raise core.Machinery("TrackShare: emitted states %d != distinct states %d" % (n, out.distinct))
    ctx.extra["track_sharing_histories_replayed"] = n
