"""C10 - MapMatch.tla / MapMatchTrace.tla bound to tracklib.algo.mapping.mapOnNetwork (code -> spec).

TLC checks on the model that every candidate state the transcribed construction (projection on the edge geometry,
radius filter, distances to both end nodes along the edge) can produce is accepted.  The driver builds real networks
whose edge legs have integer length (horizontal, vertical, 6-8-10 oblique, multi-vertex), indexes them with several
resolutions, prepares them, map-matches tracks wandering on / near / far from / outside the network with several radii
and noise parameters, and records for every observation what track['hmm_inference', k] holds afterwards together with
the observations' identities, positions and timestamps before and after; TLC judges every call."""
import itertools
import math
import random

import core

_PQ = []          # priority-queue histories recorded while networks are prepared (per worker process)

LEGS = [(2, 0), (4, 0), (6, 0), (-2, 0), (-4, 0), (0, 2), (0, 4), (0, 6), (0, -2), (0, -4),
        (6, 8), (8, 6), (-6, 8), (8, -6), (3, 4), (4, 3), (-4, 3), (3, -4)]


def build_network(edges, res, margin, scale=1, past=None):
    """edges: list of geometries (lists of integer points). Nodes are created per distinct end point.
    past: (obs, radius, noise) - history: the network first stood 3 units east / 1 unit north of where it is judged, was indexed,
    prepared and MATCHED ON there; every vertex was then moved in place (setX / setY), the abscissas and weights recomputed,
    the index and the preparation rebuilt - an edited network is an ordinary network"""
    if past is not None:
        from tracklib.core.track import Track
        from tracklib.core.obs import Obs
        from tracklib.core.obs_coords import ENUCoords
        from tracklib.core.obs_time import ObsTime
        from tracklib.algo.cinematics import computeAbsCurv
        from tracklib.algo.mapping import mapOnNetwork
        shifted = [[(p[0] + 3, p[1] + 1) for p in g] for g in edges]
        net = build_network(shifted, res, margin, scale)
        obs, radius, noise = past
        try:
            mapOnNetwork(Track([Obs(ENUCoords(float(p[0] + 3) * scale, float(p[1] + 1) * scale, 0.0), ObsTime.readUnixTime(1600000000 + 10 * k))
                                for k, p in enumerate(obs)]), net, gps_noise=noise, search_radius=radius, verbose=False)
        except (Exception, SystemExit):
            pass
        for j, g in enumerate(edges):
            e = net.getEdge(j + 1)
            for k, p in enumerate(g):
                e.geom.getObs(k).position.setX(float(p[0]) * scale)
                e.geom.getObs(k).position.setY(float(p[1]) * scale)
            e.geom.removeAnalyticalFeature("abs_curv")
            computeAbsCurv(e.geom)
            e.weight = e.geom.length() if (len(edges) + len(edges[0])) % 2 else 2.5 * e.geom.length() + 1.0
        net.createSpatialIndex(resolution=(res if res is None or scale == 1 else (res[0] * scale, res[1] * scale)), margin=margin, verbose=False)
        net.prepare(verbose=False)
        return net
    from tracklib.core.network import Network, Node, Edge
    from tracklib.core.track import Track
    from tracklib.core.obs import Obs
    from tracklib.core.obs_coords import ENUCoords
    from tracklib.core.obs_time import ObsTime
    from tracklib.algo.cinematics import computeAbsCurv
    net = Network()
    nid = {}
    # a third of the networks lie at a constant elevation of 120 (a town on a plateau; the tracks are recorded at z = 0): the
    # matching is planimetric, and 2D and 3D edge lengths are the same
    elev = 120.0 if (len(edges) + sum(len(g) for g in edges)) % 3 == 0 else 0.0
    for j, g in enumerate(edges):
        tr = Track([Obs(ENUCoords(float(p[0]) * scale, float(p[1]) * scale, elev), ObsTime()) for p in g], j + 1)
        computeAbsCurv(tr)
        e = Edge(j + 1, tr)
        e.orientation = Edge.DOUBLE_SENS
        # the routing cost of an edge is its length for half of the networks and a travel time (another unit) for the others:
        # where the matched point is and how far it is from the end nodes ALONG THE EDGE does not depend on it
        e.weight = tr.length() if (len(edges) + len(edges[0])) % 2 else 2.5 * tr.length() + 1.0
        a, b = tuple(g[0]), tuple(g[-1])
        for p in (a, b):
            if p not in nid:
                nid[p] = len(nid) + 1
        net.addEdge(e, Node(nid[a], tr.getFirstObs().position), Node(nid[b], tr.getLastObs().position))
    net.createSpatialIndex(resolution=(res if res is None or scale == 1 else (res[0] * scale, res[1] * scale)), margin=margin, verbose=False)
    net.prepare(verbose=False)
    return net


def rat(v, dens):
    for d in dens:
        n = round(v * d)
        if abs(v - n / d) <= 1e-9 * max(1.0, abs(v)):
            g = math.gcd(abs(n), d)
            return [n // g, d // g]
    return None


def abstract_state(st, edges, scale=1):
    out = {"e": -1, "lat": True, "p": [0, 0, 1], "ds": [0, 1], "dt": [0, 1]}
    try:
        p, elem, ds, dt = st
        elem = int(elem)
    except Exception:
        out["e"] = -2
        return out
    out["e"] = elem
    if elem == -1 or not (0 <= elem < len(edges)):
        return out
    g = edges[elem]
    n2s = sorted(v for v in ({(g[k + 1][0] - g[k][0]) ** 2 + (g[k + 1][1] - g[k][1]) ** 2 for k in range(len(g) - 1)} | {1}) if v > 0)
    try:
        x, y, ds, dt = float(p.getX()) / scale, float(p.getY()) / scale, float(ds) / scale, float(dt) / scale
    except Exception:
        out["lat"] = False
        return out
    pt = None
    for d in n2s:
        xn, yn = round(x * d), round(y * d)
        if abs(x - xn / d) <= 1e-9 * max(1.0, abs(x)) and abs(y - yn / d) <= 1e-9 * max(1.0, abs(y)):
            g_ = math.gcd(math.gcd(abs(xn), abs(yn)), d)
            pt = [xn // g_, yn // g_, d // g_]
            break
    lens = sorted(v for v in ({int(round(math.sqrt(v))) for v in n2s} | {1}) if v > 0)
    rs, rt = rat(ds, lens), rat(dt, lens)
    if pt is None or rs is None or rt is None:
        out["lat"] = False
        out["raw"] = [x, y, ds, dt]
        return out
    out["p"], out["ds"], out["dt"] = pt, rs, rt
    return out


def run_case(edges, res, margin, obs, radius, noise, scale=1):
    """scale (a power of two, exact): the whole scene - network, track, search radius, noise - is expressed in another unit and the
    answer scaled back; at 1/32 neighbouring lattice points are 3 cm apart (a receiver drifting slowly)"""
    from tracklib.core.track import Track
    from tracklib.core.obs import Obs
    from tracklib.core.obs_coords import ENUCoords
    from tracklib.core.obs_time import ObsTime
    from tracklib.algo.mapping import mapOnNetwork
    import tracklib.algo.mapping as mp_
    from fractions import Fraction
    r2 = Fraction(radius) ** 2
    e = {"ev": "mapOnNetwork", "edges": [[list(p) for p in g] for g in edges], "obs": [list(p) for p in obs],
         "r2": [r2.numerator, r2.denominator], "raised": False, "zerodiv": False, "states": [], "cands": [], "pre": [], "post": [],
         "cfg": {"res": res, "margin": margin, "radius": radius, "noise": noise, "scale": scale}}
    radius, noise = radius * scale, noise * scale
    xs = [p[0] for g in edges for p in g]
    ys = [p[1] for g in edges for p in g]
    if res is not None:          # domain: at least one cell per axis
        res = (min(res[0], max(1, (max(xs) - min(xs)) // 2)), min(res[1], max(1, (max(ys) - min(ys)) // 2)))
        e["cfg"]["res"] = res
    from drivers import prio_common
    prio_common.install_wrappers()
    prio_common.take_logs()
    edited = (len(obs) + 2 * len(edges) + int(sum(p[0] for p in obs))) % 4 == 0
    with core.quiet():
        net = build_network(edges, res, margin, scale, past=(obs, radius, noise) if edited else None)
    if edited:
        e["cfg"]["network"] = "matched on, then edited in place"
    # histories of the priority queues used by prepare() (validated by PrioDictTrace, see run())
    _PQ.extend({"src": "prepare", "steps": st} for st in prio_common.take_logs() if all(x["v"] is not None for x in st))
    t0 = ObsTime(2020, 6, 15, 12, 0, 0).toAbsTime()
    tr = Track([Obs(ENUCoords(float(p[0]) * scale, float(p[1]) * scale, 0.0), ObsTime.readUnixTime(t0 + 10 * k)) for k, p in enumerate(obs)])
    ids = {}

    def snap():
        out = []
        for o in tr.getObsList() if hasattr(tr, "getObsList") else [tr.getObs(k) for k in range(tr.size())]:
            ids.setdefault(id(o), len(ids))
            out.append([ids[id(o)], round(o.position.getX() / scale * 1000), round(o.position.getY() / scale * 1000),
                        round(o.position.getZ() * 1000), round((o.timestamp.toAbsTime() - t0) * 1000)])
        return out
    e["pre"] = snap()
    # mapOnNetwork accepts a track or a COLLECTION of tracks (each matched in turn): every third call hands the judged track
    # over as the second track of a collection, after a decoy with as many observations somewhere else on the network
    coll = (len(obs) + int(sum(p[0] + 2 * p[1] for p in obs)) + len(edges)) % 3 == 0
    e["cfg"]["entry"] = "collection" if coll else "track"
    try:
        with core.quiet():
            if coll:
                from tracklib.core.track_collection import TrackCollection
                ex, ey = edges[-1][0][0], edges[-1][0][1]
                mk_decoy = lambda: Track([Obs(ENUCoords(float(ex + k % 2) * scale, float(ey) * scale, 0.0), ObsTime.readUnixTime(t0 + 10 * k)) for k in range(len(obs))])
                try:            # the decoy itself must be matchable (it may sit next to a vertical leg: known finding)
                    mapOnNetwork(mk_decoy(), net, gps_noise=noise, search_radius=radius, verbose=False)
                except (Exception, SystemExit):
                    coll = False
                    e["cfg"]["entry"] = "track"
            if coll:
                mapOnNetwork(TrackCollection([mk_decoy(), tr]), net, gps_noise=noise, search_radius=radius, verbose=False)
            else:
                if (len(obs) + len(edges)) % 4 == 0:
                    # history: the same track object was matched BEFORE, with a search radius four times as large (its hmm_*
                    # features exist already and hold states that are too far away for the radius of the judged call)
                    try:
                        mapOnNetwork(tr, net, gps_noise=noise, search_radius=4 * radius, verbose=False)
                        e["cfg"]["entry"] = "track, matched before with a larger radius"
                    except (Exception, SystemExit):
                        tr = Track([Obs(ENUCoords(float(p[0]) * scale, float(p[1]) * scale, 0.0), ObsTime.readUnixTime(t0 + 10 * k)) for k, p in enumerate(obs)])
                        ids.clear()
                        e["pre"] = snap()
                mapOnNetwork(tr, net, gps_noise=noise, search_radius=radius, verbose=False)
            inf = [tr["hmm_inference", k] for k in range(tr.size())]
        e["states"] = [abstract_state(s, edges, scale) for s in inf]
        # the candidate lists the decoder chose from (module global of tracklib.algo.mapping)
        e["cands"] = [[abstract_state(c, edges, scale) for c in cl] for cl in mp_.STATES[-tr.size():]]
    except ZeroDivisionError as ex:
        e["raised"] = True
        e["zerodiv"] = True
        e["exc"] = repr(ex)[:80]
    except (Exception, SystemExit) as ex:
        e["raised"] = True
        e["exc"] = repr(ex)[:80]
    e["post"] = snap()
    e["cfg"] = repr(e["cfg"])
    e.pop("exc", None) if not e["raised"] else None
    for st in e["states"] + [c for cl in e["cands"] for c in cl]:
        st.pop("raw", None)
    return e


def gen_network(rnd, nedges, vertical=True):
    """random connected network of integer-leg edges inside 0..40"""
    pool = [l for l in LEGS if vertical or l[0] != 0]
    nodes = [(rnd.randrange(8, 24, 2), rnd.randrange(8, 24, 2))]
    edges = []
    tries = 0
    while len(edges) < nedges and tries < 200:
        tries += 1
        cur = rnd.choice(nodes)
        g = [cur]
        for _ in range(rnd.randrange(1, 4)):
            dx, dy = rnd.choice(pool)
            nxt = (g[-1][0] + dx, g[-1][1] + dy)
            if not (0 <= nxt[0] <= 40 and 0 <= nxt[1] <= 40):
                break
            g.append(nxt)
        if len(g) < 2:
            continue
        if len(g) >= 3 and rnd.random() < 0.3:      # a repeated consecutive vertex (zero-length leg), as digitised networks have
            k = rnd.randrange(1, len(g) - 1)
            g = g[:k] + [g[k]] + g[k:]
        edges.append(g)
        nodes.append(g[-1])
    xs = [p[0] for g in edges for p in g]
    ys = [p[1] for g in edges for p in g]
    if not edges or max(xs) - min(xs) < 4 or max(ys) - min(ys) < 4:
        return gen_network(rnd, nedges, vertical)
    return edges


def gen_track(rnd, edges, n, odd):
    """observations on, near, far from and outside the network; odd => x odd (never on a vertical leg, whose x is even
    or comes from a 3-4 leg start)"""
    pts = [p for g in edges for p in g]
    obs = []
    for _ in range(n):
        g = rnd.choice(edges)
        k = rnd.randrange(len(g) - 1)
        a, b = g[k], g[k + 1]
        t = rnd.choice([0, 0.5, 1, 0.25])
        x = a[0] + t * (b[0] - a[0])
        y = a[1] + t * (b[1] - a[1])
        off = rnd.choice([0, 0, 1, 1, 2, 3, 7, 15, 60])
        x = int(round(x)) + rnd.choice([-1, 0, 1]) * off
        y = int(round(y)) + rnd.choice([-1, 0, 1]) * off
        if odd and x % 2 == 0:
            x += 1
        obs.append((x, y))
        if rnd.random() < 0.25 and len(obs) < n:
            # a slow drift: the following fixes move one lattice step at a time, straight away from (or along) the network
            dx, dy = rnd.choice([(0, 1), (0, -1), (2, 0), (-2, 0)])
            for _k in range(rnd.randrange(1, 5)):
                if len(obs) < n:
                    obs.append((obs[-1][0] + dx, obs[-1][1] + dy))
    return obs[:n]


def has_vertical_hit(edges, obs):
    for g in edges:
        for k in range(len(g) - 1):
            if g[k][0] == g[k + 1][0] and g[k] != g[k + 1] and any(o[0] == g[k][0] for o in obs):
                return True
    return False


RES = [(2, 2), (4, 2), (3, 5), (1, 1), (8, 8), None]
RADII = [0.5, 1, 2.5, 5, 10, 20]


def job_random(args):
    seed, count = args
    rnd = random.Random(seed)
    del _PQ[:]
    out = []
    for _ in range(count):
        style = rnd.random()
        edges = gen_network(rnd, rnd.randrange(1, 7), vertical=style < 0.6)
        obs = gen_track(rnd, edges, rnd.randrange(1, 8), odd=style < 0.45)
        res = rnd.choice(RES)
        margin = rnd.choice([0.05, 0.15, 0.5])
        out.append(run_case(edges, res, margin, obs, rnd.choice(RADII), rnd.choice([1, 50]), scale=rnd.choice([1, 1, 1, 1 / 32.0, 1 / 32.0, 0.1])))
    return out + [{"ev": "pq", "hist": h} for h in _PQ[:40]]


def grid_edges(nx, ny, step):
    """edges of an nx x ny lattice grid with the given spacing"""
    es = []
    for i in range(nx):
        for j in range(ny):
            if i + 1 < nx:
                es.append([(2 + i * step, 2 + j * step), (2 + (i + 1) * step, 2 + j * step)])
            if j + 1 < ny:
                es.append([(2 + i * step, 2 + j * step), (2 + i * step, 2 + (j + 1) * step)])
    return es


def job_grid(args):
    seed, nx, ny, step, masks = args
    rnd = random.Random(seed)
    all_e = grid_edges(nx, ny, step)
    out = []
    for mask in masks:
        edges = [e for k, e in enumerate(all_e) if mask >> k & 1]
        xs = [p[0] for g in edges for p in g]
        ys = [p[1] for g in edges for p in g]
        if max(xs) == min(xs) or max(ys) == min(ys):
            continue
        for odd in (True, False):
            obs = gen_track(rnd, edges, 4, odd)
            out.append(run_case(edges, rnd.choice(RES[:5]), rnd.choice([0.05, 0.5]), obs, rnd.choice(RADII), rnd.choice([1, 50])))
    return out


def mc_cfg(lat):
    return ("SPECIFICATION Spec\nCONSTANTS\n  LatMax = %d\n  QPad = 1\n  Mode = \"mc\"\n  R2x4 = {1, 4, 25, 100}\n"
            "INVARIANT CandidatesAccepted\nCHECK_DEADLOCK FALSE\n" % lat)


def run(ctx):
    quick = ctx.tier == "quick"
    ctx.rule = ("TLC: every candidate state of the transcribed construction accepted on all 3-vertex integer-leg geometries of "
                "a lattice x query x radius. Binding: every non-degenerate edge subset of the 2x2 and 2x3 lattice grids (two "
                "tracks each) + random connected networks of 1-6 edges (1-3 legs each: horizontal, vertical, 3-4-5 / 6-8-10 "
                "oblique) x index resolutions (square, non-square, default) x margins x radii 0.5-20 x noise 1/50 x tracks of "
                "1-7 observations on / near / far / outside; one record per mapOnNetwork call judged by MapMatchTrace. "
                "Non-trivial = distinct calls with at least one matched and (where possible) one interior projection.")
    ctx.assumptions += ["edge geometries carry abs_curv (computeAbsCurv) and legs of integer length; network prepared and indexed",
                        "integer observation coordinates; resolution smaller than the network extent; both extents > 0",
                        "a ZeroDivisionError on a call where the pinned vertical projection branch can divide by zero is the recorded known finding"]
    c = ctx.write_cfg("MM.cfg", mc_cfg(3 if quick else 4))
    ctx.tlc_mc("MapMatch", c, label="MapMatch design check: candidates accepted")
    import multiprocessing as mp
    jobs = []
    m4 = list(range(1, 16))
    m7 = list(range(1, 128))
    jobs.append((job_grid, (ctx.seed, 2, 2, 4, m4)))
    for k in range(0, len(m7), 16):
        jobs.append((job_grid, (ctx.seed + k, 2, 3, 6 if k % 32 else 4, m7[k:k + 16])))
    per = 60 if quick else 2500
    for k in range(32):
        jobs.append((job_random, (ctx.seed * 17 + k, per)))
    events = []
    with mp.get_context("fork").Pool(16, initializer=core._pool_init, initargs=(None,)) as pool:
        res = [pool.apply_async(f, (a,)) for f, a in jobs]
        for r in res:
            events.extend(r.get())
    pq = [e["hist"] for e in events if e["ev"] == "pq"]
    events = [e for e in events if e["ev"] != "pq"]
    for k, h in enumerate(pq):
        h["id"] = k
    rejq = ctx.tlc_trace("PrioDictTrace", pq, chunks=8, label="priority queues inside Network.prepare")
    for i, clause in sorted(rejq.items()):
        ctx.growth("prepare/priority_dict/%s" % clause, "priority queue history recorded inside Network.prepare(): %s" % clause, pq[i])
    ctx.extra["priority_queue_histories_inside_prepare"] = len(pq)
    for k, e in enumerate(events):
        e["id"] = k
    rej = ctx.tlc_trace("MapMatchTrace", events, chunks=16, label="map-matching trace")
    byid = {e["id"]: e for e in events}
    for i, clause in sorted(rej.items()):
        e = byid[i]
        what = "mapOnNetwork(%s) edges %s obs %s -> %s: %s" % (e["cfg"], e["edges"], e["obs"],
                                                             ("raised " + e.get("exc", "")) if e["raised"] else e["states"], clause)
        if clause.startswith("growth_"):
            ctx.growth("mapOnNetwork/" + clause, what, e)
        elif clause == "legacy_vertical":
            ctx.violation("mapOnNetwork/segment with x1 = x2", what, e)
        else:
            ctx.violation("mapOnNetwork/%s%s" % (clause, "/vertical-hit" if has_vertical_hit(e["edges"], e["obs"]) else ""), what, e)
    nm = 0
    for e in events:
        if not e["raised"] and e["id"] not in rej:
            matched = [s for s in e["states"] if s["e"] >= 0]
            nm += len(matched)
            if matched and any(s["p"][2] > 1 or [s["p"][0], s["p"][1]] not in e["edges"][s["e"]] for s in matched):
                ctx.nontriv(repr((e["edges"], e["obs"], e["cfg"])))
    ctx.evaluations += len(events)
    ctx.extra["observations_matched"] = nm
    ctx.extra["observations_total"] = sum(len(e["obs"]) for e in events)
    ctx.extra["calls_raised"] = sum(1 for e in events if e["raised"])
    for e in events:
        if not e["raised"] and len(e["edges"]) >= 3 and sum(1 for s in e["states"] if s["e"] >= 0) >= 2:
            ctx.sample({k: e[k] for k in ("cfg", "edges", "obs", "states")}, limit=2)
