"""Shared by C06 and C07: building real Networks from model graphs and recording events."""
import random

import core


def vcoord(v):
    from tracklib.core.obs_coords import ENUCoords
    return ENUCoords(float(v), float((v * 7) % 13), 0.0)


def vid(pos):
    return int(round(pos.getX()))


def build_network(n, g):
    """g: list of [s, t, w, o]; edge j (1-based) has interior vertices 100+j, 200+j from stored source to target."""
    from tracklib.core.network import Network, Node, Edge
    from tracklib.core.track import Track
    from tracklib.core.obs import Obs
    net = Network()
    for k in range(n):
        net.addNode(Node(k, vcoord(k)))
    for j, (s, t, w, o) in enumerate(g, start=1):
        geom = Track([Obs(vcoord(s)), Obs(vcoord(100 + j)), Obs(vcoord(200 + j)), Obs(vcoord(t))])
        e = Edge(j, geom)
        e.orientation = o
        e.weight = w
        net.addEdge(e, Node(s, vcoord(s)), Node(t, vcoord(t)))
    return net


def wire(d):
    """implementation distance -> integer on the wire (-1 sentinel kept; non-integers flagged by None)"""
    if d is None:
        return None
    if d >= 1e299:
        return -1
    if abs(d - round(d)) > 1e-9:
        return None
    return int(round(d))


def dist_events(n, g, id0, cuts, with_lists=True):
    """all ordered pairs (pair query), list form, all-pairs tables for each cut, prepared distances"""
    ev = []
    net = build_network(n, g)
    for s in range(n):
        for t in range(n):
            with core.quiet():
                d = net.shortest_distance(s, t)
            ev.append({"id": id0 + len(ev), "ev": "dist", "n": n, "g": g, "s": s, "t": t, "d": wire(d), "api": "pair"})
        if with_lists:
            with core.quiet():
                ds = net.shortest_distance(s)
            ev.append({"id": id0 + len(ev), "ev": "list", "n": n, "g": g, "s": s, "ds": [wire(x) for x in ds]})
    for cut in cuts:
        net2 = build_network(n, g)
        with core.quiet():
            tab = net2.all_shortest_distances(cut=(1e300 if cut >= 999999 else cut))
        ev.append({"id": id0 + len(ev), "ev": "table", "n": n, "g": g, "cut": cut,
                   "pairs": [[k[0], k[1], wire(v)] for k, v in tab.items()]})
    net3 = build_network(n, g)
    with core.quiet():
        net3.prepare(verbose=False)
    for s in range(n):
        for t in range(n):
            d = net3.prepared_shortest_distance(s, t)
            ev.append({"id": id0 + len(ev), "ev": "dist", "n": n, "g": g, "s": s, "t": t, "d": wire(d), "api": "prepared"})
    return ev


def path_events(n, g, id0):
    ev = []
    net = build_network(n, g)
    for s in range(n):
        for t in range(n):
            if s == t:
                continue
            e = {"id": id0 + len(ev), "ev": "path", "n": n, "g": g, "s": s, "t": t, "has": False, "path": [], "geom": []}
            try:
                with core.quiet():
                    p = net.shortest_path(s, t)
                if p is not None:
                    e["has"] = True
                    e["path"] = [int(x) for x in p.path]
                    e["geom"] = [vid(o.position) for o in p.getObsList()]
            except Exception as ex:
                e["exc"] = repr(ex)[:200]
            ev.append(e)
    return ev


def random_graph(rnd, nmax=12, emax=40):
    n = rnd.randrange(2, nmax + 1)
    m = rnd.randrange(0, min(emax, 3 * n) + 1)
    g = []
    for _ in range(m):
        s = rnd.randrange(n)
        t = rnd.randrange(n) if rnd.random() < 0.9 else s
        if rnd.random() < 0.5:
            # keep part of the graph unreachable / chain-like
            t = min(n - 1, s + rnd.randrange(0, 3))
        w = rnd.choice([0, 0, 1, 1, 2, 3, 5, 8])
        o = rnd.choice([-1, 0, 1])
        g.append([s, t, w, o])
    return n, g


def sig_graph(e):
    g = e["g"]
    feats = []
    if any(x[2] == 0 for x in g):
        feats.append("zero-weight")
    if any(x[3] == -1 for x in g):
        feats.append("reverse-edge")
    if any(x[0] == x[1] for x in g):
        feats.append("self-loop")
    return ",".join(feats) or "plain"
