"""Shared by C06 and C07: building real Networks from model graphs and recording events."""
import random

import core


def vcoord(v):
    from tracklib.core.obs_coords import ENUCoords
    return ENUCoords(float(v), float((v * 7) % 13), 0.0)


def vid(pos):
    return int(round(pos.getX()))


def eid0(n, g):
    """edge ids are consecutive integers starting at 0 for half of the graphs (0 is an ordinary id - the network reader
    numbers edges from 0 -) and at 1 for the others"""
    return (n + len(g) + sum(x[2] for x in g)) % 2


def arg(net, v, form):
    """a node argument as its id (form 0) or as the Node object of the network (form 1): both are documented"""
    return net.getNode(v) if form else v


def is_dup(n, j):
    return (n + j) % 3 == 0


def build_network(n, g, dup=False, unit=1):
    """g: list of [s, t, w, o]; edge j (1-based) has interior vertices 100+j, 200+j from stored source to target.
    dup: every third edge records its first interior vertex TWICE (a zero-length piece, as digitised networks have)."""
    from tracklib.core.network import Network, Node, Edge
    from tracklib.core.track import Track
    from tracklib.core.obs import Obs
    net = Network()
    for k in range(n):
        net.addNode(Node(k, vcoord(k)))
    for j, (s, t, w, o) in enumerate(g, start=1):
        geom = Track([Obs(vcoord(s)), Obs(vcoord(100 + j))] + ([Obs(vcoord(100 + j))] if dup and is_dup(n, j) else []) + [Obs(vcoord(200 + j)), Obs(vcoord(t))])
        e = Edge(j - 1 + eid0(n, g), geom)
        e.orientation = o
        e.weight = w * unit          # unit: the weights in another unit (a power of two: exact)
        net.addEdge(e, Node(s, vcoord(s)), Node(t, vcoord(t)))
    return net


def wire(d):
    """implementation distance -> integer on the wire (-1 sentinel kept; non-integers flagged by None)"""
    if d is None:
        return None
    if d >= 1e299:
        return -1
    if abs(d - round(d)) > 1e-9:
        return None
    return int(round(d))


def dist_events(n, g, id0, cuts, with_lists=True):
    """all ordered pairs (pair query), list form, all-pairs tables for each cut, prepared distances"""
    ev = []
    # the distances do not depend on the unit of the weights: a third of the graphs carry them in units of 2^-40 (exact; two routes
    # then differ by far less than 1e-9 and still differ), the answers are scaled back
    unit = 2.0 ** -40 if (n + 2 * len(g)) % 3 == 0 else 1
    wire_ = wire
    if unit != 1:
        wire_ = lambda d: wire(d if (d is None or d >= 1e299 or d < 0) else d / unit)          # (the sentinels -1 and 1e300 are not lengths)
    net = build_network(n, g, unit=unit)
    # all queries go to ONE network object, so every query but the first has a history; the order of the pairs varies with the
    # graph: source-major, target-major (every query follows one from another source, the self query (s, s) included), or
    # each self query first
    pairs = [(s, t) for s in range(n) for t in range(n)]
    k = (n + len(g) + sum(x[2] for x in g)) % 3
    if k == 1:
        pairs.sort(key=lambda p: (p[1], p[0]))
    elif k == 2:
        pairs.sort(key=lambda p: ((p[0] + p[1]) % n, p[1]))
    for s, t in pairs:
        f = (s + 2 * t + len(g)) % 4            # id/id, Node/id, id/Node, Node/Node
        with core.quiet():
            d = net.shortest_distance(arg(net, s, f & 1), arg(net, t, f >> 1))
        ev.append({"id": id0 + len(ev), "ev": "dist", "n": n, "g": g, "s": s, "t": t, "d": wire_(d), "api": "pair"})
    for s in range(n):
        if with_lists:
            with core.quiet():
                ds = net.shortest_distance(s)
            ev.append({"id": id0 + len(ev), "ev": "list", "n": n, "g": g, "s": s, "ds": [wire_(x) for x in ds]})
    for cut in cuts:
        net2 = build_network(n, g, unit=unit)
        with core.quiet():
            tab = net2.all_shortest_distances(cut=(1e300 if cut >= 999999 else cut * unit))
        ev.append({"id": id0 + len(ev), "ev": "table", "n": n, "g": g, "cut": cut,
                   "pairs": [[k[0], k[1], wire_(v)] for k, v in tab.items()]})
        if cut < 999999:                    # the same table through prepare(cut) and the prepared-distance getters
            net4 = build_network(n, g, unit=unit)
            with core.quiet():
                net4.prepare(cut=cut * unit, verbose=False)
                pairs = [[s, t, wire_(net4.prepared_shortest_distance(arg(net4, s, (s + t) & 1), arg(net4, t, (s + 2 * t + 1) >> 1 & 1)))]
                         for s in range(n) for t in range(n)
                         if net4.has_prepared_shortest_distance(arg(net4, s, (s + t + 1) & 1), arg(net4, t, (s + 2 * t) >> 1 & 1))]
            ev.append({"id": id0 + len(ev), "ev": "table", "n": n, "g": g, "cut": cut, "pairs": pairs, "api": "prepare"})
    if g and (n + len(g)) % 2 == 0:
        # history: the network was PREPARED when it still lacked its last edge and its first edge was 3 heavier; both were edited
        # afterwards (addEdge, edge.weight) - the pair query answers for the network as it stands
        from tracklib.core.network import Node, Edge
        from tracklib.core.track import Track
        from tracklib.core.obs import Obs
        g0 = [list(x) for x in g[:-1]]
        if g0:
            g0[0][2] += 3
        net5 = build_network(n, g0, unit=unit)
        with core.quiet():
            net5.prepare(verbose=False)
            if g0:
                net5.getEdge(eid0(n, g0)).weight = g[0][2] * unit
            s_, t_, w_, o_ = g[-1]
            j = len(g)
            ed = Edge(j - 1 + eid0(n, g0), Track([Obs(vcoord(s_)), Obs(vcoord(100 + j)), Obs(vcoord(200 + j)), Obs(vcoord(t_))]))
            ed.orientation = o_
            ed.weight = w_ * unit
            net5.addEdge(ed, Node(s_, vcoord(s_)), Node(t_, vcoord(t_)))
            for s in range(n):
                for t in range(n):
                    if (s + t + len(g)) % 2:
                        continue
                    d = net5.shortest_distance(s, t)
                    ev.append({"id": id0 + len(ev), "ev": "dist", "n": n, "g": g, "s": s, "t": t, "d": wire_(d), "api": "pair, network edited after prepare()"})
    net3 = build_network(n, g, unit=unit)
    with core.quiet():
        net3.prepare(verbose=False)
    for s in range(n):
        for t in range(n):
            f = (2 * s + t + len(g)) % 4
            d = net3.prepared_shortest_distance(arg(net3, s, f & 1), arg(net3, t, f >> 1))
            ev.append({"id": id0 + len(ev), "ev": "dist", "n": n, "g": g, "s": s, "t": t, "d": wire_(d), "api": "prepared"})
    return ev


def path_events(n, g, id0):
    ev = []
    net = build_network(n, g)
    if (n + len(g)) % 3 == 0:
        # history: the network was prepared with a FINITE cut-off (most pairs are then missing from the prepared table):
        # shortest_path is not a prepared query and answers as before
        with core.quiet():
            net.prepare(cut=1, verbose=False)
    for s in range(n):
        for t in range(n):
            if s == t:
                continue
            e = {"id": id0 + len(ev), "ev": "path", "n": n, "g": g, "s": s, "t": t, "has": False, "path": [], "geom": []}
            try:
                with core.quiet():
                    f = (s + 3 * t + len(g)) % 4
                    if (s + t) % 2:          # history: another routing query, from another source, on the same network object
                        net.shortest_distance((s + 1) % n) if t % 3 else net.shortest_distance((t + 1) % n, s)
                    p = net.shortest_path(arg(net, s, f & 1), arg(net, t, f >> 1))
                if p is not None:
                    e["has"] = True
                    e["path"] = [int(x) for x in p.path]
                    e["geom"] = [vid(o.position) for o in p.getObsList()]
            except Exception as ex:
                e["exc"] = repr(ex)[:200]
            ev.append(e)
    return ev


def path_events_dup(n, g, id0):
    """edges with a repeated interior vertex: the returned geometry must repeat it too.  Abstraction: for such an edge the pair
    (100+j, 100+j) stands for the model's vertex 100+j; a single 100+j is mapped to a label no edge has (700+j)"""
    ev = []
    net = build_network(n, g, dup=True)
    for s in range(n):
        for t in range(n):
            if s == t or (s + t + len(g)) % 2 == 0:
                continue
            e = {"id": id0 + len(ev), "ev": "path", "n": n, "g": g, "s": s, "t": t, "has": False, "path": [], "geom": [], "hist": "repeated vertices"}
            try:
                with core.quiet():
                    p = net.shortest_path(s, t)
                if p is not None:
                    e["has"] = True
                    e["path"] = [int(x) for x in p.path]
                    raw = [vid(o.position) for o in p.getObsList()]
                    out, k = [], 0
                    while k < len(raw):
                        v = raw[k]
                        if 100 <= v < 200 and is_dup(n, v - 100):
                            if k + 1 < len(raw) and raw[k + 1] == v:
                                out.append(v); k += 2
                            else:
                                out.append(v + 600); k += 1
                        else:
                            out.append(v); k += 1
                    e["geom"] = out
            except Exception as ex:
                e["exc"] = repr(ex)[:200]
            ev.append(e)
    return ev


def path_events_edited(n, g, id0):
    """history: every pair is routed once, THEN every edge geometry is replaced (interior vertices 300+j, 400+j instead of
    100+j, 200+j - an edited or simplified network is an ordinary network), then pairs are routed again on the same object.
    The abstraction maps the CURRENT interior vertices to the model's labels and the former ones to labels no edge has."""
    from tracklib.core.track import Track
    from tracklib.core.obs import Obs
    ev = []
    net = build_network(n, g)
    with core.quiet():
        for s in range(n):
            for t in range(n):
                if s != t and (s + t + len(g)) % 2:
                    try:
                        net.shortest_path(s, t)
                    except Exception:
                        pass
        for j, (s, t, w, o) in enumerate(g, start=1):
            net.getEdge(j - 1 + eid0(n, g)).geom = Track([Obs(vcoord(s)), Obs(vcoord(300 + j)), Obs(vcoord(400 + j)), Obs(vcoord(t))])

    def relabel(v):
        return v - 200 if 300 <= v < 500 else (v + 400 if 100 <= v < 300 else v)
    for s in range(n):
        for t in range(n):
            if s == t or (s + 2 * t + len(g)) % 3:
                continue
            e = {"id": id0 + len(ev), "ev": "path", "n": n, "g": g, "s": s, "t": t, "has": False, "path": [], "geom": [], "hist": "edited"}
            try:
                with core.quiet():
                    p = net.shortest_path(s, t)
                if p is not None:
                    e["has"] = True
                    e["path"] = [int(x) for x in p.path]
                    e["geom"] = [relabel(vid(o.position)) for o in p.getObsList()]
            except Exception as ex:
                e["exc"] = repr(ex)[:200]
            ev.append(e)
    return ev


def random_graph(rnd, nmax=12, emax=40):
    n = rnd.randrange(2, nmax + 1)
    m = rnd.randrange(0, min(emax, 3 * n) + 1)
    g = []
    for _ in range(m):
        s = rnd.randrange(n)
        t = rnd.randrange(n) if rnd.random() < 0.9 else s
        if rnd.random() < 0.5:
            # keep part of the graph unreachable / chain-like
            t = min(n - 1, s + rnd.randrange(0, 3))
        w = rnd.choice([0, 0, 1, 1, 2, 3, 5, 8])
        o = rnd.choice([-1, 0, 1])
        g.append([s, t, w, o])
    return n, g


def sig_graph(e):
    g = e["g"]
    feats = []
    if any(x[2] == 0 for x in g):
        feats.append("zero-weight")
    if any(x[3] == -1 for x in g):
        feats.append("reverse-edge")
    if any(x[0] == x[1] for x in g):
        feats.append("self-loop")
    return ",".join(feats) or "plain"


def subnet_events(n, g, id0, rnd):
    """Network.sub_network(source, cut, 'TOPOLOGIC'): ids (1-based positions in g) of the edges kept"""
    ev = []
    for _ in range(2):
        s = rnd.randrange(n)
        cut = rnd.choice([0, 1, 2, 3, 5, 8, 999999])
        e = {"id": id0 + len(ev), "ev": "subnet", "n": n, "g": g, "s": s, "cut": cut, "ids": []}
        try:
            with core.quiet():
                net = build_network(n, g)
                sub = net.sub_network(s, (1e300 if cut >= 999999 else cut), "TOPOLOGIC", verbose=False)
            e["ids"] = [int(x) + 1 - eid0(n, g) for x in sub.getEdgesId()]
        except (Exception, SystemExit) as ex:
            e["exc"] = repr(ex)[:200]
        ev.append(e)
    return ev


def btw_events(rnd, id0):
    """Network.distanceBtwPts on a prepared network whose edge weights are the lengths of straight geometries"""
    from tracklib.core.network import Network, Node, Edge
    from tracklib.core.track import Track
    from tracklib.core.obs import Obs
    from tracklib.core.obs_coords import ENUCoords
    from tracklib.core.obs_time import ObsTime
    n = rnd.randrange(2, 7)
    pos = rnd.sample(range(0, 20), n)
    m = rnd.randrange(1, 9)
    g = []
    for _ in range(m):
        s, t = rnd.sample(range(n), 2)
        g.append([s, t, abs(pos[s] - pos[t]), rnd.choice([-1, 0, 0, 1])])
    ev = []
    with core.quiet():
        net = Network()
        for k in range(n):
            net.addNode(Node(k, ENUCoords(float(pos[k]), 0.0, 0.0)))
        for j, (s, t, w, o) in enumerate(g, start=1):
            geom = Track([Obs(ENUCoords(float(pos[s]), 0.0, 0.0), ObsTime()), Obs(ENUCoords(float(pos[t]), 0.0, 0.0), ObsTime())])
            e = Edge(j, geom)
            e.orientation = o
            e.weight = float(w)
            net.addEdge(e, Node(s, ENUCoords(float(pos[s]), 0.0, 0.0)), Node(t, ENUCoords(float(pos[t]), 0.0, 0.0)))
        net.prepare(verbose=False)
    for _ in range(6):
        i, j = rnd.randrange(m), rnd.randrange(m)
        a1, a2 = rnd.randrange(g[i][2] + 1), rnd.randrange(g[j][2] + 1)
        e = {"id": id0 + len(ev), "ev": "btw", "n": n, "g": g, "e1": i + 1, "a1": a1, "e2": j + 1, "a2": a2, "d": None}
        try:
            with core.quiet():
                e["d"] = wire(net.distanceBtwPts(i, float(a1), j, float(a2)))
        except (Exception, SystemExit) as ex:
            e["exc"] = repr(ex)[:200]
        ev.append(e)
    return ev
