"""C14 - Frames.tla bound to GeoCoords / ECEFCoords / ENUCoords conversions, Lambert-93 and Track.to*Coords
(spec -> code replay with a reference abstraction function).

TLC checks on the model of frames that every legal conversion history preserves what the coordinates denote, that the
recorded base is the real one and that only projections change it (the variant in which ENU -> ENU re-basing forgets
to record the base is refuted).  Run as a generator the model prints every history with the frame / base it assigns
after each step; the driver replays it on real Tracks and on single coordinate objects over a lattice of positions and
bases (antimeridian, equator, near the poles, heights -1 km .. 10 km) and, after each step, maps every concrete triple
back to geographic coordinates with an independent WGS84 implementation (iterative inverse) and compares with the
original position to 1e-9 degree / 1 mm, checks Track.base, the base's own local coordinates (0,0,0) and the
Earth-centred coordinates against the closed-form forward formulas."""
import itertools
import math
import random

import core

A = 6378137.0
F = 1.0 / 298.257223563
E2 = F * (2.0 - F)


def ref_geo2ecef(lon, lat, h):
    lo, la = math.radians(lon), math.radians(lat)
    n = A / math.sqrt(1.0 - E2 * math.sin(la) ** 2)
    return ((n + h) * math.cos(la) * math.cos(lo), (n + h) * math.cos(la) * math.sin(lo), ((1.0 - E2) * n + h) * math.sin(la))


def ref_ecef2geo(x, y, z):
    lon = math.atan2(y, x)
    p = math.hypot(x, y)
    lat = math.atan2(z, p * (1.0 - E2))
    h = 0.0
    for _ in range(12):
        n = A / math.sqrt(1.0 - E2 * math.sin(lat) ** 2)
        h = p / math.cos(lat) - n
        lat = math.atan2(z, p * (1.0 - E2 * n / (n + h)))
    return math.degrees(lon), math.degrees(lat), h


def ref_enu2ecef(e, n, u, base):
    bx, by, bz = ref_geo2ecef(*base)
    lo, la = math.radians(base[0]), math.radians(base[1])
    sl, cl, sp, cp = math.sin(lo), math.cos(lo), math.sin(la), math.cos(la)
    return (-e * sl - n * cl * sp + u * cl * cp + bx, e * cl - n * sl * sp + u * sl * cp + by, n * cp + u * sp + bz)


def lon_diff(a, b):
    d = abs(a - b) % 360.0
    return min(d, 360.0 - d)


def same_horizontal(lon, lat, wlon, wlat, tol=1e-9):
    """same position to 1e-9 degree OF ARC: latitude difference and longitude difference scaled by cos(latitude)
    (a longitude difference is an arc of that many degrees only at the equator; at 89.9 degrees it is 573 times shorter)"""
    return abs(lat - wlat) <= tol and lon_diff(lon, wlon) * math.cos(math.radians(wlat)) <= tol


WORLD_LON = [-180.0, -179.999999, -90.0, 0.0, 2.0, 90.0, 179.999999]
WORLD_LAT = [-89.9, -45.0, 0.0, 1e-9, 48.0, 89.9]
WORLD_H = [-1000.0, 0.0, 10000.0]
FR_LON = [-4.5, 2.0, 3.0, 8.2]
FR_LAT = [42.5, 46.5, 48.85, 50.9]
FR_H = [0.0, 1500.0]


def triple(o):
    return (o.getX(), o.getY(), o.getZ())


def to_geo(tr3, real, bases):
    """abstraction function: concrete triple in the frame the specification assigns -> (lon, lat, h)"""
    if real[0] == "Geo":
        return tr3
    if real[0] == "ECEF":
        return ref_ecef2geo(*tr3)
    if real[0] == "ENU":
        return ref_ecef2geo(*ref_enu2ecef(tr3[0], tr3[1], tr3[2], bases[real[1]]))
    return None


def check_pos(got, want, where, viol, case, local=False):
    """round-trip states (geographic, Earth-centred): 1e-9 degree of arc / 1 mm.  Intermediate LOCAL frames are only
    judged to 1e-7 degree / 1 cm: their orientation depends on the base's longitude as the library recovers it, which is
    ill-conditioned for bases near the poles; the property constrains the return to the original frame, not the
    intermediate local coordinates."""
    lon, lat, h = got
    tol_a, tol_h = (1e-7, 1e-2) if local else (1e-9, 1e-3)
    if any(math.isnan(v) for v in got):
        viol.append(("position/nan", "%s: %r" % (where, got), case)); return
    if not same_horizontal(lon, lat, want[0], want[1], tol_a):
        viol.append(("position/horizontal", "%s: denotes lon/lat %.12f %.12f, original %.12f %.12f" % (where, lon, lat, want[0], want[1]), case))
    if abs(h - want[2]) > tol_h:
        viol.append(("position/height", "%s: denotes height %.6f, original %.6f" % (where, h, want[2]), case))


def geo(p):
    """GeoCoords(lon, lat, hgt) as the caller writes it: a whole height is handed over as a Python int for half of the positions"""
    from tracklib.core.obs_coords import GeoCoords
    if p[2] == int(p[2]) and int(abs(p[0]) * 1000 + abs(p[1]) * 100) % 2 == 0:
        return GeoCoords(p[0], p[1], int(p[2]))
    return GeoCoords(*p)


def used_geo(p, other):
    """a position OBJECT with a past: it stood somewhere else, was converted there, and was then moved by assigning its public
    attributes lon / lat / hgt (what ECEFCoords.toGeoCoords itself does): it denotes the position it holds now"""
    from tracklib.core.obs_coords import GeoCoords
    g = GeoCoords(*other)
    with core.quiet():
        g.toECEFCoords()
        g.toENUCoords(GeoCoords(other[0] + 0.01, other[1] - 0.01, 10.0))
    g.lon, g.lat, g.hgt = p
    return g


def replay(cases):
    from tracklib.core.track import Track
    from tracklib.core.obs import Obs
    from tracklib.core.obs_coords import GeoCoords, ECEFCoords, ENUCoords
    from tracklib.core.obs_time import ObsTime
    viol, nontriv, samples = [], set(), []
    for ci, c in enumerate(cases):
        hist = c["hist"]
        label = " ; ".join("%s(%s%s)" % (s["a"], s["arg"], "" if s["kind"] == "none" else ":" + s["kind"]) for s in hist)
        fr = any(s["a"] == "toProj" for s in hist)
        rnd = random.Random(hash(label) & 0xFFFFFF)
        combos = []
        for _ in range(c.get("k", 4)):
            L = (FR_LON, FR_LAT, FR_H) if fr or rnd.random() < 0.2 else (WORLD_LON, WORLD_LAT, WORLD_H)
            pick = lambda: (rnd.choice(L[0]), rnd.choice(L[1]), rnd.choice(L[2]))
            combos.append((pick(), pick(), pick(), pick()))
        for (p1, p2, b1, b2) in combos:
            pts = [p1, p2, b1]
            bases = {"B1": b1, "B2": b2, "first": p1}
            case = {"hist": label, "points": pts, "bases": {"B1": b1, "B2": b2}}
            # results are VALUES of their own: a base converted onto itself gives (0, 0, 0); that result is then edited in place by its
            # owner (translate) - a later conversion of a base onto itself is still (0, 0, 0)
            try:
                with core.quiet():
                    o1 = GeoCoords(*b2).toENUCoords(GeoCoords(*b2))
                    o1.translate(100.0, 50.0)
                    o2 = GeoCoords(*b1).toENUCoords(GeoCoords(*b1))
                if max(abs(o2.getX()), abs(o2.getY()), abs(o2.getZ())) > 1e-3:
                    viol.append(("enu/base-not-origin", "base %r converted onto itself after an earlier such result was translated in place: %r" % (b1, triple(o2)), case))
            except (Exception, SystemExit) as ex:
                viol.append(("point/raised", "base onto itself raised %r" % (ex,), case))
            # the caller's base objects: created once, handed to every conversion that names them, never to be modified
            objs = {nm: {"geo": GeoCoords(*bv), "ecef": ECEFCoords(*ref_geo2ecef(*bv))} for nm, bv in bases.items()}
            frozen = {nm: {kd: triple(o) for kd, o in d.items()} for nm, d in objs.items()}
            # ---------------- whole-track replay
            try:
                with core.quiet():
                    past = (len(label) + int(abs(p1[0]) + abs(p2[1]))) % 2 == 0
                    tr = Track([Obs(used_geo(p, b2) if past else geo(p), ObsTime()) for p in pts])
                for si, s in enumerate(hist):
                    where = "track history [%s] step %d" % (label, si + 1)
                    with core.quiet():
                        barg = None if s["kind"] == "none" else objs[s["arg"]][s["kind"]]
                        # aliasing family: every other explicit base is handed over as a private copy which the caller
                        # EDITS right after the call (re-using the object for another site): the track must have kept a
                        # snapshot of the base it used, not a reference to the caller's object
                        edited = barg is not None and (si + len(hist) + len(label)) % 2 == 0
                        if edited:
                            barg = barg.copy()
                        elif barg is not None and s["a"] not in ("toECEF", "toGeo", "toProj") and s["arg"] != "first" \
                                and tr.base is not None and not isinstance(tr.base, int) and si > 0 and hist[si - 1].get("base") == s["arg"]:
                            # state family: the caller hands the track ITS OWN recorded base object back (same frame as before)
                            barg = tr.base
                        if s["a"] == "toECEF":
                            tr.toECEFCoords() if barg is None else tr.toECEFCoords(barg)
                        elif s["a"] == "toGeo":
                            tr.toGeoCoords() if barg is None else tr.toGeoCoords(barg)
                        elif s["a"] == "toProj":
                            tr.toProjCoords(2154)
                        elif s["arg"] == "first":
                            tr.toENUCoords()
                        else:
                            tr.toENUCoords(barg)
                        if edited:
                            barg.setX(barg.getX() + 3.0)
                            barg.setY(barg.getY() - 2.0)
                            barg.setZ(barg.getZ() + 500.0)
                    if tr.getSRID() != s["srid"]:
                        viol.append(("track/srid", "%s: track is %s, specification %s" % (where, tr.getSRID(), s["srid"]), case)); break
                    if s["base"] == "none":
                        if tr.base is not None:
                            viol.append(("track/base", "%s: base %s although none was recorded" % (where, tr.base), case))
                    elif s["base"] == "2154":
                        if tr.base != 2154:
                            viol.append(("track/base", "%s: base %r, specification SRID 2154" % (where, tr.base), case))
                    else:
                        wb = bases[s["base"]]
                        if tr.base is None or isinstance(tr.base, int) or not same_horizontal(tr.base.getX(), tr.base.getY(), wb[0], wb[1]) \
                                or abs(tr.base.getZ() - wb[2]) > 1e-3:
                            viol.append(("track/base", "%s: recorded base %s, specification %s" % (where, tr.base, wb), case))
                    for k in range(3):
                        t3 = triple(tr.getObs(k).position)
                        if s["real"][0] == "L93":
                            if abs(t3[2] - pts[k][2]) > 1e-3:
                                viol.append(("position/height", "%s: Lambert-93 height %r, original %r" % (where, t3[2], pts[k][2]), case))
                            continue
                        check_pos(to_geo(t3, s["real"], bases), pts[k], where + " obs %d" % k, viol, case, local=s["real"][0] == "ENU")
                        if s["real"][0] == "ECEF":
                            w = ref_geo2ecef(*pts[k])
                            if max(abs(t3[j] - w[j]) for j in range(3)) > 1e-3:
                                viol.append(("ecef/closed-form", "%s obs %d: ECEF %r, WGS84 closed form %r" % (where, k, t3, w), case))
                        if s["real"][0] == "ENU" and pts[k] == bases[s["real"][1]]:
                            if max(abs(v) for v in t3) > 1e-3:
                                viol.append(("enu/base-not-origin", "%s: local coordinates of the base itself %r" % (where, t3), case))
            except (Exception, SystemExit) as ex:
                viol.append(("track/raised", "track history [%s] raised %r" % (label, ex), case))
            # ---------------- single coordinate objects, explicit bases
            try:
                pos = used_geo(p2, p1) if (len(label) + int(abs(p2[0]) + abs(b1[1]))) % 2 == 0 else geo(p2)
                cur = ("Geo",)
                for si, s in enumerate(hist):
                    where = "point history [%s] step %d" % (label, si + 1)
                    with core.quiet():
                        kd = "geo" if s["kind"] == "none" else s["kind"]
                        if s["a"] == "toECEF":
                            pos = pos.toECEFCoords() if cur[0] == "Geo" else pos.toECEFCoords(objs[cur[1]][kd])
                        elif s["a"] == "toGeo":
                            if cur[0] == "ECEF":
                                pos = pos.toGeoCoords()
                            elif cur[0] == "L93":
                                pos = pos.toGeoCoords(2154)
                            else:
                                pos = pos.toGeoCoords(objs[cur[1]][kd])
                        elif s["a"] == "toProj":
                            pos = pos.toProjCoords(2154)
                        else:
                            nb = objs[s["arg"]][kd]
                            pos = pos.toENUCoords(objs[cur[1]]["ecef" if kd == "geo" else "geo"], nb) if cur[0] == "ENU" else pos.toENUCoords(nb)
                    cur = tuple(s["real"])
                    kind = {"Geo": GeoCoords, "ECEF": ECEFCoords, "ENU": ENUCoords, "L93": ENUCoords}[cur[0]]
                    if not isinstance(pos, kind):
                        viol.append(("point/class", "%s: result is %s, specification frame %s" % (where, type(pos).__name__, cur[0]), case)); break
                    if cur[0] != "L93":
                        check_pos(to_geo(triple(pos), cur, bases), p2, where, viol, case, local=cur[0] == "ENU")
            except (Exception, SystemExit) as ex:
                viol.append(("point/raised", "point history [%s] raised %r" % (label, ex), case))
            for nm, d in objs.items():
                for kd, o in d.items():
                    if triple(o) != frozen[nm][kd]:
                        viol.append(("caller-base-modified/" + kd, "history [%s]: the caller's %s base object %s was modified: %r -> %r" %
                                     (label, kd, nm, frozen[nm][kd], triple(o)), case))
        if len({s["a"] for s in hist}) >= 3:
            nontriv.add(label)
        if ci == 0:
            samples.append({"hist": hist, "example_points": combos[0][:2], "example_bases": combos[0][2:]})
    return len(cases), viol, nontriv, samples


def mc_cfg(depth, emit, legacy=False, invs=("Denotes", "BaseRecorded"), props=("BaseStable",)):
    return ("SPECIFICATION Spec\nCONSTANTS\n  Depth = %d\n  Emit = %s\n  Legacy = %s\n  Mode = \"mc\"\n" %
            (depth, "TRUE" if emit else "FALSE", "TRUE" if legacy else "FALSE")
            + "".join("INVARIANT %s\n" % i for i in invs) + "".join("PROPERTY %s\n" % i for i in props) + "CHECK_DEADLOCK FALSE\n")


def run(ctx):
    quick = ctx.tier == "quick"
    depth = 5 if quick else 6
    ctx.rule = ("TLC: every legal conversion history of %d track-level calls (toECEF, toENU(B1 | B2 | default first fix), toGeo, "
                "toProj(2154)) preserves what the coordinates denote, records the real base and changes it only when projecting "
                "(variant forgetting the base on ENU -> ENU refuted). Binding: every complete history replayed on a real Track "
                "(3 fixes, one equal to a base) and on single coordinate objects for 4 (thorough 12) position / base "
                "assignments from the lattice lon {-180, -179.999999, -90, 0, 2, 90, 179.999999} x lat {-89.9, -45, 0, 1e-9, 48, "
                "89.9} x h {-1000, 0, 10000} (France for Lambert-93); after each step every triple is mapped back to geographic "
                "coordinates by an independent WGS84 reference and compared to 1e-9 degree / 1 mm. Non-trivial = distinct "
                "histories using at least three different conversions." % depth)
    ctx.assumptions += ["the concrete -> abstract map for ECEF / ENU frames is an independent WGS84 implementation in the harness (a = 6378137, 1/f = 298.257223563, "
                        "iterative inverse): trusted base, TLC cannot compute trigonometry",
                        "Lambert-93 positions are judged through the round trip back to geographic coordinates (no independent projection formula)",
                        "explicit bases passed to a conversion are the recorded ones (legal histories only); they are handed over as GeoCoords or ECEFCoords objects that are reused across steps and must never be modified"]
    ctx.extra["trusted_base"] = ["harness/drivers/c14.py ref_geo2ecef / ref_ecef2geo / ref_enu2ecef (WGS84 reference)"]
    ctx.tlc_mc("Frames", ctx.write_cfg("FR.cfg", mc_cfg(depth, False)), label="frames: denotation and base bookkeeping")
    ctx.tlc_mc("Frames", ctx.write_cfg("FRL.cfg", mc_cfg(3, False, legacy=True, invs=("BaseRecorded",), props=())),
               label="self-test: forgotten base refuted", expect_violation="BaseRecorded")
    path, out = ctx.tlc_emit_file("Frames", ctx.write_cfg("FRe.cfg", mc_cfg(depth, True, props=())), workers=1, label="emit histories")
    n = ctx.pmap_emitted(path, replay if quick else replay_thorough, chunk=40)
    ctx.exhaustive = True
    ctx.extra["histories_replayed"] = n
    ctx.extra["assignments_per_history"] = 4 if quick else 12


def replay_thorough(cases):
    for c in cases:
        c["k"] = 12
    return replay(cases)
