"""C15 - KernelFilter.tla / KernelFilterTrace.tla bound to Operator.FILTER, filter_seq, Track.smooth and the kernel
classes (code -> spec).

TLC checks on the model that the transcribed temp / norm loop equals the renormalised weighted mean, that constant
signals are fixed and that outputs stay in the hull of their window.  The driver filters real tracks (features with
isolated NaN; x, y, z through filter_seq) with every odd weight list over {1,2,5} of length 1-5 on every short signal
over {0,1,3,NaN}, random longer ones, and with every built-in non-negative kernel (widths 1-5, both boundary flags);
outputs are abstracted to exact fractions (rational windows) or to 1/1000 with a stated tolerance (transcendental
windows) and judged by TLC, together with the facts about toSlidingWindow()."""
import itertools
import math
import random
from fractions import Fraction

import core

NANV = 9999
ONAN = 99999999          # NaN marker of outputs expressed in 1/1000 (9999 would collide with the value 9.999)


def mk(xs, feat=None):
    import tk
    n = len(xs)
    tr = tk.mk_track([0] * n)
    if feat is not None:
        tr.createAnalyticalFeature(feat, [float("nan") if v == NANV else float(v) for v in xs])
    return tr


def abs_exact(v, total):
    try:
        v = float(v)
    except Exception:
        return [3, 0, 1]
    if math.isnan(v):
        return [0, 0, 1]
    if math.isinf(v):
        return [3, 0, 1]
    f = Fraction(v).limit_denominator(max(1, total))
    if abs(float(f) - v) > 1e-9 * max(1.0, abs(v)):
        return [3, 0, 1]
    return [1, f.numerator, f.denominator]


def abs_milli(v):
    try:
        v = float(v)
    except Exception:
        return ONAN
    if math.isnan(v) or math.isinf(v) or abs(v) > 9e4:
        return ONAN
    return int(round(v * 1000))


def rational_window(win):
    """integer weights if every sample of the window is a small rational, else None"""
    fr = []
    for v in win:
        f = Fraction(float(v)).limit_denominator(2000)
        if abs(float(f) - float(v)) > 1e-12:
            return None
        fr.append(f)
    L = 1
    for f in fr:
        L = L * f.denominator // math.gcd(L, f.denominator)
    ints = [int(f * L) for f in fr]
    if L > 10 ** 6 or max(ints) > 10 ** 5:
        return None
    return ints


def apply_filter(xs, kernel, api, axis):
    """returns the output list (floats) of the real code"""
    from tracklib.core.operators import Operator
    from tracklib.algo.filtering import filter_seq
    if api == "operate":
        tr = mk(xs, "a")
        if len(xs) % 2 == 0:            # history: the output feature exists already (an older result): it is replaced
            tr.createAnalyticalFeature("out", [float(-5 - i) for i in range(len(xs))])
        tr.operate(Operator.FILTER, "a", kernel, "out")
        return [tr["out", i] for i in range(len(xs))]
    if api == "operate_inplace":
        tr = mk(xs, "a")
        tr.operate(Operator.FILTER, "a", kernel, "a")
        return [tr["a", i] for i in range(len(xs))]
    from tracklib.core.track import Track
    import tk
    coords = {"x": [7.0] * len(xs), "y": [8.0] * len(xs), "z": [9.0] * len(xs)}
    coords[axis] = [float(v) for v in xs]
    tr = tk.mk_track(coords["x"], coords["y"], coords["z"])
    if api == "smooth":
        tr.smooth(kernel)
        res = tr
    elif api == "filter_seq":
        res = filter_seq(tr, kernel, [axis])
    else:
        # all three dimensions: an explicit list of the caller's (which the call may not edit), the module's constant, or the
        # default argument - by turns; every fourth time a FLAT track (no elevation: z = 0 everywhere) went through the same
        # form just before (what an earlier call did with the dimension list may not matter)
        import tracklib.algo.filtering as flt
        form = (len(xs) + int(sum(abs(v) for v in xs if v == v))) % 3
        mine = ["x", "y", "z"]

        def go(t):
            return filter_seq(t, kernel, mine) if form == 0 else (filter_seq(t, kernel, flt.FILTER_XYZ) if form == 1 else filter_seq(t, kernel))
        if (len(xs) + int(sum(2 * abs(v) for v in xs[:3] if v == v))) % 4 == 0:
            go(tk.mk_track([float(k * k % 5) for k in range(len(xs))], [1.0] * len(xs), [0.0] * len(xs)))
        res = go(tr)
        if mine != ["x", "y", "z"]:
            return [float("inf")] * len(xs)
    get = {"x": res.getX, "y": res.getY, "z": res.getZ}[axis]
    out = list(get())
    if api != "filter_seq":
        return out
    # the other two axes must be untouched
    for other in ("x", "y", "z"):
        if other != axis:
            vals = {"x": res.getX, "y": res.getY, "z": res.getZ}[other]()
            if any(abs(a - b) > 1e-12 for a, b in zip(vals, coords[other])):
                return [float("inf")] * len(xs)
    return out


def ev_list(xs, w, api, axis="x"):
    e = {"ev": "filt", "api": api, "x": list(xs), "w": list(w), "bd": False, "raised": False, "out": []}
    try:
        with core.quiet():
            out = apply_filter(xs, [float(v) for v in w] if len(w) % 2 else list(w), api, axis)
        e["out"] = [abs_exact(v, sum(w)) for v in out]
    except (Exception, SystemExit) as ex:
        e["raised"] = True
        e["exc"] = repr(ex)[:80]
    return e


KERNELS = ["Uniform", "Triangular", "Gaussian", "Exponential", "Epanechnikov", "Dirac", "Cubic", "Spheric"]


def make_kernel(name, width, boundary, used=False):
    """used: the kernel OBJECT has a history - it already filtered another signal with the opposite boundary setting before
    being given the setting under test (a kernel object is meant to be configured and reused)"""
    import tracklib.core.kernel as K
    k = K.DiracKernel() if name == "Dirac" else getattr(K, name + "Kernel")(width)
    if used:
        import tk
        from tracklib.core.operators import Operator
        k.setFilterBoundary(not boundary)
        n = max(3, 2 * len(k.toSlidingWindow()))
        t = tk.mk_track(list(range(n)))
        t.createAnalyticalFeature("h", [float((7 * i) % 5) for i in range(n)])
        t.operate(Operator.FILTER, "h", k, "h2")
    if not boundary and not used and width * 2 % 3 == 0:
        # the documented default is "boundaries not filtered": this kernel relies on it (its setter is never called), after
        # ANOTHER kernel object was configured the other way
        other = K.GaussianKernel(1)
        other.setFilterBoundary(True)
        return k
    k.setFilterBoundary(boundary)
    return k


def ev_kernel(xs, name, width, boundary, api, axis="x"):
    out_e = []
    try:
        with core.quiet():
            k = make_kernel(name, width, boundary)
            win = [0, 1, 0] if name == "Dirac" else k.toSlidingWindow()
    except (Exception, SystemExit) as ex:
        return [{"ev": "kwin", "kernel": "%s(%s)" % (name, width), "raised": True, "W": [1], "isup": 0, "exc": repr(ex)[:80]}]
    ints = rational_window(win)
    if ints is not None and sum(ints) > 0:
        e = {"ev": "filt", "api": api, "kernel": "%s(%s)" % (name, width), "x": list(xs), "w": ints, "bd": boundary, "raised": False, "out": []}
    else:
        e = {"ev": "filta", "api": api, "kernel": "%s(%s)" % (name, width), "x": list(xs), "W": [int(round(v * 10000)) for v in win],
             "bd": boundary, "raised": False, "o": []}
    try:
        with core.quiet():
            used = name != "Dirac" and (len(xs) + int(width * 2) + (1 if boundary else 0)) % 2 == 0
            e["hist"] = "kernel object used before with the other boundary setting" if used else ""
            out = apply_filter(xs, width if api == "smooth" else make_kernel(name, width, boundary, used), api, axis)
        if e["ev"] == "filt":
            e["out"] = [abs_exact(v, sum(ints)) for v in out]
        else:
            e["o"] = [abs_milli(v) for v in out]
    except (Exception, SystemExit) as ex:
        e["raised"] = True
        e["exc"] = repr(ex)[:80]
    return [e]


def ev_window(name, width):
    e = {"ev": "kwin", "kernel": "%s(%s)" % (name, width), "raised": False, "W": [1], "isup": 0}
    try:
        with core.quiet():
            k = make_kernel(name, width, False)
            win = k.toSlidingWindow()
            e["isup"] = int(k.support)
        e["W"] = [int(round(float(v) * 10 ** 6)) for v in win]
    except (Exception, SystemExit) as ex:
        e["raised"] = True
        e["exc"] = repr(ex)[:80]
    return e


def job_lists(args):
    n, = args
    out = []
    wl = [w for d in (0, 1, 2) for w in itertools.product([1, 2, 5], repeat=2 * d + 1) if 2 * d + 1 <= n]
    for k, xs in enumerate(itertools.product([0, 1, 3, NANV], repeat=n)):
        for j, w in enumerate(wl):
            if (k + j) % 3 == 0 or n <= 4:
                out.append(ev_list(xs, w, "operate" if (k + j) % 2 else "operate_inplace"))
    return out


def job_random(args):
    seed, count = args
    rnd = random.Random(seed)
    out = []
    for _ in range(count):
        style = rnd.randrange(4)
        d = rnd.randrange(0, 4)
        n = rnd.randrange(2 * d + 1, 2 * d + 12)
        if style == 0:
            xs = [rnd.randrange(-5, 10)] * n                                         # constant
        elif style == 1:
            xs = sorted(rnd.randrange(-5, 20) for _ in range(n))                      # monotone
        else:
            xs = [rnd.randrange(-9, 20) for _ in range(n)]
        w = [rnd.choice([1, 2, 3, 5, 8]) for _ in range(2 * d + 1)]
        axis = rnd.choice(["x", "y", "z"])
        api = rnd.choice(["filter_seq", "filter_seq_xyz"])
        out.append(ev_list(xs, w, api, axis))
        if n >= 3:                                                                  # isolated NaN (features only)
            ys = list(xs)
            for pos in range(rnd.randrange(0, n), n, rnd.randrange(2 * d + 2, 2 * d + 5)):
                ys[pos] = NANV
            out.append(ev_list(ys, w, "operate"))
        if rnd.random() < 0.3:
            k = rnd.choice([1, 3, 5])
            if k <= n:
                e = ev_list(xs, [1] * k, "filter_seq", axis)                         # integer kernel = rectangular window
                out.append(e)
    return out


def job_kernels(args):
    seed, count = args
    rnd = random.Random(seed)
    out = []
    for _ in range(count):
        name = rnd.choice(KERNELS)
        width = rnd.choice([1, 2, 3, 4, 5]) if name != "Dirac" else 0
        boundary = rnd.random() < 0.5
        N = 3 if name == "Dirac" else 2 * int(make_kernel(name, width, False).support) + 1
        n = rnd.randrange(N, N + 12)
        xs = [rnd.randrange(-9, 20) for _ in range(n)] if rnd.random() < 0.8 else [rnd.randrange(-5, 10)] * n
        api = rnd.choice(["operate", "filter_seq", "operate"])
        if api == "operate" and rnd.random() < 0.5:
            for pos in range(rnd.randrange(0, n), n, N + 1 + rnd.randrange(3)):
                xs[pos] = NANV
        out.extend(ev_kernel(xs, name, width, boundary, api, rnd.choice(["x", "y", "z"])))
        if name == "Gaussian" and rnd.random() < 0.3:
            e = ev_kernel([v for v in xs if v != NANV] + [0] * 40, "Gaussian", width, False, "smooth", rnd.choice(["x", "y", "z"]))
            out.extend(e)
    return out


def mc_cfg(maxn, maxw):
    return ("SPECIFICATION Spec\nCONSTANTS\n  XVals = {0, 1, 3, 9999}\n  WVals = {1, 2, 5}\n  MaxN = %d\n  MaxW = %d\n  Mode = \"mc\"\n"
            "INVARIANT LoopIsDefinition\nINVARIANT ConstantFixed\nINVARIANT HullProperty\nCHECK_DEADLOCK FALSE\n" % (maxn, maxw))


def run(ctx):
    quick = ctx.tier == "quick"
    ctx.rule = ("TLC: loop transcription = renormalised weighted mean, constants fixed, hull property for all signals of length "
                "3..%d over {0,1,3,NaN} x odd weight lists over {1,2,5} (length <= 5) x boundary flag. Binding: Operator.FILTER "
                "on all signals of length 3..%d x those weight lists (subsampled above length 4), random signals (constant, "
                "monotone, isolated NaN) through filter_seq on x / y / z and integer kernels, eight kernel classes x widths 1-5 "
                "x boundary flags through operate / filter_seq / smooth, and every kernel's sliding window; judged by "
                "KernelFilterTrace. Non-trivial = distinct calls whose signal holds a NaN or whose window is clipped by the "
                "track ends with boundary filtering on." % (5 if quick else 6, 5 if quick else 6))
    ctx.assumptions += ["integer signal values; list weights positive integers; a call in which some index has no valid sample (0/0) is not judged",
                        "kernels with transcendental windows: window rounded to 1e-4, outputs to 1e-3, tolerance 0.02 + hull",
                        "signal length >= window length"]
    c = ctx.write_cfg("KF.cfg", mc_cfg(5 if quick else 6, 2))
    ctx.tlc_mc("KernelFilter", c, label="KernelFilter design check", timeout=3000)
    import multiprocessing as mp
    jobs = [(job_lists, (n,)) for n in ((3, 4, 5) if quick else (3, 4, 5, 6))]
    for k in range(16):
        jobs.append((job_random, (ctx.seed * 47 + k, 60 if quick else 1500)))
    for k in range(16):
        jobs.append((job_kernels, (ctx.seed * 53 + k, 40 if quick else 1000)))
    events = []
    with mp.get_context("fork").Pool(16, initializer=core._pool_init, initargs=(None,)) as pool:
        res = [pool.apply_async(f, (a,)) for f, a in jobs]
        for r in res:
            events.extend(r.get())
    for name in KERNELS:
        for width in (1, 2, 3, 4, 5, 1.5, 2.5):
            if name == "Dirac" and width != 1:
                continue
            events.append(ev_window(name, width))
    for k, e in enumerate(events):
        e["id"] = k
    rej = ctx.tlc_trace("KernelFilterTrace", events, chunks=16, label="filter trace", timeout=3000)
    byid = {e["id"]: e for e in events}
    for i, clause in sorted(rej.items()):
        e = byid[i]
        if e["ev"] == "kwin":
            ctx.violation("window/%s/%s" % (e["kernel"].split("(")[0], clause), "%s.toSlidingWindow() -> %s (floor(support) %s) %s: %s" %
                          (e["kernel"], e["W"], e["isup"], e.get("exc", ""), clause), e)
        else:
            ctx.violation("filter/%s/%s/%s" % (e["api"], e.get("kernel", "list").split("(")[0], clause),
                          "%s signal %s kernel %s boundary=%s -> %s %s: %s" % (e["api"], e["x"], e.get("kernel", e.get("w")), e["bd"],
                                                                               e.get("out", e.get("o")), e.get("exc", ""), clause), e)
    for e in events:
        if e["ev"] != "kwin" and (NANV in e["x"] or e["bd"]):
            ctx.nontriv(repr((e["x"], e.get("w", e.get("W")), e["bd"], e["api"])))
    ctx.evaluations += len(events)
    ctx.extra["records_by_kind"] = {k: sum(1 for e in events if e["ev"] == k) for k in ("filt", "filta", "kwin")}
    ctx.extra["records_by_api"] = {k: sum(1 for e in events if e.get("api") == k) for k in sorted({e.get("api") for e in events if e.get("api")})}
    for e in events:
        if e["ev"] == "filt" and NANV in e["x"] and len(e["x"]) >= 8 and e["id"] not in rej:
            ctx.sample({k: e[k] for k in ("api", "x", "w", "bd", "out")}, limit=2)
    for e in events:
        if e["ev"] == "kwin" and len(e["W"]) == 7:
            ctx.sample({k: e[k] for k in ("kernel", "W", "isup")}, limit=1)
