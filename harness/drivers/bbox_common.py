"""BoundingBox.tla bound to tracklib.core.bbox.Bbox (spec -> code): every history of public operations printed by the
model is replayed on real Bbox objects; asTuple(), the index and name access, getDimensions() and the pattern of boxes that
move together (shared corner objects, observed by behaviour: which other boxes an in-place operation changed) are compared
with the state of the specification."""
import core

CAT = [(0, 0, 2, 1), (1, -1, 3, 3), (-2, 1, -1, 4)]
NAMES = ["xmin", "xmax", "ymin", "ymax"]


def num(v):
    return int(v) if float(v) == int(v) else float(v)


def replay(cases):
    from tracklib.core.bbox import Bbox
    from tracklib.core.obs_coords import ENUCoords
    viol, nontriv, samples = [], set(), []
    for ci, c in enumerate(cases):
        hist = c["hist"]
        label = [(o["op"], o["a"], o["b"], o["c"]) for o in hist]
        last = hist[-1]["op"] if hist else "init"
        try:
            with core.quiet():
                boxes = []
                for o in hist:
                    op, a, b, cc = o["op"], o["a"], o["b"], o["c"]
                    if op == "new":
                        x0, y0, x1, y1 = CAT[a - 1]
                        boxes.append(Bbox(ENUCoords(x0, y0, 0), ENUCoords(x1, y1, 0)))
                    elif op == "point":
                        p = ENUCoords(CAT[a - 1][0], CAT[a - 1][1], 0)
                        boxes.append(Bbox(p, p))
                    elif op == "share":
                        boxes.append(Bbox(boxes[a - 1].getLowerLeft(), boxes[a - 1].getUpperRight()))
                    elif op == "copy":
                        boxes.append(boxes[a - 1].copy())
                    elif op == "merge":
                        boxes.append(boxes[a - 1] + boxes[b - 1])
                    elif op == "translate":
                        boxes[a - 1].translate(b, cc)
                    elif op == "scale":
                        boxes[a - 1].scale(b)
                    elif op == "setitem":
                        if (len(hist) + a) % 2:
                            boxes[a - 1][b] = cc
                        else:
                            boxes[a - 1][NAMES[b]] = cc
                    elif op == "margin":
                        boxes[a - 1].addMargin(b)
                got = [[num(v) for v in bx.asTuple()] for bx in boxes]
                got_idx = [[num(bx[k]) for k in range(4)] for bx in boxes]
                got_nam = [[num(bx[k]) for k in NAMES] for bx in boxes]
                got_dims = [[num(v) for v in bx.getDimensions()] for bx in boxes]
                got_shares = [next(j + 1 for j, u in enumerate(boxes) if {id(u.ll), id(u.ur)} & {id(bx.ll), id(bx.ur)}) for bx in boxes]
        except (Exception, SystemExit) as ex:
            viol.append(("bbox/raised/after-" + last, "history %s raised %r" % (label, ex), hist))
            continue
        want = [list(t) for t in c["tuples"]]
        if got != want:
            viol.append(("bbox/tuples/after-" + last, "history %s: boxes %s, specification %s" % (label, got, want), hist))
        elif got_idx != want or got_nam != want:
            viol.append(("bbox/item-access/after-" + last, "history %s: b[0..3] %s, b[name] %s, asTuple %s" % (label, got_idx, got_nam, got), hist))
        elif got_dims != [list(t) for t in c["dims"]]:
            viol.append(("bbox/dimensions/after-" + last, "history %s: dimensions %s, specification %s" % (label, got_dims, c["dims"]), hist))
        elif got_shares != list(c["shares"]):
            viol.append(("bbox/sharing/after-" + last, "history %s: boxes sharing a corner object %s, specification %s" % (label, got_shares, c["shares"]), hist))
        if len({o["op"] for o in hist}) >= 3:
            nontriv.add("mixed")
        if ci == 0:
            samples.append(c)
    return len(cases), viol, nontriv, samples


CFG = "SPECIFICATION Spec\nCONSTANTS\n  Emit = %s\n  MaxOps = %d\n%sCHECK_DEADLOCK FALSE\n"
PROPS = "".join("PROPERTY %s\n" % p for p in ("CreationIsPure", "MergeIsLub", "CopyIsFresh", "InPlaceLocal", "TranslateKeepsDims",
                                               "ScaleScalesDims", "MarginGrows"))


def run(ctx, quick):
    ctx.tlc_mc("BoundingBox", ctx.write_cfg("BB_tm.cfg", CFG % ("FALSE", 2, "PROPERTY TranslateMovesBy\n")), expect_violation="TranslateMovesBy",
               label="BoundingBox self-test: a box built on ONE corner object is translated twice (TranslateMovesBy refuted)")
    depth = 4 if quick else 5
    path, out = ctx.tlc_emit_file("BoundingBox", ctx.write_cfg("BB.cfg", CFG % ("TRUE", depth, "INVARIANT Inv\n" + PROPS)),
                                  label="Bbox histories to %d operations" % depth)
    n = ctx.pmap_emitted(path, replay, chunk=500, growth=True)
    if n != out.distinct:
        raise core.Machinery("BoundingBox: emitted states %d != distinct states %d" % (n, out.distinct))
    ctx.extra["bbox_histories_replayed"] = n
