"""C05 - Resample.tla / ResampleTrace.tla bound to Track.resample (linear, temporal and spatial) and Track // ref
(code -> spec).

TLC checks the transcribed forward-only cursor (continue before the range, break after it) against the definition
(kept instants, unique bracket, linear interpolant) for every small track and every chronologically ordered request,
and that spatial output times never decrease.  The driver resamples real ENU tracks (irregular strictly increasing
timestamps, repeated positions) with numeric steps that do and do not divide the duration / length, lists of instants
(before, at, between, duplicated, at the end, after the range), reference tracks and the // operator; rows are
abstracted to exact fractions and judged by TLC."""
import itertools
import math
import random
from fractions import Fraction

import core

T0 = None


def t0():
    global T0
    if T0 is None:
        from tracklib.core.obs_time import ObsTime
        T0 = ObsTime(2020, 6, 15, 12, 0, 0).toAbsTime()
    return T0


def mk(T, P, scale=1, div=None):
    import tk
    if div:          # decimal unit: the model's integers divided by div (correctly rounded decimal numbers, as a file holds them)
        return tk.mk_track([p[0] / float(div) for p in P], [p[1] / float(div) for p in P], [p[2] for p in P], [t / 2.0 for t in T])
    return tk.mk_track([p[0] * scale for p in P], [p[1] * scale for p in P], [p[2] for p in P], [t / 2.0 for t in T])


def frac(v, maxden):
    v = float(v)
    if math.isnan(v) or math.isinf(v):
        return None
    f = Fraction(v).limit_denominator(maxden)
    if abs(float(f) - v) > 1e-9 * max(1.0, abs(v)):
        return None
    return [f.numerator, f.denominator]


def rows(tr, maxden, inv=1):
    out, lat = [], True
    for k in range(tr.size()):
        o = tr.getObs(k)
        ms = (o.timestamp.toAbsTime() - t0()) * 1000.0
        r = [int(round(ms))]
        for v in (o.position.getX() * inv, o.position.getY() * inv, o.position.getZ()):
            f = frac(v, maxden)
            if f is None:
                lat = False
                f = [0, 1]
            r.append(f)
        out.append(r)
    return out, lat


def call_temporal(T, P, kind, arg, api):
    """kind 'step': arg = step in ticks; kind 'list': arg = list of ticks (chronological)"""
    from tracklib.core.obs_time import ObsTime
    e = {"ev": "T", "api": api, "T": list(T), "P": [list(p) for p in P], "kind": kind, "d": arg if kind == "step" else 0,
         "ref": list(arg) if kind == "list" else [], "raised": False, "lat": True, "out": []}
    maxden = max(T[i + 1] - T[i] for i in range(len(T) - 1))
    try:
        with core.quiet():
            tr = mk(T, P)
            tr.createAnalyticalFeature("af", 3.0)
            if kind == "step":
                delta = arg // 2 if arg % 2 == 0 and api == "int" else arg / 2.0
                # a step is a NUMBER: python int / float, or what numpy hands back (np.median(np.diff(t)) is an np.float64, a
                # count an np.int64) - by turns
                h_ = (arg + len(T) + sum(T)) % 3
                if h_ == 1:
                    import numpy as np
                    delta = np.float64(delta)
                elif h_ == 2 and isinstance(delta, int):
                    import numpy as np
                    delta = np.int64(delta)
                tr.resample(delta=delta, mode=2)
                res = tr
            else:
                stamps = [ObsTime.readUnixTime(t0() + t / 2.0) for t in arg]
                if api == "list":
                    tr.resample(delta=stamps, mode=2)
                    res = tr
                else:
                    ref = mk(list(arg) if arg else [0], [(9, 9, 9)] * max(1, len(arg)))
                    if not arg:
                        raise core.Machinery("empty reference track")
                    if api == "track":
                        tr.resample(delta=ref, mode=2)
                        res = tr
                    else:
                        res = tr // ref
                        if tr.size() != len(T):
                            raise ValueError("the // operator modified its left operand")
        e["out"], e["lat"] = rows(res, maxden)
    except core.Machinery:
        raise
    except (Exception, SystemExit) as ex:
        e["raised"] = True
        e["exc"] = repr(ex)[:80]
    return e


def call_spatial(T, P, ds2, scale=1, div=None):
    """scale = 1/2: the real track is the model's polyline in HALF units (planimetry and step halved - exact -, the answer
    scaled back): the property does not depend on the unit, and a track with whole East coordinates and half-unit North
    coordinates has legs of non-integer rational length"""
    e = {"ev": "S", "api": "spatial", "T": list(T), "P": [list(p) for p in P], "kind": "step", "d": ds2, "ref": [], "raised": False, "lat": True, "out": []}
    maxden = 2 * max([1] + [int(round(math.hypot(P[i + 1][0] - P[i][0], P[i + 1][1] - P[i][1]))) for i in range(len(P) - 1)])
    # history variant (every other call with >= 3 fixes): the track was longer, its curvilinear abscissa was computed, and a
    # fix was removed since - the stored abs_curv column is STALE; the result is defined by the polyline as it stands now
    stale = len(P) >= 3 and (sum(T) + ds2 + len(P)) % 2 == 0
    e["hist"] = "stale-abs_curv" if stale else ""
    try:
        with core.quiet():
            if stale:
                from tracklib.algo.cinematics import computeAbsCurv
                k = 1 + (sum(T) % (len(P) - 1))
                P2 = list(P[:k]) + [[P[k - 1][0] + 7, P[k - 1][1] - 5, 3]] + list(P[k:])
                T2 = list(T[:k]) + [(T[k - 1] + T[k]) / 2.0] + list(T[k:])
                tr = mk(T2, P2, scale, div)
                computeAbsCurv(tr)
                tr.removeObs(k)
            else:
                tr = mk(T, P, scale, div)
            if div:
                tr.resample(delta=ds2 / (2.0 * div), mode=1)
            elif scale == 1:
                ds_ = ds2 // 2 if ds2 % 2 == 0 else ds2 / 2.0
                if (ds2 + len(T)) % 3 == 1:
                    import numpy as np
                    ds_ = np.float64(ds_)
                tr.resample(delta=ds_, mode=1)
            else:
                tr.resample(delta=ds2 / 2.0 * scale, mode=1)
        e["out"], e["lat"] = rows(tr, maxden, div if div else (1 if scale == 1 else 1.0 / scale))
    except (Exception, SystemExit) as ex:
        e["raised"] = True
        e["exc"] = repr(ex)[:80]
    return e


def call_front(T, P, form, mode, n):
    """resample(npts= / factor=, mode), track ** n, track * k against the step form with the documented step"""
    e = {"ev": "front", "form": form, "mode": mode, "n": n, "T": list(T), "P": [list(p) for p in P], "raised": False, "same": False, "lat": True,
         "api": "front-end:" + form, "kind": "npts", "d": n, "ref": [], "out": []}
    try:
        with core.quiet():
            a, b = mk(T, P), mk(T, P)
            npts = n if form in ("npts", "pow") else len(T) * n
            extent = b.duration() if mode == 2 else b.length()
            if form == "npts":
                a.resample(npts=n, mode=mode)
            elif form == "factor":
                a.resample(factor=n, mode=mode)
            elif form == "pow":
                a = a ** n
            else:
                a = a * n
            b.resample(delta=(1 + 1e-8) * extent / npts, mode=mode)
            ra = [(o.position.getX(), o.position.getY(), o.position.getZ(), o.timestamp.toAbsTime()) for o in a.getObsList()]
            rb = [(o.position.getX(), o.position.getY(), o.position.getZ(), o.timestamp.toAbsTime()) for o in b.getObsList()]
        e["same"] = ra == rb
        e["lens"] = [len(ra), len(rb)]
    except (Exception, SystemExit) as ex:
        e["raised"] = True
        e["exc"] = repr(ex)[:80]
    return e


def call_sync(T1, P1, T2, P2):
    """growth: synchronize(track1, track2) (also behind compare(.., SYNC))"""
    from tracklib.algo.interpolation import synchronize
    e = {"ev": "sync", "api": "synchronize", "T": list(T1), "P": [list(p) for p in P1], "T2": list(T2), "P2": [list(p) for p in P2],
         "kind": "list", "d": 0, "ref": [], "raised": False, "lat": True, "out": [], "out2": []}
    md = max([T1[i + 1] - T1[i] for i in range(len(T1) - 1)] + [T2[i + 1] - T2[i] for i in range(len(T2) - 1)])
    try:
        with core.quiet():
            a, b = mk(T1, P1), mk(T2, P2)
            synchronize(a, b)
        e["out"], l1 = rows(a, md)
        e["out2"], l2 = rows(b, md)
        e["lat"] = l1 and l2
    except (Exception, SystemExit) as ex:
        e["raised"] = True
        e["exc"] = repr(ex)[:80]
    return e


def cum(t0_, gaps):
    out = [t0_]
    for g_ in gaps:
        out.append(out[-1] + g_)
    return out


def job_family(args):
    n, gaps0 = args
    out = []
    for gaps in itertools.product([2, 3, 4], repeat=n - 2):
        T = cum(2, (gaps0,) + gaps)
        D = T[-1] - T[0]
        for xs in itertools.product([0, 1, 2], repeat=n):
            P = [(x, 2 - x, (i + 1) * (i + 1)) for i, x in enumerate(xs)]
            for d in list(range(1, 9)) + [D, D + 1]:
                out.append(call_temporal(T, P, "step", d, "int" if d % 2 == 0 else "float"))
            k = sum(xs) + sum(gaps) + gaps0
            a, b, c = (k * 7) % 15, (k * 11 + 3) % 15, (k * 13 + 5) % 15
            lst = sorted([a, b, c])[: 1 + k % 3]
            out.append(call_temporal(T, P, "list", lst, ("list", "track", "floordiv")[k % 3]))
            out.append(call_temporal(T, P, "list", [T[0], T[1], T[1], T[-1], T[-1] + 1], ("list", "track", "floordiv")[(k + 1) % 3]))
    return out


LEGS = [(0, 0), (1, 0), (2, 0), (0, 3), (3, 4), (-4, 3), (0, -1), (6, 8)]
LEGS_HALF = [(0, 0), (2, 0), (0, 3), (0, 1), (4, 3), (-4, 3), (0, -1), (12, 5), (8, -15)]       # in half units, dx even


def job_decimal(args):
    """spatial resampling with DECIMAL steps (0.1 ... 1.4) that do and do not divide the length of a track given in decimal
    coordinates: model in twentieths (integers), real values = model / 20 (correctly rounded decimals)"""
    out = []
    T = [0, 20, 40, 50]
    for L in range(1, 8):
        for leg in (0, 1):
            # straight along x, or with a 3-4-5 leg first (lengths in twentieths: 20 L in all)
            if leg and L >= 2:
                P = [(0, 0, 0), (12, 16, 1), (12 + 10 * (L - 1), 16, 2), (12 + 20 * (L - 1), 16, 0)]
            else:
                P = [(0, 0, 0), (10 * L, 0, 1), (15 * L, 0, 2), (20 * L, 0, 0)]
            for ds in (2, 3, 4, 6, 8, 12, 14, 28):          # steps 0.1, 0.15, 0.2, 0.3, 0.4, 0.6, 0.7, 1.4 (in twentieths here; ds2 = twice that)
                out.append(call_spatial(T, P, 2 * ds, div=20))
    return out


def job_random(args):
    seed, count = args
    rnd = random.Random(seed)
    out = []
    for _ in range(count):
        n = rnd.randrange(2, 13)
        T = cum(rnd.randrange(0, 5), [rnd.choice([1, 2, 3, 4, 7, 20]) for _ in range(n - 1)])
        # temporal: any integer positions, repeated positions included
        P = [(rnd.randrange(-5, 6), rnd.randrange(-5, 6), rnd.randrange(0, 4)) for _ in range(n)]
        for k in range(1, n):
            if rnd.random() < 0.2:
                P[k] = P[k - 1]
        D = T[-1] - T[0]
        d = rnd.choice([1, 2, 3, 4, 5, 6, 7, D, D + 1, max(1, D // 2), max(1, D // 3)])
        out.append(call_temporal(T, P, "step", d, "int" if d % 2 == 0 and rnd.random() < 0.5 else "float"))
        m = rnd.randrange(1, 8)
        lst = sorted(rnd.choice([T[0] - 2, T[0], T[-1], T[-1] + 1, rnd.choice(T), rnd.randrange(T[0], T[-1] + 1)]) for _ in range(m))
        out.append(call_temporal(T, P, "list", lst, rnd.choice(["list", "track", "floordiv"])))
        # synchronisation of two tracks with overlapping time ranges
        if n >= 3:
            n2 = rnd.randrange(3, 9)
            T2 = cum(T[0] + rnd.randrange(-3, 4), [rnd.choice([1, 2, 3, 4, 7]) for _ in range(n2 - 1)])
            if T2[0] >= 0 and min(T[-1], T2[-1]) - max(T[0], T2[0]) >= 2:
                P2 = [(rnd.randrange(-5, 6), rnd.randrange(-5, 6), rnd.randrange(0, 4)) for _ in range(n2)]
                out.append(call_sync(T, P, T2, P2))
        # spatial: walks with integer-length legs
        pts = [(0, 0)]
        for _k in range(n - 1):
            dx, dy = rnd.choice(LEGS)
            pts.append((pts[-1][0] + dx, pts[-1][1] + dy))
        PS = [(p[0], p[1], rnd.randrange(0, 5)) for p in pts]
        L2 = 2 * sum(int(round(math.hypot(pts[i + 1][0] - pts[i][0], pts[i + 1][1] - pts[i][1]))) for i in range(n - 1))
        if L2 > 0:
            ds2 = rnd.choice([1, 2, 3, 4, 5, 6, L2, L2 + 1, max(1, L2 // 2), max(1, L2 // 3)])
            out.append(call_spatial(T, PS, ds2))
            # the same in half units: whole East coordinates (even dx), half-unit North coordinates, legs of length k / 2
            pts2 = [(0, 0)]
            for _k in range(n - 1):
                dx, dy = rnd.choice(LEGS_HALF)
                pts2.append((pts2[-1][0] + dx, pts2[-1][1] + dy))
            PH = [(p[0], p[1], rnd.randrange(0, 5)) for p in pts2]
            LH = 2 * sum(int(round(math.hypot(pts2[i + 1][0] - pts2[i][0], pts2[i + 1][1] - pts2[i][1]))) for i in range(n - 1))
            if LH > 0:
                out.append(call_spatial(T, PH, rnd.choice([1, 2, 3, 4, 5, 6, LH, LH + 1, max(1, LH // 2), max(1, LH // 3)]), scale=0.5))
            # the number-of-points front ends, both modes (** is temporal, * spatial)
            form = rnd.choice(["npts", "factor", "pow", "mul"])
            mode = 2 if form == "pow" else 1 if form == "mul" else rnd.choice([1, 2])
            out.append(call_front(T, PS, form, mode, rnd.randrange(2, 9) if form in ("npts", "pow") else rnd.randrange(1, 4)))
    return out


def mc_cfg(maxfix):
    return ("SPECIFICATION Spec\nCONSTANTS\n  MaxFixR = %d\n  GapSet = {2, 3, 4}\n  XSet = {0, 1, 2}\n  Mode = \"mc\"\n"
            "INVARIANT TemporalIsDefinition\nINVARIANT SpatialIsDefinition\nINVARIANT SpatialTimesMonotone\nCHECK_DEADLOCK FALSE\n" % maxfix)


def run(ctx):
    quick = ctx.tier == "quick"
    mf = 3 if quick else 4
    ctx.rule = ("TLC: transcribed cursor loop = definition for every track of 2..%d fixes (gaps 1 / 1.5 / 2 s, coordinates {0,1,2}) x "
                "steps 0.5..4 s x every list of <= 3 instants in chronological order; spatial loop = definition and output times "
                "monotone. Binding: Track.resample(step int / float), resample(list), resample(track), // on every track of "
                "2..4 fixes of that family x steps 0.5..4 s, the duration and duration + 0.5 s, instant lists incl. duplicates and "
                "out-of-range instants; random tracks to 12 fixes (gaps to 10 s, repeated positions) and spatial resampling of "
                "integer-leg walks with steps that do and do not divide the length; judged by ResampleTrace. Non-trivial = "
                "distinct calls whose request holds an instant outside the range or equal to a fix time, or a step that does not "
                "divide the duration / length." % mf)
    ctx.assumptions += ["timestamps and steps are multiples of 0.5 s / 0.5 ground units (exact in floating point); request lists in chronological order",
                        "spatial timestamps are accepted within 1 ms of the exact interpolated instant (the implementation truncates to the millisecond)",
                        "the npts / factor / ** / * front ends (non-dyadic steps) are judged against the step form with the documented step; the spline / Gaussian-process resamplers are not covered"]
    c = ctx.write_cfg("RS.cfg", mc_cfg(mf))
    ctx.tlc_mc("Resample", c, label="Resample design check, 2..%d fixes" % mf, timeout=3000)
    import multiprocessing as mp
    jobs = []
    for n in (2, 3, 4):
        for g0 in (2, 3, 4):
            if quick and n == 4 and g0 != 3:
                continue
            jobs.append((job_family, (n, g0)))
    for k in range(32):
        jobs.append((job_random, (ctx.seed * 61 + k, 40 if quick else 1200)))
    jobs.append((job_decimal, None))
    events = []
    with mp.get_context("fork").Pool(16, initializer=core._pool_init, initargs=(None,)) as pool:
        res = [pool.apply_async(f, (a,)) for f, a in jobs]
        for r in res:
            events.extend(r.get())
    for k, e in enumerate(events):
        e["id"] = k
    rej = ctx.tlc_trace("ResampleTrace", events, chunks=16, label="resampling trace", timeout=3000)
    byid = {e["id"]: e for e in events}
    for i, clause in sorted(rej.items()):
        e = byid[i]
        (ctx.growth if e["ev"] == "sync" else ctx.violation)("resample/%s/%s/%s" % (e["ev"], e["api"], clause),
                      "resample %s (%s) times(ticks) %s positions %s request %s -> %s %s: %s" %
                      ("temporal" if e["ev"] == "T" or e.get("mode") == 2 else "spatial", e["api"], e["T"], e["P"], e["d"] if e["kind"] != "list" else e["ref"],
                       e["out"], e.get("exc", ""), clause), e)
    for e in events:
        D = e["T"][-1] - e["T"][0]
        if e["kind"] == "list":
            if any(t <= e["T"][0] or t > e["T"][-1] or t in e["T"] for t in e["ref"]):
                ctx.nontriv(repr((e["T"], e["P"], e["ref"], e["api"])))
        elif e["ev"] == "T" and D % e["d"]:
            ctx.nontriv(repr((e["T"], e["P"], e["d"], e["api"])))
        elif e["ev"] == "S":
            ctx.nontriv(repr((e["T"], e["P"], e["d"])))
    ctx.evaluations += len(events)
    ctx.extra["records_by_api"] = {k: sum(1 for e in events if e["api"] == k) for k in sorted({e["api"] for e in events})}
    for e in events:
        if len(e["T"]) >= 5 and len(e["out"]) >= 3 and e["id"] not in rej:
            ctx.sample({k: e[k] for k in ("ev", "api", "T", "P", "kind", "d", "ref", "out")}, limit=2)
