"""C18 - DTW.tla / DTWTrace.tla bound to tracklib.algo.comparison.match / compare (code -> spec).

TLC checks on every pair of 1-D tracks of sizes 1..4 over {0,1,2} and p in {1, 2, inf}: Bellman value = minimum over
all monotone couplings (enumerated explicitly), the optimum is symmetric, and the transcribed T/M tables yield an
accepted matching (the pinned complex-number predecessor encoding is refuted: self-test).  The driver runs the real
match() in DTW, FDTW and FRECHET mode and compare(FRECHET) on that family, on 2-D / 3-D lattice configurations
(integer distances for p = 1 / inf, any lattice for p = 2) and on random pairs to 12 x 12; TLC judges every record."""
import itertools
import math
import random

import core

PINF = 0


def mk(points, dim, sc=1.0):
    from tracklib.core.track import Track
    from tracklib.core.obs import Obs
    from tracklib.core.obs_coords import ENUCoords
    from tracklib.core.obs_time import ObsTime
    obs = []
    if sc == 1.0 and (len(points) + dim) % 3 == 0:
        # whole coordinates handed over as Python ints (ENUCoords(3, 4, 0) is what users write)
        for k, pt in enumerate(points):
            c = ENUCoords(k, -k, int(pt[0])) if dim == 1 else (ENUCoords(int(pt[0]), int(pt[1]), 7 * k) if dim == 2 else ENUCoords(int(pt[0]), int(pt[1]), int(pt[2])))
            obs.append(Obs(c, ObsTime()))
        return Track(obs)
    for k, pt in enumerate(points):
        if dim == 1:
            c = ENUCoords(float(k), float(-k), float(pt[0]) * sc)          # dim 1 uses the U component only
        elif dim == 2:
            c = ENUCoords(float(pt[0]) * sc, float(pt[1]) * sc, float(7 * k))  # z must be ignored
        else:
            c = ENUCoords(float(pt[0]) * sc, float(pt[1]) * sc, float(pt[2]) * sc)
        obs.append(Obs(c, ObsTime()))
    return Track(obs)


def to_int(v):
    try:
        v = float(v)
    except Exception:
        return None
    if math.isnan(v) or math.isinf(v):
        return None
    r = round(v)
    return int(r) if abs(v - r) <= 1e-9 * max(1.0, abs(v)) else None


def call(a, b, dim, p, how, brute):
    """how: 'DTW' | 'FDTW' | 'FRECHET' | 'compare'"""
    import tracklib.algo.comparison as cmp
    e = {"ev": "match", "how": how, "a": [list(x) for x in a], "b": [list(x) for x in b], "p": p, "dim": dim, "brute": brute,
         "raised": False, "lat": True, "links": [], "nb": 0, "score": 0}
    pp = float("inf") if p == PINF else p
    # the property does not depend on the unit of length: a quarter of the calls are made on coordinates multiplied by 2^-40
    # (exact; every cost is then far below 1e-9 and still exact) and the score scaled back
    h_ = (len(a) + 3 * len(b) + dim + int(sum(sum(x) for x in a))) % 8
    sc = 2.0 ** -40 if h_ in (0, 4) else (0.1 if h_ == 1 else 1.0)      # 0.1: coordinates in tenths, not exact in binary floating point
    e["scale"] = "2^-40" if sc < 0.01 else str(sc)
    try:
        with core.quiet():
            t1, t2 = mk(a, dim, sc), mk(b, dim, sc)
            if a == b and (len(a) + dim) % 2 == 0:
                t2 = t1                                   # aliasing: the same Track object on both sides
            # history (every third call): track1 is itself the result of an earlier matching (with a reversed copy of
            # track2): it already carries the 'pair', 'diff' ... features the new matching has to overwrite
            if (len(a) + 2 * len(b) + dim + (0 if p == PINF else p)) % 3 == 0 and how != "compare":
                t1 = cmp.match(t1, mk(list(reversed(b)) + [b[0]], dim, sc), mode=cmp.MODE_MATCHING_DTW, p=1, dim=dim, verbose=False)
                e["hist"] = "track1 is the result of an earlier matching"
            if how == "compare":
                e["ev"] = "score"
                s = cmp.compare(t1, t2, mode=cmp.MODE_COMPARISON_FRECHET, dim=dim, verbose=False)
            else:
                mode = {"DTW": cmp.MODE_MATCHING_DTW, "FDTW": cmp.MODE_MATCHING_FDTW, "FRECHET": cmp.MODE_MATCHING_FRECHET}[how]
                if (len(a) + len(b) + dim) % 4 == 0:
                    m = cmp.match(t1, t2, mode=mode, p=pp, dim=dim)          # default verbosity (a progress bar)
                else:
                    m = cmp.match(t1, t2, mode=mode, p=pp, dim=dim, verbose=False)
                s = m.score
                e["nb"] = int(m.nb_links)
                links = []
                if m.size() != len(a):
                    raise ValueError("matching has %d observations for %d" % (m.size(), len(a)))
                for j in range(m.size()):
                    for i in m["pair", j]:
                        links.append([int(i) + 1, j + 1])
                e["links"] = links
        si = to_int(s / sc ** (1 if p == PINF or how == "compare" else p))
        if si is None:
            e["lat"] = False
            e["raw"] = repr(s)
        else:
            e["score"] = si
    except (Exception, SystemExit) as ex:
        e["raised"] = True
        e["exc"] = repr(ex)[:80]
    return e


def calls_for(a, b, dim, ps, brute, hows=("DTW", "FDTW")):
    out = []
    for p in ps:
        for how in hows:
            out.append(call(a, b, dim, p, how, brute))
    if PINF in ps:
        out.append(call(a, b, dim, PINF, "FRECHET", brute))
        out.append(call(a, b, dim, PINF, "compare", brute))
    return out


def job_dim1(args):
    n1, n2, stride, off = args
    out = []
    idx = 0
    for a in itertools.product([0, 1, 2], repeat=n1):
        for b in itertools.product([0, 1, 2], repeat=n2):
            idx += 1
            if idx % stride != off % stride:
                continue
            out.extend(calls_for([(v,) for v in a], [(v,) for v in b], 1, (1, 2, PINF), True))
    return out


RECT = [(0, 0), (3, 0), (0, 4), (3, 4)]
LINE3 = [(0, 0, 0), (1, 2, 2), (2, 4, 4), (3, 6, 6)]


def job_multi(args):
    seed, count = args
    rnd = random.Random(seed)
    out = []
    for _ in range(count):
        n1, n2 = rnd.randrange(1, 5), rnd.randrange(1, 5)
        kind = rnd.randrange(4)
        if kind == 0:       # 2-D, integer distances: every norm
            a = [rnd.choice(RECT) for _ in range(n1)]; b = [rnd.choice(RECT) for _ in range(n2)]
            out.extend(calls_for(a, b, 2, (1, 2, PINF), True))
        elif kind == 1:     # 2-D, any lattice: p = 2
            a = [(rnd.randrange(3), rnd.randrange(3)) for _ in range(n1)]; b = [(rnd.randrange(3), rnd.randrange(3)) for _ in range(n2)]
            out.extend(calls_for(a, b, 2, (2,), True))
        elif kind == 2:     # 3-D collinear, integer distances
            a = [rnd.choice(LINE3) for _ in range(n1)]; b = [rnd.choice(LINE3) for _ in range(n2)]
            out.extend(calls_for(a, b, 3, (1, 2, PINF), True))
        else:               # 3-D lattice, p = 2
            a = [tuple(rnd.randrange(3) for _ in range(3)) for _ in range(n1)]; b = [tuple(rnd.randrange(3) for _ in range(3)) for _ in range(n2)]
            out.extend(calls_for(a, b, 3, (2,), True))
    return out


def job_waiting(args):
    """one track waits at the start, the other at the end (the optimal coupling runs along two sides of the lattice, as far
    from its diagonal as a coupling can be), 13 to 17 fixes each, equal and unequal sizes"""
    out = []
    for m1, m2 in ((12, 12), (14, 12), (12, 16), (16, 16)):
        for hi in (1, 3):
            a = [(0,)] * m1 + [(hi,)]
            b = [(0,)] + [(hi,)] * m2
            out.extend(calls_for(a, b, 1, (1, 2, PINF), False))
            a2 = [(0, 0)] * m1 + [(hi, 1)]
            b2 = [(0, 0)] + [(hi, 1)] * m2
            out.extend(calls_for(a2, b2, 2, (2,), False))
    return out


def job_random(args):
    seed, count = args
    rnd = random.Random(seed)
    out = []
    for _ in range(count):
        n1, n2 = rnd.randrange(1, 13), rnd.randrange(1, 13)
        hi = rnd.choice([2, 3, 10])
        brute = n1 <= 5 and n2 <= 5
        if rnd.random() < 0.6:
            a = [(rnd.randrange(hi),) for _ in range(n1)]; b = [(rnd.randrange(hi),) for _ in range(n2)]
            out.extend(calls_for(a, b, 1, (1, 2, PINF), brute))
        else:
            a = [(rnd.randrange(hi), rnd.randrange(hi)) for _ in range(n1)]; b = [(rnd.randrange(hi), rnd.randrange(hi)) for _ in range(n2)]
            out.extend(calls_for(a, b, 2, (2,), brute))
    return out


def call_nn(a, b, dim):
    """match(.., NN): pair lists (1-based) and squared diffs"""
    import tracklib.algo.comparison as cmp
    e = {"ev": "nn", "a": [list(x) for x in a], "b": [list(x) for x in b], "dim": dim, "raised": False, "pairs": [], "diff2": []}
    try:
        with core.quiet():
            m = cmp.match(mk(a, dim), mk(b, dim), mode=cmp.MODE_MATCHING_NN, dim=dim, verbose=False)
        e["pairs"] = [[int(j) + 1 for j in m["pair", i]] for i in range(m.size())]
        d2 = [to_int(m["diff", i] ** 2) for i in range(m.size())]
        e["diff2"] = [-1 if v is None else v for v in d2]
    except (Exception, SystemExit) as ex:
        e["raised"] = True
        e["exc"] = repr(ex)[:80]
    return e


def call_pointwise(a, b, dim, p):
    """compare(.., POINTWISE, p): p in 0, 1, 2, 99 (= infinity); value (p = 2: its square) as a fraction"""
    import tracklib.algo.comparison as cmp
    from fractions import Fraction
    e = {"ev": "pw", "a": [list(x) for x in a], "b": [list(x) for x in b], "dim": dim, "p": p, "raised": False, "lat": True, "val": [0, 1]}
    try:
        with core.quiet():
            v = cmp.compare(mk(a, dim), mk(b, dim), mode=cmp.MODE_COMPARISON_POINTWISE, p=(float("inf") if p == 99 else p), dim=dim, verbose=False)
        v = float(v) ** 2 if p == 2 else float(v)
        f = Fraction(v).limit_denominator(len(a))
        if abs(float(f) - v) > 1e-9 * max(1.0, abs(v)):
            e["lat"] = False
        else:
            e["val"] = [f.numerator, f.denominator]
    except (Exception, SystemExit) as ex:
        e["raised"] = True
        e["exc"] = repr(ex)[:80]
    return e


def job_compare(args):
    seed, count = args
    rnd = random.Random(seed)
    out = []
    for _ in range(count):
        n1, n2 = rnd.randrange(1, 7), rnd.randrange(1, 7)
        if rnd.random() < 0.5:
            a = [(rnd.randrange(4),) for _ in range(n1)]; b = [(rnd.randrange(4),) for _ in range(n2)]; dim = 1
        else:
            a = [(rnd.randrange(3), rnd.randrange(3)) for _ in range(n1)]; b = [(rnd.randrange(3), rnd.randrange(3)) for _ in range(n2)]; dim = 2
        out.append(call_nn(a, b, dim))
        b2 = (b * n1)[:n1]
        for p in ((0, 1, 2, 99) if dim == 1 else (0, 2)):
            out.append(call_pointwise(a, b2, dim, p))
    return out


def run_compare(ctx, quick):
    """growth next to C18: Compare.tla (nearest-neighbour matching, pointwise comparison)"""
    c = ctx.write_cfg("CMP.cfg", "SPECIFICATION Spec\nCONSTANTS\n  MaxLen = 3\n  Coord = {0, 1, 2}\n  Legacy = FALSE\n  Mode = \"mc\"\nINVARIANT NNAccepted\nCHECK_DEADLOCK FALSE\n")
    ctx.tlc_mc("Compare", c, label="nearest-neighbour matching: transcription accepted")
    import multiprocessing as mp
    events = []
    with mp.get_context("fork").Pool(16, initializer=core._pool_init, initargs=(None,)) as pool:
        for r in pool.imap_unordered(job_compare, [(ctx.seed * 79 + k, 40 if quick else 600) for k in range(16)]):
            events.extend(r)
    for k, e in enumerate(events):
        e["id"] = k
    rej = ctx.tlc_trace("CompareTrace", events, chunks=16, label="NN / pointwise trace")
    byid = {e["id"]: e for e in events}
    for i, clause in sorted(rej.items()):
        e = byid[i]
        ctx.growth("compare/%s/%s" % (e["ev"], clause), "%s on track1 %s track2 %s -> %s %s: %s" %
                      ("match(NN)" if e["ev"] == "nn" else "compare(POINTWISE, p=%s)" % e["p"], e["a"], e["b"],
                       e.get("pairs", e.get("val")), e.get("exc", ""), clause), e)
    ctx.extra["nn_and_pointwise_records"] = len(events)


def mc_cfg(maxlen, legacy=False, invs=("BellmanIsOpt", "OptSymmetric", "AlgoAccepted")):
    return ("SPECIFICATION Spec\nCONSTANTS\n  MaxLen = %d\n  Coord = {0, 1, 2}\n  Legacy = %s\n  Mode = \"mc\"\n" % (maxlen, "TRUE" if legacy else "FALSE")
            + "".join("INVARIANT %s\n" % i for i in invs) + "CHECK_DEADLOCK FALSE\n")


def has_tie(e):
    # cheap structural rule: repeated coordinates in either track (equal-cost alternative predecessors exist)
    return len({tuple(x) for x in e["a"]}) < len(e["a"]) or len({tuple(x) for x in e["b"]}) < len(e["b"])


def run(ctx):
    quick = ctx.tier == "quick"
    ctx.rule = ("TLC: Bellman = minimum over all explicitly enumerated couplings, symmetry, transcribed T/M accepted for all pairs "
                "of 1-D tracks of sizes 1..%d over {0,1,2} x p in {1,2,inf}; pinned predecessor encoding refuted. Binding: "
                "match(DTW|FDTW|FRECHET) and compare(FRECHET) on every such pair of sizes <= 3 and a fixed stride of the size-4 "
                "pairs (thorough: all), 2-D / 3-D lattice configurations, random pairs to 12 x 12; each record judged by "
                "AcceptMatching. Non-trivial = distinct (pair, norm, mode) with a repeated point in a track (ties among "
                "predecessors) and both sizes >= 2." % (3 if quick else 4))
    ctx.assumptions += ["integer coordinates; p = 1 / infinity only on configurations with integer pairwise distances; p = 2 on any lattice (costs d^2)",
                        "scores are compared after rounding to the exact integer accumulated cost (relative tolerance 1e-9)",
                        "dim = 1 uses the U component, dim = 2 ignores it"]
    c = ctx.write_cfg("DTW.cfg", mc_cfg(3 if quick else 4))
    ctx.tlc_mc("DTW", c, label="DTW design check", timeout=3000)
    c = ctx.write_cfg("DTWL.cfg", mc_cfg(3, legacy=True, invs=("AlgoAccepted",)))
    ctx.tlc_mc("DTW", c, label="self-test: pinned predecessor encoding refuted", expect_violation="AlgoAccepted")
    import multiprocessing as mp
    jobs = []
    for n1 in range(1, 5):
        for n2 in range(1, 5):
            size = 3 ** (n1 + n2)
            if size <= 729 or not quick:
                parts = 4 if size > 2000 else 1
                for off in range(parts):
                    jobs.append((job_dim1, (n1, n2, parts, off)))
            else:
                stride = 7 if size <= 2187 else 19
                jobs.append((job_dim1, (n1, n2, stride, ctx.seed)))
    for k in range(16):
        jobs.append((job_multi, (ctx.seed * 29 + k, 40 if quick else 600)))
    for k in range(16):
        jobs.append((job_random, (ctx.seed * 37 + k, 25 if quick else 1500)))
    jobs.append((job_waiting, None))
    events = []
    with mp.get_context("fork").Pool(16, initializer=core._pool_init, initargs=(None,)) as pool:
        res = [pool.apply_async(f, (a,)) for f, a in jobs]
        for r in res:
            events.extend(r.get())
    for k, e in enumerate(events):
        e["id"] = k
    rej = ctx.tlc_trace("DTWTrace", events, chunks=16, label="matching trace", timeout=3000)
    byid = {e["id"]: e for e in events}
    for i, clause in sorted(rej.items()):
        e = byid[i]
        if clause.startswith("driver_error"):
            raise core.Machinery("driver produced a non-integer distance configuration: %s" % e)
        ctx.violation("%s/p=%s/%s" % (e["how"], {0: "inf"}.get(e["p"], e["p"]), clause),
                      "%s(track1 %s, track2 %s, p=%s, dim=%d) -> score %s nb_links %s links %s %s: %s" %
                      (e["how"], e["a"], e["b"], {0: "inf"}.get(e["p"], e["p"]), e["dim"], e.get("raw", e["score"]), e["nb"], e["links"], e.get("exc", ""), clause), e)
    for e in events:
        if len(e["a"]) >= 2 and len(e["b"]) >= 2 and has_tie(e):
            ctx.nontriv(repr((e["a"], e["b"], e["p"], e["how"])))
    ctx.evaluations += len(events)
    ctx.extra["records_by_mode"] = {k: sum(1 for e in events if e["how"] == k) for k in sorted({e["how"] for e in events})}
    for e in events:
        if e["ev"] == "match" and len(e["a"]) >= 4 and len(e["b"]) >= 3 and e["id"] not in rej:
            ctx.sample({k: e[k] for k in ("how", "a", "b", "p", "dim", "score", "nb", "links")}, limit=2)
    run_compare(ctx, quick)
