"""C07 - Routing.tla / RoutingTrace.tla bound to Network.shortest_path (code -> spec).

A shortest path is not unique, so only the acceptance predicate AcceptPath decides: the node list runs from source
to target, every hop is an existing edge taken in a permitted direction (identified by its interior vertices in the
returned geometry, oriented along the direction of travel, junction vertices not repeated) and the weights of the
edges used sum to the Bellman-Ford distance; no path iff unreachable.  Exhaustive over all multigraphs with 3 nodes
and <= 3 edges (TLC enumerates them; the driver records every ordered pair), random to 12 nodes / 40 edges."""
import random

import core
from drivers import routing_common as rc
from drivers.c06 import cfg


def record(cases):
    """pool worker: model graphs -> recorded path events (returned through the 'samples' slot)"""
    ev = []
    for c in cases:
        g = [list(e) for e in c["g"]]
        ev.extend(rc.path_events(3, g, 0))
        if (len(g) + sum(e[2] for e in g)) % 4 == 0:
            ev.extend(rc.path_events_edited(3, g, 0))
        if (len(g) + sum(e[2] for e in g)) % 4 == 1:
            ev.extend(rc.path_events_dup(3, g, 0))
    return len(cases), [], set(), ev


def _rand(args):
    seed, count, id0 = args
    rnd = random.Random(seed)
    ev = []
    for _ in range(count):
        n, g = rc.random_graph(rnd)
        ev.extend(rc.path_events(n, g, 0))
        if rnd.random() < 0.3:
            ev.extend(rc.path_events_edited(n, g, 0))
        if rnd.random() < 0.3:
            ev.extend(rc.path_events_dup(n, g, 0))
    return ev


def run(ctx):
    quick = ctx.tier == "quick"
    ctx.rule = ("every ordered pair of distinct nodes of every multigraph with 3 nodes and <= 3 edges (TLC-enumerated, weights "
                "0,1,2, three orientations, self loops, parallel edges; every edge has a 4-vertex geometry) + random graphs to 12 "
                "nodes / 40 edges; each returned path judged by AcceptPath. Non-trivial = reachable pair whose graph has a zero "
                "weight, a reverse-only edge or parallel edges (distinct (graph, pair)).")
    ctx.assumptions += ["edge geometries run from the stored source to the stored target with two interior vertices that identify the edge (in a share of the graphs every third edge records its first interior vertex twice: the pair stands for the vertex)"]
    c = ctx.write_cfg("R_algo.cfg", cfg(3, 2, "algo", False))
    ctx.tlc_mc("Routing", c, label="Dijkstra state machine = Bellman-Ford definition (2 edges)")
    c = ctx.write_cfg("R_table.cfg", cfg(3, 3, "table", True, inv=False))
    path, out = ctx.tlc_emit_file("Routing", c, label="enumerate all <=3-edge multigraphs")
    # collect path events from the pool (samples slot carries them)
    import multiprocessing as mp
    events = []

    def chunks():
        buf = []
        with open(path) as fh:
            for line in fh:
                if line.startswith('"'):
                    buf.append(line)
                    if len(buf) >= 400:
                        yield buf; buf = []
        if buf:
            yield buf
    with mp.get_context("fork").Pool(16, initializer=core._pool_init, initargs=(record,)) as pool:
        for n, _, _, ev in pool.imap_unordered(core._pool_call, chunks()):
            if n == "ERR":
                raise core.Machinery("recording worker failed:\n" + _)
            events.extend(ev)
    per = 10 if quick else 150
    jobs = [(ctx.seed * 100 + k, per, 0) for k in range(32)]
    with mp.get_context("fork").Pool(16, initializer=core._pool_init, initargs=(None,)) as pool:
        for ev in pool.imap_unordered(_rand, jobs):
            events.extend(ev)
    for k, e in enumerate(events):
        e["id"] = k
    for e in events:
        if "exc" in e:
            ctx.violation("path/raised/" + rc.sig_graph(e), "shortest_path(%d,%d) on %s raised %s" % (e["s"], e["t"], e["g"], e["exc"]), e)
    ok_events = [e for e in events if "exc" not in e]
    rej = ctx.tlc_trace("RoutingTrace", ok_events, chunks=16, label="path trace")
    byid = {e["id"]: e for e in ok_events}
    for i, clause in rej.items():
        e = byid[i]
        ctx.violation("path/%s/%s" % (clause, rc.sig_graph(e)),
                      "shortest_path(%d,%d) on graph %s returned nodes %s geometry %s: clause %s" %
                      (e["s"], e["t"], e["g"], e["path"], e["geom"], clause), e)
    for e in ok_events:
        if e["has"] and rc.sig_graph(e) != "plain":
            ctx.nontriv(repr((e["g"], e["s"], e["t"])))
    ctx.evaluations += len(events)
    ctx.exhaustive = True
    for e in ok_events:
        if e["has"] and len(e["path"]) >= 3:
            ctx.sample({k: e[k] for k in ("g", "s", "t", "path", "geom")}, limit=3)
