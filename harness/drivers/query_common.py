"""Query.tla bound to Track.query (spec -> code): every query string printed by the model is run on the real track and the
result compared with the rows / columns / aggregates the specification assigns."""
import math

import core

COLS = {"a": [1.0, 2.0, 2.0, 3.0, 0.0], "b": [0.0, float("nan"), 2.0, -1.0, 2.0], "x": [5.0, 4.0, 3.0, 2.0, 1.0]}


def mk():
    import tk
    tr = tk.mk_track(COLS["x"])
    tr.createAnalyticalFeature("a", list(COLS["a"]))
    tr.createAnalyticalFeature("b", list(COLS["b"]))
    return tr


def val_ok(got, want):
    """want: [n, d] with d = 0 for NaN (n = 0) / Undef (n = 1)"""
    if want[1] == 0:
        if want[0] == 1:
            return True                       # Undef: nothing claimed
        return isinstance(got, float) and math.isnan(got)
    try:
        g = float(got)
    except Exception:
        return False
    return abs(g - want[0] / want[1]) <= 1e-9 * max(1.0, abs(want[0] / want[1]))


def replay(cases):
    viol, nontriv, samples = [], set(), []
    for ci, c in enumerate(cases):
        s, res = c["s"], c["res"]
        undef_all = res["kind"] == "aggs" and all(v[1] == 0 and v[0] == 1 for v in res["vals"])
        try:
            with core.quiet():
                tr = mk()
                out = tr.query(s)
        except (Exception, SystemExit) as ex:
            if not undef_all:
                viol.append(("query/raised", "%r raised %r" % (s, ex), c))
            continue
        bad = None
        rows = res["rows"]
        if res["kind"] == "rows":
            try:
                xs = [out.getObs(k).position.getX() for k in range(out.size())]
                if xs != [COLS["x"][r - 1] for r in rows]:
                    bad = "selected observations %s, specification rows %s" % (xs, rows)
                elif out.size() and [v for v in out["a"]] != [COLS["a"][r - 1] for r in rows]:
                    bad = "feature a of the result %s, specification %s" % (list(out["a"]), [COLS["a"][r - 1] for r in rows])
            except Exception as ex:
                bad = "result is not a track: %r (%r)" % (out, ex)
        elif res["kind"] == "cols":
            if not isinstance(out, list) or len(out) != len(res["cols"]) or any(
                    len(o) != len(w) or not all(val_ok(g, v) for g, v in zip(o, w)) for o, w in zip(out, res["cols"])):
                bad = "returned %r, specification %s" % (out, res["cols"])
        else:
            want = res["vals"]
            if undef_all:
                pass
            elif len(want) == 1:
                if not val_ok(out, want[0]):
                    bad = "returned %r, specification %s" % (out, want[0])
            elif not isinstance(out, list) or len(out) != len(want) or not all(val_ok(g, v) for g, v in zip(out, want)):
                bad = "returned %r, specification %s" % (out, want)
        if bad:
            kind = "where" if " WHERE " in s and (" AND " in s or " OR " in s) else ("agg" if "(" in s else "select")
            viol.append(("query/%s/%s" % (res["kind"], kind), "%r: %s" % (s, bad), c))
        if " AND " in s and " OR " in s or "(b)" in s:
            nontriv.add(s)
        if ci == 0:
            samples.append(c)
    return len(cases), viol, nontriv, samples


def run(ctx, quick):
    tot = 0
    for fam in ("where", "select"):
        cfgt = "SPECIFICATION Spec\nCONSTANTS\n  Mode = \"mc\"\n  Emit = TRUE\n  Family = \"%s\"\nINVARIANT RowsSound\nCHECK_DEADLOCK FALSE\n" % fam
        path, out = ctx.tlc_emit_file("Query", ctx.write_cfg("QY_%s.cfg" % fam, cfgt), label="Track.query: emit %s family" % fam)
        n = ctx.pmap_emitted(path, replay, chunk=300, growth=True)
        if n != out.distinct:
            raise core.Machinery("emitted queries %d != distinct states %d" % (n, out.distinct))
        tot += n
    ctx.extra["queries_replayed"] = tot
