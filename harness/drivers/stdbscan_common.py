"""StDbscan.tla bound to tracklib.algo.segmentation.stdbscan (spec -> code): the final 'stdbscan' and 'noise' columns of
every input enumerated by the model are compared with the columns the real function writes."""
import core
import tk


def replay(cases):
    from tracklib.algo.segmentation import stdbscan
    viol, nontriv, samples = [], set(), []
    for ci, c in enumerate(cases):
        inp = c["inp"]
        what = "stdbscan(pos=%s, af=%s, eps1=%s, eps2=%s, minPts=%s, delta=%s)" % (inp["pos"], inp["af"], inp["eps1"], inp["eps2"], inp["minPts"], inp["delta"])
        try:
            with core.quiet():
                tr = tk.mk_track([float(x) for x in inp["pos"]])
                tr.createAnalyticalFeature("af", [float(v) for v in inp["af"]])
                stdbscan(tr, "af", inp["eps1"], inp["eps2"], inp["minPts"], inp["delta"])
                lab = [int(v) for v in tr.getAnalyticalFeature("stdbscan")]
                noi = [int(v) for v in tr.getAnalyticalFeature("noise")]
                af = [float(v) for v in tr.getAnalyticalFeature("af")]
        except (Exception, SystemExit) as ex:
            viol.append(("stdbscan/raised", "%s raised %r" % (what, ex), c))
            continue
        if lab != list(c["lab"]):
            viol.append(("stdbscan/labels", "%s: labels %s, specification %s" % (what, lab, c["lab"]), c))
        elif noi != list(c["noise"]):
            viol.append(("stdbscan/noise", "%s: noise flags %s, specification %s" % (what, noi, c["noise"]), c))
        elif af != [float(v) for v in inp["af"]]:
            viol.append(("stdbscan/attribute-changed", "%s: attribute column became %s" % (what, af), c))
        if max(c["lab"]) >= 2 or (max(c["lab"]) >= 1 and 1 in c["noise"]):
            nontriv.add("%s|%s" % (inp["pos"], inp["af"]))
        if ci == 0:
            samples.append(c)
    return len(cases), viol, nontriv, samples


CFG = "SPECIFICATION Spec\nCONSTANTS\n  NMax = %d\n  Emit = %s\n%sCHECK_DEADLOCK FALSE\n"


def run(ctx, quick):
    for inv in ("CoreIsClustered", "NoiseExclusive"):
        ctx.tlc_mc("StDbscan", ctx.write_cfg("SDB_%s.cfg" % inv, CFG % (3, "FALSE", "INVARIANT %s\n" % inv)), expect_violation=inv,
                   label="StDbscan self-test: %s refuted (the code is not textbook DBSCAN there)" % inv)
    ctx.tlc_mc("StDbscan", ctx.write_cfg("SDB_live.cfg", CFG % (2, "FALSE", "INVARIANT Inv\nPROPERTY LabelsStay\nPROPERTY Terminates\n")),
               label="StDbscan: termination and label stability (sizes <= 2)")
    nmax = 3 if quick else 4
    path, out = ctx.tlc_emit_file("StDbscan", ctx.write_cfg("SDB.cfg", CFG % (nmax, "TRUE", "INVARIANT Inv\nPROPERTY LabelsStay\n")), timeout=3000,
                                  label="ST-DBSCAN: every input to %d observations, every intermediate state" % nmax)
    n = ctx.pmap_emitted(path, replay, chunk=500, growth=True)
    ctx.extra["stdbscan_inputs_replayed"] = n
