"""C12 - OptPartition.tla / OptPartitionTrace.tla bound to tracklib.algo.segmentation.optimalPartition,
optimalSegmentation and simplification.optimalSimplification (code -> spec).

TLC checks the transcribed interval DP + backtracking against the brute-force optimum over all strictly increasing
lists for every small matrix and both directions (and refutes the pinned mode tests: self-test).  The driver calls the
real functions on every {0,1,2}-valued symmetric matrix for n <= 5, {0,1}-valued for n = 6 and random dyadic
real-valued matrices to n = 12, in both directions; an optimal partition is not unique, so only AcceptPartition
(strictly increasing from the first to the last candidate, cost = optimum) decides."""
import itertools
import random

import core


def call_partition(n, mat, mode, scale=1, junk=0):
    """mat: n x n integer matrix (upper triangle meaningful). The implementation addresses candidates 0..shape-2."""
    import numpy as np
    from tracklib.algo.segmentation import optimalPartition
    C = np.zeros((n + 1, n + 1))
    for i in range(n):
        for j in range(n):
            a, b = min(i, j), max(i, j)
            C[i, j] = mat[a][b] / scale if a != b else 0.0
    if junk:
        C[n, :] = junk
        C[:, n] = junk
    e = {"ev": "optimalPartition", "n": n, "c": mat, "mode": mode, "raised": False, "res": []}
    # the matrix as the caller stores it: float64, or - for small whole costs - a compact integer array in a coarser unit
    # (x 12 000 as int16, x 100 as uint8: a positive factor changes no optimum; sums of two entries exceed the range of the type)
    flat = [mat[i][j] for i in range(n) for j in range(n) if i != j]
    if scale == 1 and not junk and flat and all(isinstance(v, int) and -2 <= v <= 2 for v in flat):
        h_ = (n + sum(flat) + mode) % 3
        if h_ == 1:
            C = (C * 12000).astype(np.int16)
            e["hist"] = "int16 matrix"
        elif h_ == 2 and min(flat) >= 0:
            C = (C * 100).astype(np.uint8)
            e["hist"] = "uint8 matrix"
    pristine = C.copy()
    # history (every other call): the SAME array was partitioned just before in the other direction (both directions on one
    # matrix is ordinary use); the matrix belongs to the caller and must come back unchanged
    again = (n + sum(mat[0]) + mode) % 2 == 0
    try:
        with core.quiet():
            if again:
                e["hist"] = "same array partitioned before in the other direction"
                optimalPartition(C, 1 - mode, verbose=False)
            r = optimalPartition(C, mode, verbose=False)
        if not (C == pristine).all():
            raise ValueError("the caller's cost matrix was modified")
        e["res"] = [int(v) for v in r]
    except (Exception, SystemExit) as ex:
        e["raised"] = True
        e["exc"] = repr(ex)[:80]
    return e


def call_segmentation(n, mat, mode, scale=1, glob=False):
    from tracklib.algo.segmentation import optimalSegmentation
    import tk
    tr = tk.mk_track(list(range(n + 1)))
    e = {"ev": "optimalSegmentation", "n": n, "c": mat, "mode": mode, "raised": False, "res": []}

    # glob: False -> no global parameter, three-argument cost; otherwise a REQUIRED fourth argument whose value is handed over
    # (0 and 0.0 are legal values - a penalty or a tolerance of zero - like 7)
    gval = [7, 0, 0.0][(n + sum(mat[0]) + mode) % 3] if glob else None
    # history (every other call with a global parameter): the same track object was segmented before with the same cost
    # function and ANOTHER value of the global parameter, for which the function returns other costs (a penalty, a tolerance)
    again = glob and (n + sum(mat[0]) + sum(mat[-1])) % 2 == 0
    if again:
        e["hist"] = "same track and cost function, another global parameter before"
    if glob:
        def cost(track, i, j, g):
            if again and g == "decoy":
                return mat[n - 1 - max(i, j + 1)][n - 1 - min(i, j + 1)] / scale + (j + 1 - i) % 2
            if g != gval or type(g) is not type(gval):
                raise ValueError("global parameter %r handed over as %r" % (gval, g))
            return mat[min(i, j + 1)][max(i, j + 1)] / scale
    else:
        def cost(track, i, j):
            return mat[min(i, j + 1)][max(i, j + 1)] / scale
    try:
        with core.quiet():
            if again:
                optimalSegmentation(tr, cost, glob_param="decoy", mode=mode, verbose=False)
            r = optimalSegmentation(tr, cost, glob_param=gval, mode=mode, verbose=False)
        e["res"] = [int(v) for v in r]
    except (Exception, SystemExit) as ex:
        e["raised"] = True
        e["exc"] = repr(ex)[:80]
    return e


def call_simplification(n, mat, scale=1):
    """optimalSimplification(track, cost, eps): documented as minimising the cost; result = kept observations"""
    from tracklib.algo.simplification import optimalSimplification
    import tk
    tr = tk.mk_track(list(range(n + 1)))
    e = {"ev": "optimalSimplification", "n": n, "c": mat, "mode": 0, "raised": False, "res": []}

    again = (n + sum(mat[0])) % 2 == 0        # history: the same track simplified before with another tolerance (other costs)

    def cost(track, i, j, eps):
        if eps == 4:
            return mat[n - 1 - max(i, j + 1)][n - 1 - min(i, j + 1)] / scale + (j + 1 - i) % 2
        return mat[min(i, j + 1)][max(i, j + 1)] / scale
    try:
        with core.quiet():
            if again:
                optimalSimplification(tr, cost, 4)
            out = optimalSimplification(tr, cost, 3)
        e["res"] = [int(round(out.getObs(k).position.getX())) for k in range(out.size())]
    except (Exception, SystemExit) as ex:
        e["raised"] = True
        e["exc"] = repr(ex)[:80]
    return e


def sym(n, vals):
    pairs = [(i, j) for i in range(n) for j in range(i + 1, n)]
    mat = [[0] * n for _ in range(n)]
    for (i, j), v in zip(pairs, vals):
        mat[i][j] = v
        mat[j][i] = v
    return mat


def job_family(args):
    n, vals, first, stride = args
    npairs = n * (n - 1) // 2
    out = []
    for idx, rest in enumerate(itertools.product(vals, repeat=npairs - 1)):
        if idx % stride:
            continue
        mat = sym(n, (first,) + rest)
        for mode in (0, 1):
            out.append(call_partition(n, mat, mode, junk=(0 if idx % 2 else 99)))
            if idx % 5 == 0:
                out.append(call_segmentation(n, mat, mode, glob=idx % 10 == 0))
        if idx % 7 == 0:
            out.append(call_simplification(n, mat))
    return out


def job_random(args):
    seed, count = args
    rnd = random.Random(seed)
    out = []
    for _ in range(count):
        n = rnd.randrange(2, 13)
        hi = rnd.choice([3, 16, 4096])
        npairs = n * (n - 1) // 2
        if rnd.random() < 0.25:
            # large magnitudes with small differences (durations in ms, squared distances ...): entries (j - i) * 10^8 + 0..9;
            # every sum stays an exact double (and below 2^31 for the model), so the comparison between partitions is exact
            n = rnd.randrange(3, 9)
            pairs_ = [(i, j) for i in range(n) for j in range(i + 1, n)]
            mat = sym(n, [(j - i) * 100000000 + rnd.randrange(0, 10) for (i, j) in pairs_])
            for mode in (0, 1):
                out.append(call_partition(n, mat, mode, scale=1, junk=0))
                out.append(call_segmentation(n, mat, mode, scale=1, glob=False))
            continue
        if rnd.random() < 0.2:
            # tiny magnitudes (squared angles, costs in small units): small integers times 2^-50 (exact), so that every
            # difference between partitions is far below 1e-12 and still exact
            n = rnd.randrange(3, 9)
            mat = sym(n, [rnd.randrange(0, 17) for _ in range(n * (n - 1) // 2)])
            for mode in (0, 1):
                out.append(call_partition(n, mat, mode, scale=2 ** 50, junk=0))
                out.append(call_segmentation(n, mat, mode, scale=2 ** 50, glob=False))
            continue
        lo = rnd.choice([0, 0, -hi])            # costs AND rewards: signed entries, exact zeros included
        mat = sym(n, [rnd.randrange(lo, hi + 1) for _ in range(npairs)])
        for mode in (0, 1):
            out.append(call_partition(n, mat, mode, scale=1024, junk=rnd.choice([0, 0, 5, -5])))
            out.append(call_segmentation(n, mat, mode, scale=1024, glob=rnd.random() < 0.5))
        out.append(call_simplification(n, mat, scale=1024))
    return out


def mc_cfg(n, vals, legacy=False, shift=0):
    return ("SPECIFICATION Spec\nCONSTANTS\n  N = %d\n  Vals = {%s}\n  Shift = %d\n  Legacy = %s\n  Mode = \"mc\"\nINVARIANT AlgoOptimal\n"
            "CHECK_DEADLOCK FALSE\n" % (n, ", ".join(map(str, vals)), shift, "TRUE" if legacy else "FALSE"))


def run(ctx):
    quick = ctx.tier == "quick"
    ctx.rule = ("TLC: transcribed DP + backtracking = brute-force optimum for every {0,1,2} matrix with n <= 5 (thorough: {0,1} "
                "for n = 6), both directions; pinned mode tests refuted. Binding: optimalPartition on every such matrix x both "
                "directions (quick: n = 6 strided), optimalSegmentation / optimalSimplification on a fixed subsample, and random "
                "dyadic real-valued matrices to n = 12; each returned list judged by AcceptPartition against the enumeration of "
                "all 2^(n-2) lists. Non-trivial = distinct (matrix, direction) with n >= 4 whose entries are not all equal.")
    ctx.assumptions += ["a matrix of shape (n+1) x (n+1) addresses candidates 0..n-1 (last row/column is padding, as produced by optimalSegmentation)",
                        "real-valued costs are dyadic (k/1024, signed) so that float sums are exact and ties are real ties",
                        "n >= 2"]
    for n in (2, 3, 4, 5):
        c = ctx.write_cfg("OP%d.cfg" % n, mc_cfg(n, [0, 1, 2]))
        ctx.tlc_mc("OptPartition", c, label="DP = brute force, n=%d over {0,1,2}" % n)
    if not quick:
        c = ctx.write_cfg("OP6.cfg", mc_cfg(6, [0, 1]))
        ctx.tlc_mc("OptPartition", c, label="DP = brute force, n=6 over {0,1}")
        c = ctx.write_cfg("OP7.cfg", mc_cfg(7, [0, 1]))
        ctx.tlc_mc("OptPartition", c, label="DP = brute force, n=7 over {0,1}", timeout=3000)
    for n in (3, 4) if quick else (3, 4, 5):        # signed entries {-1, 0, 1}: costs and rewards mixed, exact zeros
        ctx.tlc_mc("OptPartition", ctx.write_cfg("OPs%d.cfg" % n, mc_cfg(n, [0, 1, 2], shift=1)), label="DP = brute force, n=%d over {-1,0,1}" % n)
    c = ctx.write_cfg("OPL.cfg", mc_cfg(4, [0, 1, 2], legacy=True))
    ctx.tlc_mc("OptPartition", c, label="self-test: pinned mode tests refuted", expect_violation="AlgoOptimal")

    import multiprocessing as mp
    jobs = []
    for n in (2, 3, 4, 5):
        for first in (0, 1, 2):
            jobs.append((job_family, (n, [0, 1, 2], first, 1)))
    for n in (3, 4, 5):                               # signed families (every matrix over {-1,0,1}; n = 5 strided in the quick tier)
        for first in (-1, 0, 1):
            jobs.append((job_family, (n, [-1, 0, 1], first, (7 if quick else 1) if n == 5 else 1)))
    for first in (0, 1):
        jobs.append((job_family, (6, [0, 1], first, 5 if quick else 1)))
    per = 30 if quick else 1000
    for k in range(32):
        jobs.append((job_random, (ctx.seed * 19 + k, per)))
    events = []
    with mp.get_context("fork").Pool(16, initializer=core._pool_init, initargs=(None,)) as pool:
        res = [pool.apply_async(f, (a,)) for f, a in jobs]
        for r in res:
            events.extend(r.get())
    for k, e in enumerate(events):
        e["id"] = k
    rej = ctx.tlc_trace("OptPartitionTrace", events, chunks=16, label="partition trace", timeout=3000)
    byid = {e["id"]: e for e in events}
    for i, clause in sorted(rej.items()):
        e = byid[i]
        ctx.violation("%s/%s/%s" % (e["ev"], "min" if e["mode"] == 0 else "max", clause),
                      "%s(n=%d, matrix %s, mode=%s) -> %s %s: %s" % (e["ev"], e["n"], e["c"], e["mode"], e["res"], e.get("exc", ""), clause), e)
    for e in events:
        if e["n"] >= 4 and len({e["c"][i][j] for i in range(e["n"]) for j in range(i + 1, e["n"])}) > 1:
            ctx.nontriv(repr((e["c"], e["mode"])))
    ctx.evaluations += len(events)
    ctx.extra["records_by_call"] = {k: sum(1 for e in events if e["ev"] == k) for k in sorted({e["ev"] for e in events})}
    for e in events:
        if e["n"] >= 6 and len(e["res"]) > 3 and e["id"] not in rej:
            ctx.sample({k: e[k] for k in ("ev", "n", "c", "mode", "res")}, limit=2)
