"""C08 - GridIndex.tla / GridIndexTrace.tla bound to tracklib.core.spatial_index.SpatialIndex (code -> spec).

TLC checks on the model that the transcribed cell enumeration covers the exact 'segment has a point in the half-open
cell' definition and that the unit conversion yields a covering window.  The driver builds real indices (explicit
square / non-square resolutions, default resolution, margin 0 and > 0, vertices and queries on cell borders, corners
and the outer border), records the registered grid, point / segment / track / neighbourhood queries, and TLC judges
every record with the no-omission predicates.  Coordinates are integers and cell sizes powers of two, so every
quantity the implementation computes is exact in floating point."""
import itertools
import random

import core


def make_index(feats, ox, oy, res, margin):
    from tracklib.core.track import Track
    from tracklib.core.obs import Obs
    from tracklib.core.obs_coords import ENUCoords
    from tracklib.core.track_collection import TrackCollection
    from tracklib.core.spatial_index import SpatialIndex
    tracks = []
    for poly in feats:
        tracks.append(Track([Obs(ENUCoords(float(ox + p[0]), float(oy + p[1]), 0.0)) for p in poly]))
    coll = TrackCollection(tracks)
    return SpatialIndex(coll, resolution=res, margin=margin, verbose=False)


def record_index(cfgd, feats, queries, id0, with_reg=True):
    """cfgd: dict cs ls cx cy m (margin cells) ; feats in model coordinates (relative to the index origin)"""
    from tracklib.core.obs_coords import ENUCoords
    from tracklib.core.track import Track
    from tracklib.core.obs import Obs
    cs, ls, cx, cy = cfgd["cs"], cfgd["ls"], cfgd["cx"], cfgd["cy"]
    ox, oy = cfgd.get("ox", 1000), cfgd.get("oy", -500)
    ev = []
    base = {"cs": cs, "ls": ls, "cx": cx, "cy": cy}
    try:
        with core.quiet():
            idx = make_index(feats, ox, oy, cfgd["res"], cfgd["margin"])
    except (Exception, SystemExit) as ex:
        ev.append(dict(base, id=id0, ev="build", feats=feats, exc=repr(ex)[:200]))
        return ev
    if (idx.csize, idx.lsize) != (cs, ls) or abs(idx.dX - cx) > 1e-12 or abs(idx.dY - cy) > 1e-12 \
            or abs(idx.xmin - ox) > 1e-9 or abs(idx.ymin - oy) > 1e-9:
        raise core.Machinery("index geometry differs from the intended lattice: %s vs %s" %
                             ((idx.csize, idx.lsize, idx.dX, idx.dY, idx.xmin, idx.ymin), (cs, ls, cx, cy, ox, oy)))
    reg = [[i, j, sorted(idx.grid[i][j])] for i in range(cs) for j in range(ls) if idx.grid[i][j]]
    if with_reg:
        ev.append(dict(base, id=id0 + len(ev), ev="reg", feats=feats, reg=reg))
    for q in queries:
        kind = q[0]
        e = dict(base, id=id0 + len(ev), feats=feats, raised=False, res=[])
        try:
            with core.quiet():
                if kind == "point":
                    e.update(ev="point", q=list(q[1]))
                    r = idx.request(ENUCoords(float(ox + q[1][0]), float(oy + q[1][1]), 0.0))
                elif kind == "seg":
                    e.update(ev="poly", q=[list(q[1]), list(q[2])], reg=reg)
                    e.pop("feats")
                    r = idx.request([ENUCoords(float(ox + q[1][0]), float(oy + q[1][1])), ENUCoords(float(ox + q[2][0]), float(oy + q[2][1]))])
                elif kind == "track":
                    e.update(ev="poly", q=[list(p) for p in q[1]], reg=reg)
                    e.pop("feats")
                    r = idx.request(Track([Obs(ENUCoords(float(ox + p[0]), float(oy + p[1]), 0.0)) for p in q[1]]))
                elif kind == "nbr":
                    e.update(ev="nbr", q=list(q[1]), d=q[2])
                    u = idx.groundDistanceToUnits(q[2])
                    e["u"] = int(u)
                    r = idx.neighborhood(ENUCoords(float(ox + q[1][0]), float(oy + q[1][1]), 0.0), unit=u)
            e["res"] = sorted(set(int(x) for x in r))
        except (Exception, SystemExit) as ex:
            e["raised"] = True
            e["exc"] = repr(ex)[:120]
        ev.append(e)
    # history: on a second, identical index object a nearest-candidates search (unit = -1; not judged - the property does
    # not constrain it) is made from every query point FIRST; the fixed-radius neighbourhoods that follow must be the same
    nbrs = [q for q in queries if q[0] == "nbr"]
    if nbrs:
        with core.quiet():
            idx2 = make_index(feats, ox, oy, cfgd["res"], cfgd["margin"])
            for q in nbrs[::2]:
                try:
                    idx2.neighborhood(ENUCoords(float(ox + q[1][0]), float(oy + q[1][1]), 0.0), unit=-1)
                except (Exception, SystemExit):
                    pass
        for q in nbrs:
            e = dict(base, id=id0 + len(ev), feats=feats, raised=False, res=[], ev="nbr", q=list(q[1]), d=q[2], hist="after unit=-1 searches")
            try:
                with core.quiet():
                    u = idx2.groundDistanceToUnits(q[2])
                    e["u"] = int(u)
                    r = idx2.neighborhood(ENUCoords(float(ox + q[1][0]), float(oy + q[1][1]), 0.0), unit=u)
                e["res"] = sorted(set(int(x) for x in r))
            except (Exception, SystemExit) as ex:
                e["raised"] = True
                e["exc"] = repr(ex)[:120]
            ev.append(e)
    return ev


def record_decimal(n, feats, id0, unit=0.1):
    """grid of n x n cells of size `unit' (not a binary fraction); model coordinates are integers, real ones model * unit;
    one point query at every vertex of every feature"""
    from tracklib.core.obs_coords import ENUCoords
    ev = []
    base = {"cs": n, "ls": n, "cx": 1, "cy": 1}
    real = [[(p[0] * unit, p[1] * unit) for p in f] for f in feats]
    try:
        with core.quiet():
            idx = make_index(real, 0, 0, (unit, unit), 0.0)
    except (Exception, SystemExit) as ex:
        return [dict(base, id=id0, ev="build", feats=feats, exc=repr(ex)[:200])]
    for f in feats:
        for v in f:
            e = dict(base, id=id0 + len(ev), feats=feats, raised=False, res=[], ev="pointv", q=list(v), unit=unit)
            try:
                with core.quiet():
                    r = idx.request(ENUCoords(v[0] * unit, v[1] * unit, 0.0))
                e["res"] = sorted(set(int(x) for x in r))
            except (Exception, SystemExit) as ex:
                e["raised"] = True
                e["exc"] = repr(ex)[:120]
            ev.append(e)
    return ev


def job_decimal(args):
    n, count, id0, seed = args
    rnd = random.Random(seed)
    out = []
    for _ in range(count):
        feats = [[[0, 0], [0, 0]], [[n, n], [n, n]]]
        for _f in range(rnd.randrange(2, 6)):
            a = [rnd.randrange(0, n + 1), rnd.randrange(0, n + 1)]
            if rnd.random() < 0.5:
                b = [min(n, a[0] + rnd.randrange(0, 3)), a[1]]       # to the right of a grid line / along it
            else:
                b = [a[0], min(n, a[1] + rnd.randrange(0, 3))]
            feats.append([a, b] if rnd.random() < 0.5 else [b, a])
        out.extend(record_decimal(n, feats, id0 + len(out), unit=rnd.choice([0.1, 0.3, 0.7])))
    return out


def lattice(cfgd, inner=False):
    W, H = cfgd["cs"] * cfgd["cx"], cfgd["ls"] * cfgd["cy"]
    mx, my = cfgd.get("mx", 0), cfgd.get("my", 0)
    if inner:
        return [(x, y) for x in range(mx, W - mx + 1) for y in range(my, H - my + 1)]
    return [(x, y) for x in range(W + 1) for y in range(H + 1)]


def mkcfg(cs, ls, cx, cy, margin=0.0):
    W, H = cs * cx, ls * cy
    mx = my = 0
    if margin:
        # inner box w = W / (1 + 2 margin) must be an integer lattice box
        mx = int(round(W * margin / (1 + 2 * margin)))
        my = int(round(H * margin / (1 + 2 * margin)))
    return {"cs": cs, "ls": ls, "cx": cx, "cy": cy, "margin": margin, "mx": mx, "my": my, "res": (cx, cy)}


def anchors(cfgd):
    W, H = cfgd["cs"] * cfgd["cx"], cfgd["ls"] * cfgd["cy"]
    mx, my = cfgd["mx"], cfgd["my"]
    return [[[mx, my], [mx, my]], [[W - mx, H - my], [W - mx, H - my]]]


def job_exhaustive(args):
    cfgd, segs, id0, seed = args
    rnd = random.Random(seed)
    pts = lattice(cfgd)
    W, H = cfgd["cs"] * cfgd["cx"], cfgd["ls"] * cfgd["cy"]
    out = []
    for (a, b) in segs:
        feats = anchors(cfgd) + [[list(a), list(b)]]
        qs = [("point", p) for p in pts]
        qs += [("nbr", rnd.choice(pts), d) for d in range(0, max(W, H) + 1)]
        qs += [("seg", rnd.choice(pts), rnd.choice(pts)) for _ in range(3)]
        out.extend(record_index(cfgd, feats, qs, id0 + len(out)))
    return out


def job_random(args):
    cfgd, count, id0, seed = args
    rnd = random.Random(seed)
    pts = lattice(cfgd)
    inner = lattice(cfgd, inner=True)
    W, H = cfgd["cs"] * cfgd["cx"], cfgd["ls"] * cfgd["cy"]
    out = []
    for _ in range(count):
        feats = anchors(cfgd)
        for _f in range(rnd.randrange(1, 5)):
            k = rnd.randrange(2, 5)
            feats.append([list(rnd.choice(inner)) for _ in range(k)])
        qs = [("point", rnd.choice(pts)) for _ in range(12)]
        qs += [("point", p) for p in [(0, 0), (W, H), (W, 0), (0, H)]]
        qs += [("nbr", rnd.choice(pts), rnd.randrange(0, max(W, H) + 1)) for _ in range(10)]
        # small radii around the features' own vertices: what must be found sits in the query point's own cell
        qs += [("nbr", tuple(v), d) for f in feats[2:] for v in f for d in (0, 1)]
        qs += [("seg", rnd.choice(pts), rnd.choice(pts)) for _ in range(6)]
        qs += [("track", [rnd.choice(pts) for _ in range(rnd.randrange(2, 5))]) for _ in range(3)]
        big = cfgd["cs"] * cfgd["ls"] > 400
        if big:
            qs = [q for q in qs if q[0] in ("point", "nbr")]
        out.extend(record_index(cfgd, feats, qs, id0 + len(out), with_reg=not big))
    return out


def mc_cfg(cs, ls, cx, cy):
    return """SPECIFICATION Spec
CONSTANTS
  CS = %d
  LS = %d
  CX = %d
  CY = %d
  Step = 1
  Mode = "mc"
INVARIANT EnumComplete
INVARIANT EndsCovered
INVARIANT WindowComplete
CHECK_DEADLOCK FALSE
""" % (cs, ls, cx, cy)


def sig(e, clause):
    on_border = False
    W, H = e["cs"] * e["cx"], e["ls"] * e["cy"]
    pts = []
    if "q" in e:
        pts += e["q"] if isinstance(e["q"][0], list) else [e["q"]]
    for f in e.get("feats", []):
        pts += f
    if any(p[0] == W or p[1] == H for p in pts):
        on_border = True
    return "%s/%s%s" % (e["ev"], clause, "/outer-border" if on_border else "")


def run(ctx):
    quick = ctx.tier == "quick"
    ctx.rule = ("TLC: transcribed cell enumeration >= exact crossing definition and covering window, for every lattice segment "
                "of 3 grid shapes. Binding: every single-segment feature on two small grids (all lattice end points, borders and "
                "corners included) x point queries at every lattice point + neighbourhood for every distance + segment queries; "
                "random multi-feature indices on 9 grid shapes (square, non-square, margin 0 / 0.25, default resolution); each "
                "recorded call judged by GridIndexTrace. Non-trivial = records whose query point or a feature vertex lies on a "
                "cell border (distinct records).")
    ctx.assumptions += ["integer coordinates and power-of-two cell sizes (exact floating point in the implementation)",
                        "all features and queries inside the index extent"]
    for shape in ([(3, 2, 2, 4), (2, 3, 4, 2)] if quick else [(3, 2, 2, 4), (2, 3, 4, 2), (3, 3, 2, 2), (4, 3, 1, 2)]):
        c = ctx.write_cfg("GI_%d%d%d%d.cfg" % shape, mc_cfg(*shape))
        ctx.tlc_mc("GridIndex", c, label="GridIndex design check on %dx%d cells of %dx%d" % shape)
    import multiprocessing as mp
    jobs = []
    idn = 0
    ex_shapes = [mkcfg(2, 2, 2, 2), mkcfg(2, 1, 2, 4)] if quick else [mkcfg(2, 2, 2, 2), mkcfg(2, 1, 2, 4), mkcfg(3, 2, 2, 4), mkcfg(2, 3, 4, 2)]
    for cfgd in ex_shapes:
        pts = lattice(cfgd)
        segs = [(a, b) for a in pts for b in pts if a <= b]
        if len(segs) > 1500 and quick:
            segs = segs[::3]
        for k in range(0, len(segs), 40):
            jobs.append(("ex", (cfgd, segs[k:k + 40], idn, ctx.seed + idn)))
            idn += 1000000
    rshapes = [mkcfg(3, 3, 2, 2), mkcfg(3, 2, 2, 4), mkcfg(2, 3, 4, 2), mkcfg(4, 4, 1, 1), mkcfg(4, 2, 1, 2),
               mkcfg(3, 3, 2, 2, 0.25), mkcfg(3, 6, 4, 1, 0.25), mkcfg(6, 3, 1, 2, 0.25)]
    dflt = {"cs": 100, "ls": 50, "cx": 1, "cy": 1, "margin": 0.0, "mx": 0, "my": 0, "res": None}
    per = 6 if quick else 250
    for cfgd in rshapes:
        for r in range(4):
            jobs.append(("rnd", (cfgd, per, idn, ctx.seed * 7 + idn)))
            idn += 1000000
    jobs.append(("rnd", (dflt, 3 if quick else 30, idn, ctx.seed * 11)))
    for r in range(4):                    # grids whose cell size is not a binary fraction: vertex queries only
        idn += 1000000
        jobs.append(("dec", (10, 15 if quick else 200, idn, ctx.seed * 13 + r)))
    events = []
    with mp.get_context("fork").Pool(16, initializer=core._pool_init, initargs=(None,)) as pool:
        res = [pool.apply_async({"ex": job_exhaustive, "rnd": job_random, "dec": job_decimal}[k], (a,)) for k, a in jobs]
        for r in res:
            events.extend(r.get())
    for k, e in enumerate(events):
        e["id"] = k
    for e in events:
        if e["ev"] == "build":
            ctx.violation("build/raised", "building the index over %s raised %s" % (e["feats"], e["exc"]), e)
    evs = [e for e in events if e["ev"] != "build"]
    rej = ctx.tlc_trace("GridIndexTrace", evs, chunks=16, label="spatial index trace")
    byid = {e["id"]: e for e in evs}
    for i, clause in rej.items():
        e = byid[i]
        ctx.violation(sig(e, clause), "grid %dx%d cells %dx%d: %s query %s -> %s (features %s): %s %s" %
                      (e["cs"], e["ls"], e["cx"], e["cy"], e["ev"], e.get("q"), e.get("res"), e.get("feats"), clause, e.get("exc", "")), e)
    for e in evs:
        q = e.get("q")
        pts = (q if q and isinstance(q[0], list) else [q]) if q else []
        if any(p[0] % e["cx"] == 0 or p[1] % e["cy"] == 0 for p in pts):
            ctx.nontriv(e["id"])
    ctx.evaluations += len(events)
    ctx.extra["indices_built"] = sum(1 for e in events if e["ev"] in ("reg", "build"))
    for e in evs:
        if e["ev"] == "nbr" and e["res"]:
            ctx.sample({k: v for k, v in e.items() if k != "id"}, limit=2)
            break
    for e in evs:
        if e["ev"] == "point" and len(e["feats"]) > 3:
            ctx.sample({k: v for k, v in e.items() if k != "id"}, limit=3)
            break
