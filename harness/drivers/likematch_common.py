"""LikeMatch.tla bound to tracklib.core.utils.compLike and to Track.query's LIKE (spec -> code): every (string, pattern)
pair printed by the model is handed to compLike; the verdict must be the specification's."""
import core


def replay(cases):
    from tracklib.core.utils import compLike
    viol, nontriv, samples = [], set(), []
    for ci, c in enumerate(cases):
        s, p = "".join(c["s"]), "".join(c["p"])
        try:
            with core.quiet():
                got = bool(compLike(s, p))
        except (Exception, SystemExit) as ex:
            viol.append(("like/raised", "compLike(%r, %r) raised %r" % (s, p, ex), c))
            continue
        if got != bool(c["like"]):
            viol.append(("like/verdict/%s" % ("wildcard" if "%" in p else "plain"), "compLike(%r, %r) = %r, specification %r" % (s, p, got, c["like"]), c))
        if "%" in p and len(p) >= 3:
            nontriv.add("wild")
        if ci == 0:
            samples.append(c)
    return len(cases), viol, nontriv, samples


CFG = "SPECIFICATION Spec\nCONSTANTS\n  Emit = %s\n  MaxS = %d\n  MaxP = %d\nINVARIANT %s\nCHECK_DEADLOCK FALSE\n"


def run(ctx, quick):
    for inv in ("NoWildcardMeansEqual", "Anchored"):
        ctx.tlc_mc("LikeMatch", ctx.write_cfg("LM_%s.cfg" % inv, CFG % ("FALSE", 3, 3, inv)), expect_violation=inv,
                   label="LikeMatch self-test: %s refuted (compLike is not SQL's LIKE)" % inv)
    ms, mp_ = (4, 4) if quick else (5, 5)
    path, out = ctx.tlc_emit_file("LikeMatch", ctx.write_cfg("LM.cfg", CFG % ("TRUE", ms, mp_, "Inv")), label="LIKE patterns to %d characters on strings to %d" % (mp_, ms))
    n = ctx.pmap_emitted(path, replay, chunk=500, growth=True)
    if n != out.distinct:
        raise core.Machinery("LikeMatch: emitted states %d != distinct states %d" % (n, out.distinct))
    ctx.extra["like_pairs_replayed"] = n
