"""Binding of PrioDict.tla to tracklib.core.utils.priority_dict: direct API histories and histories recorded through
runtime wrappers (harness-side, guard TRACKLIB_VERIF_TRACE) while the real routing runs."""
import os
import random

import core

_LOGS = {}
_DONE = []          # histories of instances whose id() was re-used by a newer instance
_INSTALLED = False


def _key(k):
    return int(k.id) if hasattr(k, "id") else int(k)


def _val(v):
    return int(v) if float(v) == int(v) else None


def _heap_proj(pd):
    """the abstract heap: the (priority, key) pairs held, whatever else an entry carries (e.g. a tie-breaking sequence number)"""
    out = []
    for e in getattr(pd, "_heap", []):
        v, k = e[0], e[-1]
        out.append([_val(v), _key(k)])
    return out


def _snap(pd):
    items = [[_key(k), _val(v)] for k, v in dict.items(pd)]
    return items, _heap_proj(pd)


def install_wrappers():
    """add-only wrappers on the class, in this process only"""
    global _INSTALLED
    if _INSTALLED or os.environ.get("TRACKLIB_VERIF_TRACE") != "1":
        return
    from tracklib.core.utils import priority_dict
    orig_init, orig_set, orig_pop = priority_dict.__init__, priority_dict.__setitem__, priority_dict.pop_smallest

    def init(self, *a, **kw):
        orig_init(self, *a, **kw)
        if _LOGS.get(id(self)):
            _DONE.append(_LOGS[id(self)])
        steps = _LOGS[id(self)] = []
        items, heap = _snap(self)
        if len(items) == 1:
            steps.append({"op": "update", "k": items[0][0], "v": items[0][1], "res": -1, "raised": False, "d": items, "heap": heap})
        elif items:
            steps.append({"op": "unsupported", "k": 0, "v": 0, "res": -1, "raised": False, "d": items, "heap": heap})

    def setitem(self, k, v):
        try:
            orig_set(self, k, v)
        finally:
            if id(self) in _LOGS:
                items, heap = _snap(self)
                _LOGS[id(self)].append({"op": "set", "k": _key(k), "v": _val(v), "res": -1, "raised": False, "d": items, "heap": heap})

    def pop(self):
        raised, res = False, -1
        try:
            r = orig_pop(self)
            res = _key(r)
            return r
        except IndexError:
            raised = True
            raise
        finally:
            if id(self) in _LOGS:
                items, heap = _snap(self)
                _LOGS[id(self)].append({"op": "pop", "k": 0, "v": 0, "res": res, "raised": raised, "d": items, "heap": heap})
    priority_dict.__init__ = init
    priority_dict.__setitem__ = setitem
    priority_dict.pop_smallest = pop
    _INSTALLED = True


def take_logs():
    out = [v for v in _LOGS.values() if v] + _DONE[:]
    _LOGS.clear()
    del _DONE[:]
    return out


def routing_histories(seed, count):
    """run the real Dijkstra on random graphs with the wrappers installed; one history per priority_dict instance"""
    from drivers import routing_common as rc
    install_wrappers()
    rnd = random.Random(seed)
    out = []
    for _ in range(count):
        n, g = rc.random_graph(rnd, nmax=7, emax=14)
        with core.quiet():
            net = rc.build_network(n, g)
            take_logs()
            net.shortest_distance(rnd.randrange(n), rnd.randrange(n))
            net.shortest_distance(rnd.randrange(n))
        for steps in take_logs():
            if all(s["v"] is not None for s in steps):
                out.append({"src": "routing", "steps": steps})
    return out


def direct_histories(seed, count):
    from tracklib.core.utils import priority_dict
    rnd = random.Random(seed)
    out = []
    for hno in range(count):
        pd = priority_dict()
        steps = []
        # every other history is a "decrease-key storm" (what Dijkstra does on parallel edges of decreasing weight): a few
        # keys whose priorities keep going down, so that stale entries outnumber live ones, interleaved with pops
        storm = hno % 2 == 1
        nk = rnd.randrange(3, 7)
        for _s in range(rnd.randrange(8, 45) if storm else rnd.randrange(1, 25)):
            op = rnd.choice(["set", "set", "set", "pop", "pop", "smallest", "del", "setdefault", "update"])
            k, v = rnd.randrange(0, 6), rnd.randrange(0, 4)
            if storm:
                op = "set" if (_s < nk or rnd.random() < 0.8) else rnd.choice(["pop", "smallest"])
                k = _s if _s < nk else rnd.randrange(nk)
                v = rnd.randrange(5, 30) if k not in pd else max(0, int(pd[k]) - rnd.randrange(0, 4))
            e = {"op": op, "k": k, "v": v, "res": -1, "raised": False}
            try:
                if op == "set":
                    pd[k] = v
                elif op == "pop":
                    e["res"] = int(pd.pop_smallest())
                elif op == "smallest":
                    e["res"] = int(pd.smallest())
                elif op == "del":
                    if k not in pd:
                        continue
                    del pd[k]
                elif op == "setdefault":
                    pd.setdefault(k, v)
                else:
                    pd.update({k: v})
            except IndexError:
                e["raised"] = True
            e["d"] = [[int(a), int(b)] for a, b in dict.items(pd)]
            e["heap"] = _heap_proj(pd)
            steps.append(e)
        out.append({"src": "direct", "steps": steps})
    return out


def job(args):
    kind, seed, count = args
    return routing_histories(seed, count) if kind == "routing" else direct_histories(seed, count)


def run(ctx, quick):
    """model check PrioDict and validate recorded histories; returns the number of histories"""
    c = ctx.write_cfg("PD.cfg", "SPECIFICATION Spec\nCONSTANTS\n  Keys = {1, 2, 3}\n  Prios = {1, 2}\n  MaxSteps = %d\n  Mode = \"mc\"\n"
                      "INVARIANT HeapCovers\nINVARIANT HeapBounded\nPROPERTY PopIsMin\nCHECK_DEADLOCK FALSE\n" % (6 if quick else 8))
    ctx.tlc_mc("PrioDict", c, label="priority queue: heap covers live pairs, pop returns a minimum")
    import multiprocessing as mp
    jobs = [("routing", ctx.seed * 71 + k, 15 if quick else 200) for k in range(8)] + [("direct", ctx.seed * 73 + k, 60 if quick else 1000) for k in range(8)]
    cases = []
    with mp.get_context("fork").Pool(16, initializer=core._pool_init, initargs=(None,)) as pool:
        for r in pool.imap_unordered(job, jobs):
            cases.extend(r)
    for k, c_ in enumerate(cases):
        c_["id"] = k
    rej = ctx.tlc_trace("PrioDictTrace", cases, chunks=16, label="priority queue histories")
    byid = {c_["id"]: c_ for c_ in cases}
    for i, clause in sorted(rej.items()):
        c_ = byid[i]
        # handing out a key that does not have minimum priority breaks the routing itself; everything else is representation
        report = ctx.violation if clause == "popped_key_not_of_minimum_priority" else ctx.growth
        report("priority_dict/%s/%s" % (c_["src"], clause), "priority_dict history (%s) %s: %s" %
               (c_["src"], [(s["op"], s["k"], s["v"], s["res"]) for s in c_["steps"]], clause), c_)
    ctx.extra["priority_queue_histories"] = {"routing": sum(1 for c_ in cases if c_["src"] == "routing"),
                                             "direct": sum(1 for c_ in cases if c_["src"] == "direct"),
                                             "steps": sum(len(c_["steps"]) for c_ in cases)}
    return len(cases)


# --------------------------------------------------------------------------------------------------------------
# NetTopo.tla / NetTopoTrace.tla: the topology tables of Network (addNode / addEdge and the adjacency getters)
# --------------------------------------------------------------------------------------------------------------
def topo_histories(seed, count):
    from tracklib.core.network import Network, Node, Edge
    from tracklib.core.track import Track
    from tracklib.core.obs import Obs
    from tracklib.core.obs_coords import ENUCoords
    from tracklib.core.obs_time import ObsTime
    rnd = random.Random(seed)
    out = []
    for _ in range(count):
        net = Network()
        steps = []
        nid = rnd.randrange(2, 6)
        for k in range(rnd.randrange(1, 9)):
            e = {"raised": False}
            try:
                with core.quiet():
                    if rnd.random() < 0.25:
                        v = rnd.randrange(1, nid + 1)
                        e.update(op="node", v=v, id=0, s=0, t=0, o=0)
                        net.addNode(Node(v, ENUCoords(float(v), 0.0, 0.0)))
                    else:
                        s_, t_, o_ = rnd.randrange(1, nid + 1), rnd.randrange(1, nid + 1), rnd.choice([-1, 0, 1])
                        eid = 100 + k
                        e.update(op="edge", v=0, id=eid, s=s_, t=t_, o=o_)
                        geom = Track([Obs(ENUCoords(float(s_), 0.0, 0.0), ObsTime()), Obs(ENUCoords(float(t_), 1.0, 0.0), ObsTime())])
                        ed = Edge(eid, geom)
                        ed.orientation = o_
                        ed.weight = 1.0
                        net.addEdge(ed, Node(s_, ENUCoords(float(s_), 0.0, 0.0)), Node(t_, ENUCoords(float(t_), 1.0, 0.0)))
                    ids = [int(x) for x in net.getNodesId()]
                    e["nodes"] = ids
                    e["edges"] = [int(x) for x in net.getEdgesId()]
                    e["ends"] = [[int(net.getEdge(x).source.id), int(net.getEdge(x).target.id)] for x in net.getEdgesId()]
                    for nm, fn in (("nextE", net.getNextEdges), ("prevE", net.getPrevEdges), ("nbgrE", net.getIncidentEdges),
                                   ("nextN", net.getNextNodes), ("prevN", net.getPrevNodes), ("nbgrN", net.getAdjacentNodes)):
                        e[nm] = [[v, [int(x) for x in fn(v)]] for v in ids]
            except (Exception, SystemExit) as ex:
                e["raised"] = True
                e["exc"] = repr(ex)[:80]
                for nm in ("nodes", "edges", "ends", "nextE", "prevE", "nbgrE", "nextN", "prevN", "nbgrN"):
                    e.setdefault(nm, [])
            steps.append(e)
        out.append({"steps": steps})
    return out


def topo_job(args):
    return topo_histories(*args)


def run_topo(ctx, quick):
    c = ctx.write_cfg("NT.cfg", "SPECIFICATION Spec\nCONSTANTS\n  NodeIds = {1, 2, 3}\n  MaxOps = %d\n  Mode = \"mc\"\nINVARIANT TablesAreDefinition\n"
                      "CHECK_DEADLOCK FALSE\n" % (3 if quick else 4))
    ctx.tlc_mc("NetTopo", c, label="network topology tables = definition from the edge list")
    import multiprocessing as mp
    cases = []
    with mp.get_context("fork").Pool(16, initializer=core._pool_init, initargs=(None,)) as pool:
        for r in pool.imap_unordered(topo_job, [(ctx.seed * 83 + k, 40 if quick else 600) for k in range(16)]):
            cases.extend(r)
    for k, c_ in enumerate(cases):
        c_["id"] = k
    rej = ctx.tlc_trace("NetTopoTrace", cases, chunks=16, label="network topology histories")
    byid = {c_["id"]: c_ for c_ in cases}
    for i, clause in sorted(rej.items()):
        c_ = byid[i]
        ctx.growth("network-topology/%s" % clause, "Network history %s: %s" %
                      ([(s["op"], s["v"] or (s["id"], s["s"], s["t"], s["o"])) for s in c_["steps"]], clause), c_)
    ctx.extra["network_topology_histories"] = len(cases)
