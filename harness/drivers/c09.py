"""C09 - Viterbi.tla / ViterbiTrace.tla bound to tracklib.algo.dynamics.HMM.estimate (code -> spec).

TLC shows on every model with <= 3 epochs and 1..2 candidate states per epoch over the likelihoods {0, 1/2, 1} that
the Bellman value equals the brute-force optimum over the full product of candidate lists and that the transcribed
TAB_VAL / TAB_MRK algorithm is accepted.  The driver runs the real HMM (likelihood mode and log mode) on that family
and on random models up to 8 epochs x 5 states; the decoded sequence (state labels carry their epoch) and the cost of
the last epoch (abstracted to <<zeros, c>>: cost = zeros * -ln(1e-300) + c * ln 2) are judged by AcceptDecoding."""
import itertools
import math
import random

import core

K0 = -math.log(1e-300)
LN2 = math.log(2.0)


def lik(cid):
    """wire ids: 0..49 -> 2^-id, 51..98 -> 2^(id-50) (likelihood above 1), 99 -> 0"""
    return 0.0 if cid == 99 else (2.0 ** (cid - 50) if cid > 50 else 2.0 ** (-cid))


def units(cid):
    """cost of a wire id in units of ln 2 (ids >= 100: logarithms handed over directly, -(1000 a + b) ln 2 for 100 + 10 a + b)"""
    return 1000 * ((cid - 100) // 10) + cid % 10 if cid >= 100 else (50 - cid if cid > 50 else cid)


def abstract_cost(v, direct=False):
    try:
        v = float(v)
    except Exception:
        return None
    if math.isnan(v) or math.isinf(v):
        return None
    if direct:                                   # no zero likelihoods in this family: the cost is a multiple of ln 2
        c = round(v / LN2)
        return [0, c] if abs(v - c * LN2) <= 1e-9 * max(1.0, abs(v)) else None
    z = int((v + 60.0) // K0)
    rem = v - z * K0
    c = round(rem / LN2)
    if z < 0 or abs(rem - c * LN2) > 1e-7:          # c < 0: likelihoods above 1 (unnormalised models)
        return None
    return [z, c]


_TRACKS = {}
_SHARED = {}        # one long-lived HMM object per mode: S, Q and P receive the track, so one model object decodes many tracks
_REG = {}
_CALLS = [0]


def shared_hmm(mode):
    from tracklib.algo.dynamics import HMM
    if mode not in _SHARED:
        def S(track, k):
            n, P, Q = _REG[track.tid]
            return [100 * k + j for j in range(n[k])]
        if mode == "lik":
            def Qf(s1, s2, k, track):
                return lik(_REG[track.tid][2][k][s1 % 100][s2 % 100])

            def Pf(s, y, k, track):
                return lik(_REG[track.tid][1][k][s % 100])
            _SHARED[mode] = HMM(S, Qf, Pf)
        else:
            def Qf(s1, s2, k, track):
                return math.log(lik(_REG[track.tid][2][k][s1 % 100][s2 % 100]) + 1e-300)

            def Pf(s, y, k, track):
                return math.log(lik(_REG[track.tid][1][k][s % 100]) + 1e-300)
            _SHARED[mode] = HMM(S, Qf, Pf, log=True)
    return _SHARED[mode]


def with_duplicates(n, P, Q):
    """the same model with, at every epoch after the first that has room, one more candidate that IS candidate 0 again (same value,
    hence same likelihoods): a candidate list may hold a value twice; returns (n, P, Q, epochs with a duplicate)"""
    T = len(n)
    n2, P2, Q2 = list(n), [list(r) for r in P], [[list(r) for r in q] for q in Q]
    dups = set()
    for k in range(1, T):
        if n2[k] < 5:
            dups.add(k)
            n2[k] += 1
            P2[k].append(P2[k][0])
            for a in range(len(Q2[k - 1])):
                Q2[k - 1][a].append(Q2[k - 1][a][0])
            if k < T - 1:
                Q2[k].append(list(Q2[k][0]))
    return n2, P2, Q2, dups


def decode(n, P, Q, mode, dups=()):
    """run the real HMM on the model; returns the event fields.  Every second call goes through a long-lived HMM object
    shared by all the models this worker decodes (successive tracks with the same and with other numbers of epochs)"""
    from tracklib.algo.dynamics import HMM, MODE_VERBOSE_NONE
    from tracklib.core.track import Track
    from tracklib.core.obs import Obs
    from tracklib.core.obs_coords import ENUCoords
    from tracklib.core.obs_time import ObsTime
    T = len(n)
    tr = Track([Obs(ENUCoords(float(k), 0.0, 0.0), ObsTime()) for k in range(T)])
    tr.createAnalyticalFeature("obs", list(range(T)))
    _CALLS[0] += 1
    reuse = _CALLS[0] % 2 == 0

    def S(track, k):
        if k in dups:
            return [100 * k + j for j in range(n[k] - 1)] + [100 * k]
        return [100 * k + j for j in range(n[k])]
    # a fixed state space is usually written as one list returned for every epoch: the states are then the same objects
    # at every epoch (P and Q still depend on the epoch)
    if dups:
        reuse = False
    fixed = (not reuse) and (not dups) and len(set(n)) == 1 and _CALLS[0] % 3 == 0
    if fixed:
        space = list(range(n[0]))
        S = lambda track, k: space
    if mode == "logd":
        reuse = False
    if reuse:
        tr.tid = "m%d" % _CALLS[0]
        _REG.clear()
        _REG[tr.tid] = (n, P, Q)
        hmm = shared_hmm(mode)
    elif mode == "lik":
        def Qf(s1, s2, k, track):
            return lik(Q[k][s1 % 100][s2 % 100])

        def Pf(s, y, k, track):
            return lik(P[k][s % 100])
        hmm = HMM(S, Qf, Pf)
    elif mode == "logd":
        # the model is given by its LOGARITHMS (Gaussian-type models are written this way): any non-positive number is legal
        def Qf(s1, s2, k, track):
            return -units(Q[k][s1 % 100][s2 % 100]) * LN2

        def Pf(s, y, k, track):
            return -units(P[k][s % 100]) * LN2
        hmm = HMM(S, Qf, Pf, log=True)
    else:
        def Qf(s1, s2, k, track):
            return math.log(lik(Q[k][s1 % 100][s2 % 100]) + 1e-300)

        def Pf(s, y, k, track):
            return math.log(lik(P[k][s % 100]) + 1e-300)
        hmm = HMM(S, Qf, Pf, log=True)
    e = {"n": n, "P": P, "Q": Q, "mode": mode, "raised": False, "lat": True, "inf": [], "last": [0, 0], "reuse": reuse}
    try:
        with core.quiet():
            # the verbosity argument is cosmetic: the decoding may not depend on it (mode 2 is what mapOnNetwork(verbose=True) uses)
            e["verbose"] = (0, 0, 2, 3, 1, 0, 2, 0)[_CALLS[0] % 8]
            if _CALLS[0] % 4 == 1:
                # history: the track was decoded before (with another model over the same candidates): the output
                # features already exist and must be replaced by the new decoding
                HMM(S, lambda s1, s2, k, track: 1.0 / (1 + (s1 + 2 * s2) % 3), lambda s, y, k, track: 1.0 / (1 + s % 2)).estimate(tr, "obs", verbose=0)
                e["hist"] = "decoded before"
            hmm.estimate(tr, "obs", verbose=e["verbose"])
            inf = [tr["hmm_inference", k] for k in range(T)]
            last = tr["hmm_cost", T - 1]
        e["inf"] = [[k, int(v)] for k, v in enumerate(inf)] if fixed else [[int(v) // 100, int(v) % 100] for v in inf]
        a = abstract_cost(last, mode == "logd")
        if a is None:
            e["lat"] = False
            e["raw_last"] = repr(last)
        else:
            e["last"] = a
    except (Exception, SystemExit) as ex:
        e["raised"] = True
        e["exc"] = repr(ex)[:100]
    return e


def tables(n, pids, qids):
    T = len(n)
    pslots = [(k, s) for k in range(T) for s in range(n[k])]
    qslots = [(k, a, b) for k in range(T - 1) for a in range(n[k]) for b in range(n[k + 1])]
    for pv in itertools.product(pids, repeat=len(pslots)):
        P = [[0] * n[k] for k in range(T)]
        for (k, s), v in zip(pslots, pv):
            P[k][s] = v
        for qv in itertools.product(qids, repeat=len(qslots)):
            Q = [[[0] * n[k + 1] for _ in range(n[k])] for k in range(T - 1)]
            for (k, a, b), v in zip(qslots, qv):
                Q[k][a][b] = v
            yield P, Q


def job_family(args):
    n, pids, qids, stride, offset = args
    out = []
    for idx, (P, Q) in enumerate(tables(n, pids, qids)):
        if idx % stride != offset % stride:
            continue
        for mode in ("lik", "log"):
            e = decode(list(n), P, Q, mode)
            e["brute"] = True
            out.append(e)
    return out


def job_random(args):
    seed, count = args
    rnd = random.Random(seed)
    out = []
    for _ in range(count):
        T = rnd.randrange(1, 9)
        n = [rnd.randrange(1, 6) for _ in range(T)]
        pz = rnd.choice([0.0, 0.1, 0.4])
        ids = rnd.choice([[0, 1], [0, 1, 2, 3], [0, 1, 2, 3, 4, 5], [52, 51, 0, 1], [53, 51, 0, 2, 4]])

        def draw():
            return 99 if rnd.random() < pz else rnd.choice(ids)
        P = [[draw() for _ in range(n[k])] for k in range(T)]
        Q = [[[draw() for _ in range(n[k + 1])] for _ in range(n[k])] for k in range(T - 1)]
        prod = 1
        for v in n:
            prod *= v
        for mode in ("lik", "log"):
            e = decode(n, P, Q, mode)
            e["brute"] = prod <= 1500
            out.append(e)
        if T >= 2 and rnd.random() < 0.25:
            n2, P2, Q2, dups = with_duplicates(n, P, Q)
            prod2 = 1
            for v in n2:
                prod2 *= v
            for mode in ("lik", "log"):
                e = decode(n2, P2, Q2, mode, dups)
                e["brute"] = prod2 <= 1500
                e["hist"] = "candidate lists holding a value twice"
                out.append(e)
        if rnd.random() < 0.3:
            # logarithms handed over directly, some far below ln(1e-300): 0, ln 2, 1000 ln 2, 1001 ln 2, 2000 ln 2, 3000 ln 2
            dids = rnd.choice([[100, 101, 110, 111], [110, 111, 120, 130], [100, 110, 120], [400, 401, 390, 110]])     # (the last: costs of 20 000 and more, totals far above 1e5)
            P = [[rnd.choice(dids) for _ in range(n[k])] for k in range(T)]
            Q = [[[rnd.choice(dids) for _ in range(n[k + 1])] for _ in range(n[k])] for k in range(T - 1)]
            e = decode(n, P, Q, "logd")
            e["brute"] = prod <= 1500
            out.append(e)
    return out


def mc_cfg(T, S, pids, qids):
    return ("SPECIFICATION Spec\nCONSTANTS\n  T = %d\n  S = %d\n  PCostIds = {%s}\n  QCostIds = {%s}\n  Mode = \"mc\"\n"
            "INVARIANT BellmanIsOpt\nINVARIANT AlgoAccepted\nCHECK_DEADLOCK FALSE\n"
            % (T, S, ", ".join(map(str, pids)), ", ".join(map(str, qids))))


def run(ctx):
    quick = ctx.tier == "quick"
    ctx.rule = ("TLC: Bellman = brute-force optimum and transcribed Viterbi accepted for every model with T <= 3 epochs, 1..2 "
                "states per epoch, likelihoods {0,1/2,1} (quick: observation likelihoods {1/2,1} at T = 3). Binding: the real "
                "HMM.estimate in likelihood and log mode on that family (the 2x2x2 size class sampled with a fixed stride) and on "
                "random models to T = 8, S = 5 (likelihoods 2^-c, c from -3 to 5, and 0), plus the T <= 3 family over likelihoods {2, 1, 1/2}; each decoding judged by AcceptDecoding against the "
                "brute-force optimum (Bellman above 1500 sequences). Non-trivial = distinct model with >= 2 candidate sequences "
                "that contains a zero likelihood or a repeated cost in a column (ties).")
    ctx.assumptions += ["likelihoods are 0 or powers of 2, above 1 included - unnormalised models (costs are integers in units of ln 2; one zero = -ln 1e-300)",
                        "log mode is fed ln(likelihood + 1e-300), i.e. finite logarithms; a third of the random models are also given directly by logarithms -(1000 a + b) ln 2, far below ln 1e-300",
                        "transition function is looked up with the epoch index the implementation passes (epoch of the first state)"]
    for T in (1, 2):
        c = ctx.write_cfg("V%d.cfg" % T, mc_cfg(T, 2, [0, 1, 99], [0, 1, 99]))
        ctx.tlc_mc("Viterbi", c, label="Viterbi design check T=%d S<=2 full" % T)
    c = ctx.write_cfg("V3.cfg", mc_cfg(3, 2, [0, 1] if quick else [0, 1, 99], [0, 1, 99]))
    ctx.tlc_mc("Viterbi", c, label="Viterbi design check T=3 S<=2", timeout=3000)
    c = ctx.write_cfg("V3u.cfg", mc_cfg(3, 2, [0, 1], [51, 0, 1]))
    ctx.tlc_mc("Viterbi", c, label="Viterbi design check T=3 S<=2, transition likelihoods above 1", timeout=3000)
    c = ctx.write_cfg("V2d.cfg", mc_cfg(2 if quick else 3, 2, [100, 110, 111], [110, 120]))
    ctx.tlc_mc("Viterbi", c, label="Viterbi design check, logarithms handed over directly (costs 0, 1000, 1001, 2000 ln 2)", timeout=3000)
    if not quick:
        c = ctx.write_cfg("V23.cfg", mc_cfg(2, 3, [0, 1, 99], [0, 1, 99]))
        ctx.tlc_mc("Viterbi", c, label="Viterbi design check T=2 S<=3", timeout=3000)

    import multiprocessing as mp
    jobs = []
    full = [0, 1, 99]
    for T in (1, 2, 3):
        for n in itertools.product([1, 2], repeat=T):
            pslots = sum(n)
            qslots = sum(n[k] * n[k + 1] for k in range(T - 1))
            size = 3 ** (pslots + qslots)
            if size <= 20000:
                jobs.append((job_family, (n, full, full, 1, 0)))
            else:
                target = 6000 if quick else 50000          # models of this size class bound to the code
                stride = max(17, (size // target) | 1)      # odd and not a multiple of 3: residues spread over the tables
                while stride % 3 == 0:
                    stride += 2
                for off in range(16):
                    jobs.append((job_family, (n, full, full, stride * 16, off * stride + (ctx.seed % stride))))
    # unnormalised models: likelihoods {2, 1, 1/2} (negative costs), every size class strided
    up = [51, 0, 1]
    for T in (2, 3):
        for n in itertools.product([1, 2], repeat=T):
            size = 3 ** (sum(n) + sum(n[k] * n[k + 1] for k in range(T - 1)))
            target = 2000 if quick else 30000
            stride = max(1, (size // target) | 1)
            while stride > 1 and stride % 3 == 0:
                stride += 2
            jobs.append((job_family, (n, up, up, stride, ctx.seed % stride)))
    per = 60 if quick else 1500
    for k in range(32):
        jobs.append((job_random, (ctx.seed * 13 + k, per)))
    events = []
    with mp.get_context("fork").Pool(16, initializer=core._pool_init, initargs=(None,)) as pool:
        res = [pool.apply_async(f, (a,)) for f, a in jobs]
        for r in res:
            events.extend(r.get())
    for k, e in enumerate(events):
        e["id"] = k
    rej = ctx.tlc_trace("ViterbiTrace", events, chunks=16, label="viterbi trace", timeout=3000)
    byid = {e["id"]: e for e in events}
    for i, clause in sorted(rej.items()):
        e = byid[i]
        ctx.violation("hmm/%s/%s" % (e["mode"], clause),
                      "HMM.estimate (%s mode) on sizes %s P %s Q %s -> inference %s last cost %s %s: %s" %
                      (e["mode"], e["n"], e["P"], e["Q"], e["inf"], e["last"], e.get("exc", e.get("raw_last", "")), clause), e)
    for e in events:
        if max(e["n"]) >= 2:
            flat = [v for row in e["P"] for v in row] + [v for m in e["Q"] for row in m for v in row]
            tie = any(len(set(row)) < len(row) for row in e["P"] if len(row) > 1)
            if 99 in flat or tie:
                ctx.nontriv(repr((e["n"], e["P"], e["Q"])))
    ctx.evaluations += len(events)
    ctx.extra["records_by_epochs"] = {str(T): sum(1 for e in events if len(e["n"]) == T) for T in range(1, 9)}
    for e in events:
        if len(e["n"]) >= 4 and e["id"] not in rej:
            ctx.sample({k: e[k] for k in ("n", "P", "Q", "mode", "inf", "last")}, limit=2)
