"""Dedup.tla bound to Track.cleanDuplicates(code) (spec -> code): every sequence printed by the model is put on a real
track and cleaned under every code; the observations kept (identified by a tag in z) are compared with the positions the
specification designates, and the cleaning must leave the kept Obs objects themselves in the track."""
import core

CODES = ["X", "Y", "T", "XY", "XT", "XYT"]


def replay(cases):
    from tracklib.core.track import Track
    from tracklib.core.obs import Obs
    from tracklib.core.obs_coords import ENUCoords
    from tracklib.core.obs_time import ObsTime
    viol, nontriv, samples = [], set(), []
    for ci, c in enumerate(cases):
        seq = c["s"]
        for code, want in zip(CODES, c["kept"]):
            try:
                with core.quiet():
                    obs = [Obs(ENUCoords(float(x), float(y), float(k + 1)), ObsTime.readUnixTime(1600000000 + 5 * t)) for k, (x, y, t) in enumerate(seq)]
                    tr = Track(list(obs))
                    tr.cleanDuplicates(code)
                    got = [int(tr.getObs(k).position.getZ()) for k in range(tr.size())]
                    same_objects = all(tr.getObs(k) is obs[got[k] - 1] for k in range(tr.size()))
            except (Exception, SystemExit) as ex:
                viol.append(("dedup/raised/" + code, "cleanDuplicates(%r) on %s raised %r" % (code, seq, ex), c))
                continue
            if got != list(want):
                viol.append(("dedup/kept/" + code, "cleanDuplicates(%r) on %s kept %s, specification %s" % (code, seq, got, list(want)), c))
            elif not same_objects:
                viol.append(("dedup/objects/" + code, "cleanDuplicates(%r) on %s: the kept observations are not the track's own objects" % (code, seq), c))
        if len(seq) >= 3:
            nontriv.add("n>=3")
        if ci == 0:
            samples.append(c)
    return len(cases) * len(CODES), viol, nontriv, samples


CFG = "SPECIFICATION Spec\nCONSTANTS\n  Emit = %s\n  MaxN = %d\nINVARIANT Inv\nCHECK_DEADLOCK FALSE\n"


def run(ctx, quick):
    n = 4 if quick else 5
    path, out = ctx.tlc_emit_file("Dedup", ctx.write_cfg("DD.cfg", CFG % ("TRUE", n)), label="duplicate cleaning, sequences to %d observations" % n)
    got = ctx.pmap_emitted(path, replay, chunk=300, growth=True)
    if got != out.distinct * len(CODES):
        raise core.Machinery("Dedup: replayed %d != %d" % (got, out.distinct * len(CODES)))
    ctx.extra["dedup_calls_replayed"] = got
