"""C17 - Kinematics.tla / KinematicsTrace.tla bound to computeAbsCurv and Track.estimate_speed (code -> spec).

TLC checks the transcribed ds + Integrator pipeline and the three-way speed case against the definitions on every walk
of up to 4 legs (zero, unit, 3-4-5, 1000-long) x time gaps {0,1,2}.  The driver computes abs_curv and speed twice on
real tracks built from the same leg alphabet (exhaustive) and on random longer ones, squares the speeds and lets TLC
judge the columns, the repeat and the unchanged positions / timestamps."""
import itertools
import math
import random
from fractions import Fraction

import core

LEGS = [(0, 0), (1, 0), (3, 4), (0, -1), (-4, 3), (1000, 0), (0, 2), (-6, -8)]


def num(v, maxden, tol=1e-9):
    try:
        v = float(v)
    except Exception:
        return [3, 0, 1]
    if math.isnan(v):
        return [0, 0, 1]
    if math.isinf(v):
        return [3, 0, 1]
    f = Fraction(v).limit_denominator(maxden)
    if abs(float(f) - v) > tol * max(1.0, abs(v)):
        return [3, 0, 1]
    return [1, f.numerator, f.denominator]


TINY = 2.0 ** -14        # about 0.06 mm: the property does not depend on the unit of length (power of two: exact in floating point)


def call(pts, ts, unit=1.0, day=(2020, 6, 15), coarse=False, scale=1.0):
    """ts are in TICKS of `unit' seconds (1 s, or 1 ms); speeds are reported per tick.  With a 2020 date a 1 ms gap is known
    to the float clock only to 2e-4 (coarse = only the NaN pattern is judged); around 1970 the clock is exact to 1e-8."""
    import tk
    from tracklib.algo.cinematics import computeAbsCurv
    e = {"ev": "kin", "pts": [list(p) for p in pts], "ts": list(ts), "raised": False, "abs": [], "abs2": [], "abs3": [], "speed": [], "speed2": [],
         "pre": [], "post": [], "coarse": coarse, "tick_ms": int(round(unit * 1000))}
    tol = 1e-9 if unit == 1.0 else 1e-6
    e["scale"] = "2^-14" if scale < 0.01 else str(scale)
    if unit == 1.0:
        # a quarter of the second-clocked tracks start 3 s before the end of a month or of a year (the elapsed time between
        # two fixes does not depend on the calendar)
        cal = (sum(ts) + len(pts) + int(pts[-1][1])) % 8
        off, dday = (0, day) if cal > 1 else (43197, (2024, 1, 31) if cal == 0 else (2023, 12, 31))
        e["clock"] = "%04d-%02d-%02d 12:00:00 + %d s" % (dday[0], dday[1], dday[2], off)
        tr = tk.mk_track([p[0] * scale for p in pts], [p[1] * scale for p in pts], [float(k) * scale for k in range(len(pts))],
                         [t + off for t in ts], day=dday)
    else:
        tr = tk.mk_track_ms([p[0] for p in pts], [p[1] for p in pts], [float(k) for k in range(len(pts))], [int(round(t * unit * 1000)) for t in ts], day=day)

    # state family: the timestamp OBJECTS were used in a time computation while they still carried a wrong date (the day
    # before), which the caller then corrected in place, field by field
    if unit == 1.0 and (len(pts) + sum(ts)) % 5 == 0:
        e["hist"] = "dates corrected in place after a first use"
        want = [(o.timestamp.year, o.timestamp.month, o.timestamp.day) for o in tr.getObsList()]
        for o in tr.getObsList():
            o.timestamp.day = 1 if o.timestamp.day > 1 else 2
            o.timestamp.month = 3
        try:
            with core.quiet():
                tr.duration()
                [o.timestamp.toAbsTime() for o in tr.getObsList()]
        except (Exception, SystemExit):
            pass
        for o, (yy, mm, dd) in zip(tr.getObsList(), want):
            o.timestamp.year, o.timestamp.month, o.timestamp.day = yy, mm, dd

    def snap():
        return [[round(tr.getObs(k).position.getX() / scale * 1000), round(tr.getObs(k).position.getY() / scale * 1000),
                 round(tr.getObs(k).position.getZ() / scale * 1000), round(tr.getObs(k).timestamp.toAbsTime() * 1000) % 100000000] for k in range(tr.size())]
    e["pre"] = snap()
    maxdt2 = max(1, (max(ts) - min(ts)) ** 2)
    try:
        with core.quiet():
            a1 = list(computeAbsCurv(tr))
            s1 = list(tr.estimate_speed())
            a2 = list(computeAbsCurv(tr))
            s2 = list(tr.estimate_speed())
            a3 = [tr["abs_curv", k] for k in range(tr.size())]
            s3 = [tr["speed", k] for k in range(tr.size())]
        # history variant: the increments of the abscissa are left in a feature named 'ds' (Operator.DIFFERENTIATOR, as
        # mapOn() does on its reference track), abs_curv is removed and computed again
        from tracklib.core.operators import Operator
        with core.quiet():
            tr.operate(Operator.DIFFERENTIATOR, "abs_curv", "ds")
            tr.removeAnalyticalFeature("abs_curv")
            a4 = list(computeAbsCurv(tr))
        e["abs3"] = [num(v / scale, 1) for v in a4]
        e["abs"] = [num(v / scale, 1) for v in a1]
        e["abs2"] = [num(v / scale, 1) for v in a2]
        sq = lambda v: v if (isinstance(v, float) and math.isnan(v)) else (v * unit / scale) * (v * unit / scale)
        e["speed"] = [num(sq(v), maxdt2, tol) for v in s1]
        e["speed2"] = [num(sq(v), maxdt2, tol) for v in s2]
        if [num(v / scale, 1) for v in a3] != e["abs"]:
            e["abs2"] = [[3, 0, 1]]          # the stored column differs from the returned one
        if [num(sq(v), maxdt2, tol) for v in s3] != e["speed"]:
            e["speed2"] = [[3, 0, 1]]
    except (Exception, SystemExit) as ex:
        e["raised"] = True
        e["exc"] = repr(ex)[:80]
    e["post"] = snap()
    return e


def walk(legs):
    pts = [(0, 0)]
    for dx, dy in legs:
        pts.append((pts[-1][0] + dx, pts[-1][1] + dy))
    return pts


def job_family(args):
    n, first = args
    out = []
    for rest in itertools.product(LEGS[:6], repeat=n - 1):
        pts = walk((first,) + rest)
        for gaps in itertools.product([0, 1, 2], repeat=n):
            ts = [0]
            for g_ in gaps:
                ts.append(ts[-1] + g_)
            out.append(call(pts, ts, scale=TINY if (sum(gaps) + len(pts) + pts[-1][0]) % 3 == 0 else 1.0))
    return out


def job_ties(args):
    """tracks of 17 to 40 fixes (beyond the size up to which sorting routines keep ties in place) with one or several repeated
    timestamps, at every position"""
    n, = args
    out = []
    pts = walk(tuple(LEGS[(3 * k + 1) % 6] for k in range(n)))[:n]
    for k in range(1, n):
        ts = list(range(k)) + [k - 1] + list(range(k, n - 1))          # fix k repeats the timestamp of fix k - 1
        out.append(call(pts, ts[:n]))
    for k in range(1, n - 3, 3):
        ts = list(range(k)) + [k - 1, k - 1, k - 1] + list(range(k, n))
        out.append(call(pts, ts[:n]))
    return out


def job_ms(args):
    """millisecond clocks: every walk of n legs (without the 1000-long leg) x gaps {0,1,2} ticks of 1 ms, once around 1970
    (float clock exact: values judged) and once in 2020 (float clock noisy at that scale: NaN pattern judged)"""
    n, first = args
    legs = [l for l in LEGS[:6] if l != (1000, 0)]
    out = []
    for rest in itertools.product(legs, repeat=n - 1):
        pts = walk((first,) + rest)
        for gaps in itertools.product([0, 1, 2], repeat=n):
            ts = [0]
            for g_ in gaps:
                ts.append(ts[-1] + g_)
            out.append(call(pts, ts, unit=0.001, day=(1970, 1, 1), coarse=False))
            out.append(call(pts, ts, unit=0.001, day=(2020, 6, 15), coarse=True))
    return out


def job_random(args):
    seed, count = args
    rnd = random.Random(seed)
    out = []
    for _ in range(count):
        n = rnd.randrange(1, 12)
        pts = walk([rnd.choice(LEGS) for _ in range(n)])
        ts = [0]
        for _k in range(n):
            ts.append(ts[-1] + rnd.choice([0, 0, 1, 1, 2, 3, 7, 60]))
        out.append(call(pts, ts, scale=rnd.choice([1.0, 1.0, TINY, 0.1])))
    return out


def mc_cfg(maxfix):
    return ("SPECIFICATION Spec\nCONSTANTS\n  MaxFixK = %d\n  NLegs = 6\n  Gaps = {0, 1, 2}\n  Mode = \"mc\"\n"
            "INVARIANT AbsCurvIsDefinition\nINVARIANT SpeedWellDefined\nCHECK_DEADLOCK FALSE\n" % maxfix)


def run(ctx):
    quick = ctx.tier == "quick"
    mf = 4 if quick else 5
    ctx.rule = ("TLC: ds + Integrator = cumulated leg lengths and the speed case analysis well-defined (NaN iff zero duration) on "
                "every walk of 1..%d legs over 6 leg types x time gaps {0,1,2}. Binding: computeAbsCurv and estimate_speed "
                "computed twice on every such track and on random tracks to 12 fixes (8 leg types incl. zero and 1000-long, "
                "gaps 0-60 s); columns (speeds squared), repeat and unchanged observations judged by KinematicsTrace. "
                "Non-trivial = distinct tracks with a repeated timestamp or a repeated position." % (mf - 1))
    ctx.assumptions += ["legs of integer length (axis-aligned, 3-4-5, 6-8-10); timestamps on a lattice of whole seconds or of whole milliseconds "
                        "(millisecond tracks dated 2020: only the NaN pattern of the speed is judged - the float clock knows a 1 ms gap to 2e-4; dated 1970: values judged to 1e-6)", "speeds are compared through their squares"]
    c = ctx.write_cfg("KIN.cfg", mc_cfg(mf))
    ctx.tlc_mc("Kinematics", c, label="Kinematics design check")
    import multiprocessing as mp
    jobs = []
    for n in range(1, mf):
        for first in LEGS[:6]:
            jobs.append((job_family, (n, first)))
    for n in range(1, 4 if quick else 5):          # millisecond clocks (ticks of 1 ms), around 1970 and in 2020
        for first in LEGS[:5]:
            jobs.append((job_ms, (n, first)))
    for k in range(16):
        jobs.append((job_random, (ctx.seed * 59 + k, 80 if quick else 8000)))
    for n in (17, 24) if quick else (17, 18, 24, 33, 40):
        jobs.append((job_ties, (n,)))
    events = []
    with mp.get_context("fork").Pool(16, initializer=core._pool_init, initargs=(None,)) as pool:
        res = [pool.apply_async(f, (a,)) for f, a in jobs]
        for r in res:
            events.extend(r.get())
    for k, e in enumerate(events):
        e["id"] = k
    rej = ctx.tlc_trace("KinematicsTrace", events, chunks=16, label="kinematics trace", timeout=3000)
    byid = {e["id"]: e for e in events}
    for i, clause in sorted(rej.items()):
        e = byid[i]
        ctx.violation("kinematics/%s" % clause, "track %s times %s -> abs_curv %s speed^2 %s %s: %s" %
                      (e["pts"], e["ts"], e["abs"], e["speed"], e.get("exc", ""), clause), e)
    for e in events:
        if len(set(e["ts"])) < len(e["ts"]) or len({tuple(p) for p in e["pts"]}) < len(e["pts"]):
            ctx.nontriv(repr((e["pts"], e["ts"])))
    ctx.evaluations += len(events)
    ctx.exhaustive = True
    for e in events:
        if len(e["pts"]) >= 6 and e["id"] not in rej:
            ctx.sample({k: e[k] for k in ("pts", "ts", "abs", "speed")}, limit=2)
    # growth next to C17: the elevation measures over index ranges (Elevation.tla)
    from drivers import elevation_common
    elevation_common.run(ctx, ctx.tier == "quick")
