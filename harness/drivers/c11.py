"""C11 - Split.tla / SplitTrace.tla bound to tracklib.algo.segmentation.split and segmentation (code -> spec).

TLC checks the transcribed begin/count loop against the definition of the pieces for all 2^n markers (n <= 12) and the
transcribed comparison loop against the marker definition for all value/threshold combinations.  The driver splits real
tracks on every marker vector of length 1..12 (pieces identified by the observations' unique coordinates), runs
segmentation() on tracks whose observations enumerate every combination of feature values {0,1,2,NaN} for one to three
features with every threshold vector and both modes, plus random longer ones; TLC judges every recorded call."""
import itertools
import random

import core

NANV = 99
PINF, NINF = 98, 97          # +inf exceeds every threshold, -inf none (markers of the specification)


SQUEEZE = "squeeze"      # values AND thresholds through the increasing map k -> 1 + k * 2^-40 (exact): the order, hence every marker, is
                         # unchanged, while a value above a threshold exceeds it by 1e-12 relative only


def tmap(t, scale):
    if t == PINF:
        return float("inf")            # "no upper bound" for this feature: nothing exceeds it
    return 1.0 + t * 2.0 ** -40 if scale == SQUEEZE else t / scale


def fval(v, scale):
    return float("nan") if v == NANV else float("inf") if v == PINF else float("-inf") if v == NINF else tmap(v, scale)


def call_split(m):
    from tracklib.algo.segmentation import split
    import tk
    n = len(m)
    tr = tk.mk_track([k + 1 for k in range(n)])
    tr.createAnalyticalFeature("mk", [float(v) for v in m] if n % 2 else list(m))
    e = {"ev": "split", "m": list(m), "raised": False, "pieces": []}
    try:
        with core.quiet():
            col = split(tr, "mk")
        ps = []
        for k in range(col.size()):
            p = col.getTrack(k)
            ps.append([int(round(p.getObs(j).position.getX())) if abs(p.getObs(j).position.getX() - round(p.getObs(j).position.getX())) < 1e-9 else 0
                       for j in range(p.size())])
        e["pieces"] = ps
        if tr.size() != n or [int(tr.getObs(k).position.getX()) for k in range(n)] != list(range(1, n + 1)):
            e["pieces"] = [[0]]          # the source track was modified: no longer a partition of it
    except (Exception, SystemExit) as ex:
        e["raised"] = True
        e["exc"] = repr(ex)[:80]
    return e


def call_seg(rows, thr, mode, scale=1, dup=False):
    """dup: the list of tested features names the FIRST feature twice (columns 0 and 1 of rows are equal), each entry with
    its own threshold - the list is positional, nothing requires the names to be distinct"""
    from tracklib.algo.segmentation import segmentation, MODE_COMPARAISON_AND, MODE_COMPARAISON_OR
    import tk
    n = len(rows)
    k = len(thr)
    tr = tk.mk_track(list(range(n)))
    names = ["f%d" % j for j in range(k)]
    if dup:
        assert k >= 2 and all(r[0] == r[1] for r in rows)
        names[1] = names[0]
    # the numbers are carried by python floats, python ints, or numpy scalars (features filled from numpy arrays), by turns
    carrier = (n + k + len(thr) + (0 if mode == "and" else 1) + sum(int(t) for t in thr)) % 4
    for j, nm in enumerate(names):
        if dup and j == 1:
            continue
        vals = [fval(r[j], scale) for r in rows]
        if carrier == 1 and scale != SQUEEZE:            # (single precision cannot hold 1 + 2^-40)
            import numpy as np
            vals = [np.float32(v) for v in vals]                    # quarters and small integers are exact in single precision
        elif carrier == 2 and scale == 1:
            import numpy as np
            vals = [np.int64(v) if v == v and abs(v) != float("inf") else v for v in vals]
        elif carrier == 3 and scale == 1:
            vals = [int(v) if v == v and abs(v) != float("inf") else v for v in vals]
        tr.createAnalyticalFeature(nm, vals)
    e = {"ev": "seg", "rows": [list(r) for r in rows], "thr": list(thr), "mode": mode, "raised": False, "out": [], "pre": []}
    # history variant: the marker feature already exists (an earlier segmentation into the same name, or a column the user
    # created): the call must REPLACE its content - 1 exactly where the thresholds say so, 0 elsewhere
    h = (sum(sum(v for v in r) for r in rows) + 3 * n + k + (0 if mode == "and" else 1)) % 4
    if h == 1:
        e["pre"] = [1] * n
    elif h == 2:
        e["pre"] = [(i + 1) % 2 for i in range(n)]
    # aliasing variant: the marker is written over one of the tested features (binarisation in place); every observation's
    # marker follows from the values on entry
    outn = "out"
    if dup:
        e["hist"] = "first feature tested twice"
    if h == 3 and not e["pre"]:
        outn = names[-1]
        e["hist"] = "output = last tested feature"
    if e["pre"]:
        tr.createAnalyticalFeature("out", list(e["pre"]))
    try:
        with core.quiet():
            if k == 1 and n % 2:
                segmentation(tr, names[0], outn, tmap(thr[0], scale), MODE_COMPARAISON_AND if mode == "and" else MODE_COMPARAISON_OR)
            else:
                segmentation(tr, names, outn, [tmap(t, scale) for t in thr], MODE_COMPARAISON_AND if mode == "and" else MODE_COMPARAISON_OR)
            out = [tr[outn, i] for i in range(n)]
        e["out"] = [int(v) if v in (0, 1) else 7 for v in out]
    except (Exception, SystemExit) as ex:
        e["raised"] = True
        e["exc"] = repr(ex)[:80]
    return e


def job_split(args):
    n, lo, hi = args
    out = []
    for bits in range(lo, hi):
        out.append(call_split([(bits >> k) & 1 for k in range(n)]))
    return out


def job_seg(args):
    k, = args
    rows = list(itertools.product([0, 1, 2, NANV, PINF, NINF], repeat=k))
    out = []
    for thr in itertools.product([0, 1, 2, PINF], repeat=k):
        for mode in ("and", "or"):
            out.append(call_seg(rows, thr, mode))
            if PINF not in thr:
                out.append(call_seg(rows, thr, mode, scale=SQUEEZE))
    if k >= 2:
        rows_d = [(r[0],) + tuple(r) for r in itertools.product([0, 1, 2, NANV, PINF, NINF], repeat=k - 1)]
        for thr in itertools.product([0, 1, 2], repeat=k):
            for mode in ("and", "or"):
                out.append(call_seg(rows_d, thr, mode, dup=True))
    return out


def job_random(args):
    seed, count = args
    rnd = random.Random(seed)
    out = []
    for _ in range(count):
        n = rnd.randrange(1, 41)
        p = rnd.choice([0.0, 0.1, 0.3, 0.6, 1.0])
        out.append(call_split([1 if rnd.random() < p else 0 for _ in range(n)]))
        k = rnd.randrange(1, 4)
        rows = [[NANV if rnd.random() < 0.2 else rnd.choice([PINF, NINF]) if rnd.random() < 0.1 else rnd.randrange(-8, 9) for _ in range(k)]
                for _ in range(rnd.randrange(1, 30))]
        thr = [rnd.randrange(-8, 9) for _ in range(k)]
        out.append(call_seg(rows, thr, rnd.choice(["and", "or"]), scale=4))
    return out


def mc_cfg(mode, nmax):
    inv = "SplitIsDefinition" if mode == "split" else "SegIsDefinition"
    return ("SPECIFICATION Spec\nCONSTANTS\n  NMax = %d\n  KMax = 3\n  SVals = {0, 1, 2, 97, 98, 99}\n  SThr = {0, 1, 2}\n  Mode = \"%s\"\n"
            "INVARIANT %s\nCHECK_DEADLOCK FALSE\n" % (nmax, mode, inv))


def run(ctx):
    quick = ctx.tier == "quick"
    nmax = 12 if quick else 16
    ctx.rule = ("TLC: split loop = definition and accepted for all 2^n markers, n <= %d; comparison loop within the marker "
                "definition for all rows over {0,1,2,-inf,+inf,NaN}^k x thresholds {0,1,2}^k x modes, k <= 3. Binding: split() on every "
                "marker vector of length 1..%d and random ones to length 40; segmentation() on tracks enumerating every value "
                "row for every threshold vector and mode + random rational-valued ones; judged by SplitTrace. Non-trivial = "
                "distinct markers with a mark that is neither alone nor only at the last position, and distinct segmentation "
                "calls with a NaN or a value equal to its threshold." % (nmax, nmax))
    ctx.assumptions += ["limit = 0; marker values 0 / 1; as many thresholds as tested features",
                        "an all-NaN row in OR mode may be marked either way (the statement leaves it open)",
                        "observations are identified by unique integer x coordinates"]
    c = ctx.write_cfg("SP_split.cfg", mc_cfg("split", nmax))
    ctx.tlc_mc("Split", c, label="split loop = definition, all markers n<=%d" % nmax)
    c = ctx.write_cfg("SP_seg.cfg", mc_cfg("seg", 1))
    ctx.tlc_mc("Split", c, label="comparison loop within marker definition")
    import multiprocessing as mp
    jobs = []
    for n in range(1, nmax + 1):
        tot = 1 << n
        step = max(64, tot // 16)
        for lo in range(0, tot, step):
            jobs.append((job_split, (n, lo, min(tot, lo + step))))
    for k in (1, 2, 3):
        jobs.append((job_seg, (k,)))
    per = 40 if quick else 4000
    for k in range(16):
        jobs.append((job_random, (ctx.seed * 23 + k, per)))
    events = []
    with mp.get_context("fork").Pool(16, initializer=core._pool_init, initargs=(None,)) as pool:
        res = [pool.apply_async(f, (a,)) for f, a in jobs]
        for r in res:
            events.extend(r.get())
    for k, e in enumerate(events):
        e["id"] = k
    rej = ctx.tlc_trace("SplitTrace", events, chunks=16, label="split / segmentation trace")
    byid = {e["id"]: e for e in events}
    for i, clause in sorted(rej.items()):
        e = byid[i]
        if e["ev"] == "split":
            cls = "last-marked" if e["m"][-1] == 1 else ("first-marked" if e["m"][0] == 1 else "inner")
            ctx.violation("split/%s/%s" % (clause, cls), "split on marker %s -> pieces %s %s: %s" % (e["m"], e["pieces"], e.get("exc", ""), clause), e)
        else:
            ctx.violation("segmentation/%s/%s" % (e["mode"], clause), "segmentation rows %s thresholds %s mode %s -> %s %s: %s" %
                          (e["rows"], e["thr"], e["mode"], e["out"], e.get("exc", ""), clause), e)
    for e in events:
        if e["ev"] == "split":
            if sum(e["m"]) >= 1 and not (sum(e["m"]) == 1 and e["m"][-1] == 1) and len(e["m"]) > 1:
                ctx.nontriv(repr(e["m"]))
        elif any(v in (NANV, PINF, NINF) or v == t for r in e["rows"] for v, t in zip(r, e["thr"])):
            ctx.nontriv(repr((e["rows"], e["thr"], e["mode"])))
    ctx.evaluations += len(events)
    ctx.exhaustive = True
    ctx.extra["split_calls"] = sum(1 for e in events if e["ev"] == "split")
    ctx.extra["segmentation_calls"] = sum(1 for e in events if e["ev"] == "seg")
    ctx.extra["segmentation_rows_judged"] = sum(len(e["rows"]) for e in events if e["ev"] == "seg")
    for e in events:
        if e["ev"] == "split" and len(e["m"]) == 7 and sum(e["m"]) == 3:
            ctx.sample({"m": e["m"], "pieces": e["pieces"]}, limit=1)
    for e in events:
        if e["ev"] == "seg" and len(e["thr"]) == 2 and len(e["rows"]) < 12:
            ctx.sample({k: e[k] for k in ("rows", "thr", "mode", "out")}, limit=2)
    # growth next to C11: the ST-DBSCAN clustering that writes cluster / noise markers (StDbscan.tla)
    from drivers import stdbscan_common
    stdbscan_common.run(ctx, ctx.tier == "quick")
    # growth next to C11: the even split  track / n  as coded (EvenSplit.tla)
    from drivers import evensplit_common
    evensplit_common.run(ctx, ctx.tier == "quick")
