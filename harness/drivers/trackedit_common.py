"""TrackEdit.tla bound to tracklib.core.track.Track (spec -> code): every history of feature operations interleaved with
edits of the list of observations printed by the model is replayed on a real Track; the listed names, the identity and the
feature slots of every observation, whether the last call raised, and what reading each listed name gives (the column, or
a failure) are compared with the state of the specification - partial effects of failing calls included."""
import core


def fresh(k):
    from tracklib.core.obs import Obs
    from tracklib.core.obs_coords import ENUCoords
    from tracklib.core.obs_time import ObsTime
    return Obs(ENUCoords(float(k), 0.0, 0.0), ObsTime.readUnixTime(1600000000 + k))


def replay(cases):
    from tracklib.core.track import Track
    viol, nontriv, samples = [], set(), []
    for ci, c in enumerate(cases):
        hist = c["hist"]
        label = [(o["op"], o["a"]) for o in hist]
        last = hist[-1]["op"] if hist else "init"
        nxt = 3
        err = False
        try:
            with core.quiet():
                tr = Track([fresh(1), fresh(2)])
                for step, o in enumerate(hist, start=1):
                    op, a = o["op"], o["a"]
                    err = False
                    try:
                        if op == "create":
                            tr.createAnalyticalFeature(a, 10 * step)
                        elif op == "update":
                            tr.updateAnalyticalFeature(a, 100 + step)
                        elif op == "remove":
                            tr.removeAnalyticalFeature(a)
                        elif op == "add":
                            tr.addObs(fresh(nxt)); nxt += 1
                        elif op == "insert0":
                            tr.insertObs(fresh(nxt), 0); nxt += 1
                        elif op == "setlast":
                            tr.setObs(tr.size() - 1, fresh(nxt)); nxt += 1
                        elif op == "loopadd":
                            tr.loop(add=True)
                            tr.getObs(tr.size() - 1).position.setX(float(nxt)); nxt += 1      # tag the copy (a deep copy: the original keeps its tag)
                        elif op == "makeodd":
                            tr.makeOdd()
                        elif op == "makeeven":
                            tr.makeEven()
                        elif op == "removefirst":
                            tr.removeFirstObs()
                    except Exception:
                        err = True
                got_table = list(tr.getListAnalyticalFeatures())
                got_oids = [int(tr.getObs(k).position.getX()) for k in range(tr.size())]
                got_slots = [[int(v) for v in tr.getObs(k).features] for k in range(tr.size())]
                got_reads = []
                for nm in got_table:
                    try:
                        got_reads.append([int(v) for v in tr.getAnalyticalFeature(nm)])
                    except Exception:
                        got_reads.append([-1])
        except (Exception, SystemExit) as ex:
            viol.append(("trackedit/raised/after-" + last, "history %s: the harness could not observe the track: %r" % (label, ex), hist))
            continue
        want = (list(c["table"]), [int(v) for v in c["oids"]], [list(s) for s in c["slots"]], bool(c["err"]), [list(r) for r in c["reads"]])
        got = (got_table, got_oids, got_slots, err, got_reads)
        for k, what in enumerate(("listed names", "observations", "feature slots", "last call raised", "columns read by name")):
            if got[k] != want[k]:
                viol.append(("trackedit/%s/after-%s" % (what.replace(" ", "-"), last),
                             "history %s: %s %s, specification %s" % (label, what, got[k], want[k]), hist))
                break
        if any(o["op"] in ("add", "insert0", "setlast") for o in hist) and any(o["op"] in ("create", "update", "remove") for o in hist):
            nontriv.add("mixed")
        if ci == 0:
            samples.append(c)
    return len(cases), viol, nontriv, samples


CFG = "SPECIFICATION Spec\nCONSTANTS\n  Emit = %s\n  MaxOps = %d\n  Names = {\"a\", \"b\"}\n%sCHECK_DEADLOCK FALSE\n"


def run(ctx, quick):
    ctx.tlc_mc("TrackEdit", ctx.write_cfg("TE_al.cfg", CFG % ("FALSE", 3, "INVARIANT AlignedAlways\n")), expect_violation="AlignedAlways",
               label="TrackEdit self-test: an observation added after a feature was created has no slot for it (AlignedAlways refuted)")
    depth = 4 if quick else 5
    path, out = ctx.tlc_emit_file("TrackEdit", ctx.write_cfg("TE.cfg", CFG % ("TRUE", depth, "INVARIANT Inv\n")),
                                  label="Track edit histories to %d operations" % depth)
    n = ctx.pmap_emitted(path, replay, chunk=500, growth=True)
    if n != out.distinct:
        raise core.Machinery("TrackEdit: emitted states %d != distinct states %d" % (n, out.distinct))
    ctx.extra["track_edit_histories_replayed"] = n
