"""Elevation.tla bound to tracklib.algo.cinematics.computeNetDeniv / computeAscDeniv / computeDescDeniv /
computeAvgAscSpeed (spec -> code): every height profile printed by the model is put on a real track (heights h / 2 - 1:
halves and negative heights; the measures are differences, so they are the model's halved) and the three measures are read
for every index range, with id_fin omitted when the range ends at the last observation."""
import core


def replay(cases):
    import tk
    from tracklib.algo.cinematics import computeNetDeniv, computeAscDeniv, computeDescDeniv, computeAvgAscSpeed
    viol, nontriv, samples = [], set(), []
    for ci, c in enumerate(cases):
        z = [h / 2.0 - 1.0 for h in c["z"]]
        n = len(z)
        try:
            with core.quiet():
                tr = tk.mk_track([float(k) for k in range(n)], [0.0] * n, z, ts=[2 * k for k in range(n)])
                for (i, j, net, climb, desc) in c["ranges"]:
                    omit = (j == n - 1) and (i + j) % 2 == 0
                    args = (tr, i) if omit else (tr, i, j)
                    got = (computeNetDeniv(*args), computeAscDeniv(*args), computeDescDeniv(*args))
                    want = (net / 2.0, climb / 2.0, desc / 2.0)
                    if any(abs(float(g) - w) > 1e-12 for g, w in zip(got, want)):
                        viol.append(("elevation/measures", "heights %s range [%d, %s]: net / climb / descent %s, specification %s" % (z, i, "end" if omit else j, got, want), c))
                        break
                    if j > i:
                        sp = computeAvgAscSpeed(*args)
                        if abs(float(sp) - climb / 2.0 / (2 * (j - i))) > 1e-12:
                            viol.append(("elevation/ascending-speed", "heights %s range [%d, %d]: average ascending speed %r, specification %r" % (z, i, j, sp, climb / 2.0 / (2 * (j - i))), c))
                            break
        except (Exception, SystemExit) as ex:
            viol.append(("elevation/raised", "heights %s raised %r" % (z, ex), c))
        if len(set(c["z"])) >= 3:
            nontriv.add("mixed")
        if ci == 0:
            samples.append(c)
    return len(cases), viol, nontriv, samples


CFG = "SPECIFICATION Spec\nCONSTANTS\n  Emit = %s\n  MaxN = %d\n  Heights = {0, 1, 3, 4}\nINVARIANT Inv\nCHECK_DEADLOCK FALSE\n"


def run(ctx, quick):
    n = 5 if quick else 6
    path, out = ctx.tlc_emit_file("Elevation", ctx.write_cfg("EL.cfg", CFG % ("TRUE", n)), label="height profiles to %d observations" % n)
    got = ctx.pmap_emitted(path, replay, chunk=300, growth=True)
    if got != out.distinct:
        raise core.Machinery("Elevation: emitted states %d != distinct states %d" % (got, out.distinct))
    ctx.extra["elevation_profiles_replayed"] = got
