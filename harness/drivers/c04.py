"""C04 - TrackSeq.tla bound to the sequence operations of Track.

spec -> code : for every timestamp sequence of length 0..MaxN over a 5-value domain TLC prints, for every
               argument, the source positions each operator designates; the driver runs the operator on a
               real track (observations tagged by a unique coordinate and feature value) and compares.
code -> spec : sort and chronological insertion (non-unique among equal timestamps) are recorded and judged
               by TrackSeqTrace.tla.  The transcribed binary search is model-checked for all sorted tracks."""
import itertools
import random

import core
import tk


def build(T, first_id=1, order=("f",), unit=1.0):
    """feature f holds the observation's id, g its negative, h ten times it; created in the given order.
    unit: seconds per tick of T (1 s, or 0.25 s: several observations inside the same whole second)"""
    t = tk.mk_track([float(first_id + i) for i in range(len(T))], ts=[v * unit for v in T])
    if len(T):
        for name in order:
            k = {"f": 1.0, "g": -1.0, "h": 10.0}[name]
            t.createAnalyticalFeature(name, [k * (first_id + i) for i in range(len(T))])
    return t


TABLES = [("f",), ("f", "g"), ("g", "f"), ("f", "g", "h"), ("h", "f", "g"), ("g", "h", "f"), ("f", "h")]


def concat_tables(T, n):
    """t1 + t2 for operands whose feature tables are the same list, permutations of each other, or different sets:
    every name listed on the result must read each observation's own value; equal tables must be carried over"""
    bad = []
    for o1 in TABLES:
        for o2 in TABLES:
            if (len(T) + TABLES.index(o1) + 2 * TABLES.index(o2)) % 3 and o1 != o2:
                continue                  # a third of the pairs per track (all of them over the enumeration)
            a, b = build(T, 1, o1), build(list(reversed(T)), n + 1, o2)
            res = a + b
            names = list(res.getListAnalyticalFeatures())
            if o1 == o2 and names != list(o1):
                bad.append("equal feature tables %s not carried over: %s" % (list(o1), names))
            for name in names:
                k = {"f": 1.0, "g": -1.0, "h": 10.0}.get(name)
                for pos, o in enumerate(res.getObsList()):
                    i = int(round(o.position.getX()))
                    if k is None or res.getObsAnalyticalFeature(name, pos) != k * i:
                        bad.append("tables %s + %s: feature %r of observation %d reads %r, its own value is %r"
                                   % (list(o1), list(o2), name, i, res.getObsAnalyticalFeature(name, pos), None if k is None else k * i))
                        break
    return bad


def ids(t):
    return [int(round(o.position.getX())) for o in t.getObsList()]


def carried(res, src_T, first_id=1):
    """every observation of the result still has its own timestamp and feature value"""
    base = None
    for k, o in enumerate(res.getObsList()):
        i = int(round(o.position.getX()))
        if res.getListAnalyticalFeatures() != ["f"]:
            return "feature table not carried over: %s" % res.getListAnalyticalFeatures()
        if res.getObsAnalyticalFeature("f", k) != float(i):
            return "feature value of observation %d is %r" % (i, res.getObsAnalyticalFeature("f", k))
    return None


def replay(cases):
    from tracklib.core.obs_time import ObsTime
    viol, nontriv, samples = [], set(), []
    for c in cases:
        T = c["T"]
        n = len(T)
        base = ObsTime(2020, 6, 15, 12, 0, 0).toAbsTime()
        for op in c["ops"]:
            name, a1, a2, exp = op
            src = build(T)
            res = None
            try:
                if name == "extract":
                    res = src.extract(a1, a2)
                elif name == "span":
                    if (a1 + 2 * a2 + n) % 2 == 0:
                        res = src.extractSpanTime(ObsTime.readUnixTime(base + a1), ObsTime.readUnixTime(base + a2))
                    else:             # the span handed over as a TRACK: from its first to its last timestamp
                        res = src.extractSpanTime(tk.mk_track([0.0, 0.0, 0.0], ts=[a1, (a1 + a2) / 2.0, a2]))
                elif name == "every":
                    res = src % a1
                elif name == "pattern":
                    res = src % [bool(v) for v in a1]
                elif name == "dropfirst":
                    res = src > a1
                elif name == "droplast":
                    res = src < a1
                elif name == "remove":
                    # the designated SET of positions is handed over in an order that varies with the case: ascending,
                    # descending, or rotated (the documented behaviour does not depend on the order of the list)
                    lst = sorted(a1)
                    k = (sum(lst) + len(T) + len(lst)) % 3
                    lst = lst if k == 0 else (lst[::-1] if k == 1 else lst[len(lst) // 2:] + lst[:len(lst) // 2])
                    src.removeObsList(lst)
                    res = src
                    if n:
                        # removal is by position (RemoveByPosition): a ring closed with the track's own first observation, and the
                        # track concatenated with itself, list observation OBJECTS twice; only the designated positions go
                        ring = build(T)
                        ring.addObs(ring.getFirstObs())
                        ring.removeObsList(list(lst))
                        twice = build(T)
                        twice = twice + twice
                        twice.removeObsList(list(lst))
                        if ids(ring) != exp + [1] or ids(twice) != exp + list(range(1, n + 1)):
                            viol.append(("remove/repeated-object", "removeObsList(%s) on the ring %s gave %s, on t + t gave %s; specification %s and %s"
                                         % (lst, list(range(1, n + 1)) + [1], ids(ring), ids(twice), exp + [1], exp + list(range(1, n + 1))),
                                         {"T": T, "op": op}))
                elif name == "concat":
                    other = build(list(reversed(T)), first_id=n + 1)
                    res = src + other
                    if ids(other) != list(range(n + 1, 2 * n + 1)):
                        viol.append(("concat", "second operand modified", op))
                    if n:
                        twice = src + src               # aliasing: the same object on both sides
                        if ids(twice) != list(range(1, n + 1)) * 2 or ids(src) != list(range(1, n + 1)):
                            viol.append(("concat/self", "t + t on timestamps %s: observations %s" % (T, ids(twice)), {"T": T, "op": op}))
                        for msg in concat_tables(T, n)[:2]:
                            viol.append(("concat/feature-tables", "+ on timestamps %s: %s" % (T, msg), {"T": T, "op": op}))
                else:
                    raise core.Machinery("unknown op " + name)
            except core.Machinery:
                raise
            except Exception as e:
                viol.append((name, "%s%r on T=%s raised %r" % (name, (a1, a2), T, e), {"T": T, "op": op}))
                continue
            got = ids(res)
            bad = None
            if got != exp:
                bad = "returned observations %s, specification %s" % (got, exp)
            elif name != "remove" and ids(src) != list(range(1, n + 1)):
                bad = "source track modified: %s" % ids(src)
            elif n and name not in ("remove",) and len(exp) and carried(res, T):
                bad = carried(res, T)
            elif n and name != "remove" and res.getListAnalyticalFeatures() != ["f"]:
                bad = "feature table not carried over: %s" % res.getListAnalyticalFeatures()
            if not bad and n and name != "remove":
                # the result OWNS its feature table: a feature created afterwards on the result does not appear on the source,
                # nor the other way round (and the source's features stay readable)
                try:
                    if res.size() > 0:
                        res.createAnalyticalFeature("k", 1.0)
                    src.createAnalyticalFeature("m", 2.0)
                    if src.getListAnalyticalFeatures() != ["f", "m"] or [float(v) for v in src.getAnalyticalFeature("f")] != [float(i) for i in range(1, n + 1)]:
                        bad = "after creating a feature on the RESULT the source lists %s" % src.getListAnalyticalFeatures()
                    elif res.getListAnalyticalFeatures() != (["f", "k"] if res.size() > 0 else ["f"]):
                        bad = "after creating a feature on the SOURCE the result lists %s" % res.getListAnalyticalFeatures()
                except (Exception, SystemExit) as ex:
                    bad = "creating features on the result / the source afterwards raised %r" % (ex,)
            if bad:
                sig = name
                if name == "droplast" and a1 > n:
                    sig = "droplast/n>size"
                viol.append((sig, "%s%r on timestamps %s: %s" % (name, (a1, a2), T, bad), {"T": T, "op": op}))
            if len(exp) not in (0, n):
                nontriv.add(repr((T, name, a1, a2)))
        if len(samples) < 2 and n >= 3:
            samples.append({"T": T, "ops": c["ops"][:6]})
    return sum(len(c["ops"]) for c in cases), viol, nontriv, samples


def record_sort_insert(args):
    """code -> spec events for one group of timestamp sequences"""
    from tracklib.core.obs_time import ObsTime
    seqs, times, id0 = args
    base = ObsTime(2020, 6, 15, 12, 0, 0).toAbsTime()
    out = []
    for T in seqs:
        T = list(T)
        n = len(T)
        # sortRadix: the bucket sort on the time fields (growth), same acceptance; it allocates 60 000 buckets per call,
        # so it is run on a fixed sixth of the sequences
        # a third of the sequences tick in quarters of a second: sub-second sampling, the order is decided by the milliseconds
        unit = 0.25 if (sum(T) + len(T)) % 3 == 1 else 1.0
        for how in (("sort", "sortRadix") if (sum(T) + 5 * len(T)) % 6 == 0 else ("sort",)):
            src = build(T, unit=unit)
            try:
                with core.quiet():
                    getattr(src, how)()
                r = ids(src)
                rts = [int(round((o.timestamp.toAbsTime() - base) / unit)) for o in src.getObsList()]
                rf = [int(round(src.getObsAnalyticalFeature("f", k))) for k in range(n)] if n else []
                out.append({"id": id0 + len(out), "ev": "sort", "how": how, "T": T, "r": r, "rts": rts, "rf": rf})
            except Exception as e:
                out.append({"id": id0 + len(out), "ev": "sort", "how": how, "T": T, "r": [], "rts": [], "rf": [], "exc": repr(e)})
        if T == sorted(T):
            for t in times:
                trk = build(T, unit=unit)
                from tracklib.core.obs import Obs
                from tracklib.core.obs_coords import ENUCoords
                o = Obs(ENUCoords(0.0, 0.0, 0.0), ObsTime.readUnixTime(base + t * unit))
                try:
                    with core.quiet():
                        trk.insertObs(o)
                    r = ids(trk)
                    rts = [int(round((ob.timestamp.toAbsTime() - base) / unit)) for ob in trk.getObsList()]
                    out.append({"id": id0 + len(out), "ev": "insert", "T": T, "t": t, "r": r, "rts": rts})
                except Exception as e:
                    out.append({"id": id0 + len(out), "ev": "insert", "T": T, "t": t, "r": [], "rts": [], "exc": repr(e)})
    return out


def cfg(maxn, searchn, emit):
    return """SPECIFICATION Spec
CONSTANTS
  MaxN = %d
  Times = {0, 1, 2, 3, 4}
  SearchN = %d
  Emit = %s
INVARIANT OpsAreSubsequences
INVARIANT Complement
INVARIANT RemoveByPosition
INVARIANT SearchKeepsSorted
INVARIANT ConcatReadsOwnValues
CHECK_DEADLOCK FALSE
""" % (maxn, searchn, "TRUE" if emit else "FALSE")


def run(ctx):
    quick = ctx.tier == "quick"
    rnd = random.Random(ctx.seed)
    maxn = 5 if quick else 6
    searchn = 12 if quick else 18
    ctx.rule = ("TLC enumerates every timestamp sequence of length 0..%d over {0..4} and prints the positions each operator "
                "designates for every argument (index pairs, spans incl. reversed/outside, steps, patterns, trims 0..n+2, all "
                "index subsets, concatenation); all replayed. sort / chronological insert on all those tracks + sorted tracks "
                "to size %d (+ random to 40) judged by TrackSeqTrace. Non-trivial = operator cases designating a proper "
                "non-empty subset." % (maxn, searchn))
    ctx.assumptions += ["observation identity is a unique x coordinate + feature value", "% n with n >= 1; trims with n >= 0"]
    ctx.tlc_mc("TrackSeq", ctx.write_cfg("TS_lt.cfg", cfg(1, 1, False).replace("INVARIANT ConcatReadsOwnValues", "INVARIANT ConcatLegacyTables")),
               label="self-test: concatenation keeping the table of permuted feature lists is refuted", expect_violation="ConcatLegacyTables")
    c = ctx.write_cfg("TS.cfg", cfg(maxn, searchn, True))
    path, out = ctx.tlc_emit_file("TrackSeq", c, label="TrackSeq ops to size %d, insertion search to size %d" % (maxn, searchn))
    n = ctx.pmap_emitted(path, replay, chunk=40)
    ctx.exhaustive = True
    ctx.extra["operator_cases_replayed"] = n
    # code -> spec: sort and chronological insertion
    times = [-1, 0, 1, 2, 3, 4, 99]
    seqs = []
    for k in range(0, (6 if quick else 7)):
        seqs.extend(itertools.product(range(5), repeat=k))
    for k in range(6 if quick else 7, searchn + 1):     # sorted tracks of larger size (power-of-two sizes included)
        for comb in itertools.combinations_with_replacement(range(5), k):
            seqs.append(comb)
    for _ in range(200 if quick else 3000):
        k = rnd.randrange(2, 41)
        s = [rnd.randrange(5) for _ in range(k)]
        seqs.append(tuple(sorted(s)) if rnd.random() < 0.7 else tuple(s))
    import multiprocessing as mp
    groups = [(seqs[i::64], times, i * 10000000) for i in range(64)]
    events = []
    with mp.get_context("fork").Pool(16, initializer=core._pool_init, initargs=(None,)) as pool:
        for evs in pool.imap_unordered(record_sort_insert, groups):
            events.extend(evs)
    byid = {e["id"]: e for e in events}
    rej = ctx.tlc_trace("TrackSeqTrace", events, chunks=16, label="sort/insert trace")
    for e in events:
        if "exc" in e:
            ctx.violation(e["ev"] + "/raised", "%s on %s raised %s" % (e["ev"], e["T"], e["exc"]), e)
        if len(set(e["T"])) < len(e["T"]):
            ctx.nontriv("S" + repr((e["ev"], e["T"], e.get("t"))))
    for i, clause in rej.items():
        e = byid[i]
        if "exc" not in e:
            ctx.violation(e["ev"] + "/" + clause, "%s of timestamps %s%s gave %s: %s" %
                          (e["ev"], e["T"], (" at instant %s" % e["t"]) if "t" in e else "", e["r"], clause), e)
    ctx.evaluations += len(events)
    ctx.sample({"trace_event": events[len(events) // 2]}, limit=8)
    # growth next to C04: selecting tracks / observations by constraints and selectors (Selection.tla)
    from drivers import selection_common
    selection_common.run(ctx, quick)
    # growth next to C04: the mutable collection of track objects (TrackColl.tla)
    from drivers import trackcoll_common
    trackcoll_common.run(ctx, quick)
    # growth next to C04: which tracks share which list / Obs objects (TrackShare.tla)
    from drivers import trackshare_common
    trackshare_common.run(ctx, quick)
    # growth next to C04: Track.cleanDuplicates (Dedup.tla)
    from drivers import dedup_common
    dedup_common.run(ctx, quick)
