"""C16 - Simplify.tla / SimplifyTrace.tla bound to tracklib.algo.simplification.simplify (code -> spec).

TLC checks the transcribed Douglas-Peucker recursion and Visvalingam elimination loop against the acceptance predicate
on every lattice track (and refutes the pinned variants: zero-length chord, eligible first fix).  The driver simplifies
for real every track of 2..4 (thorough 5) fixes of a 3x3 lattice - collinear runs, consecutive duplicates, revisits and
closed loops included - with seven tolerances (two of them between the side and the diagonal of the lattice boxes) and random longer tracks; the output is recorded as the list of input
fixes kept (fixes carry a hidden z / timestamp tag) and judged by TLC.  A call that raises is rejected."""
import itertools
import random
from fractions import Fraction

import core

# 6/5 and 11/5 lie between the larger side and the diagonal of the 1 x 1 and 2 x 2 (2 x 1) boxes of the lattice
TOLS = [Fraction(1, 10), Fraction(1, 2), Fraction(1), Fraction(6, 5), Fraction(3, 2), Fraction(11, 5), Fraction(10)]


def call(pts, tol, mode):
    from tracklib.algo.simplification import simplify, MODE_SIMPLIFY_DOUGLAS_PEUCKER, MODE_SIMPLIFY_VISVALINGAM
    from tracklib.core.track import Track
    from tracklib.core.obs import Obs
    from tracklib.core.obs_coords import ENUCoords
    from tracklib.core.obs_time import ObsTime
    t2 = tol * tol
    if t2 > 1000000:
        t2 = Fraction(1000000)      # beyond every squared distance of the families (coordinates to 450): same verdicts, and it fits TLC's integers
    e = {"ev": mode, "pts": [list(p) for p in pts], "t2": [t2.numerator, t2.denominator], "tol": str(tol), "raised": False, "out": []}
    t0 = ObsTime(2020, 6, 15, 12, 0, 0).toAbsTime()
    # history (every other call): the track OBJECT was simplified before, with the same mode and tolerance, when its fixes
    # were elsewhere (mirrored); they were then moved in place - same number of fixes - and the first result was trimmed by
    # the caller.  The answer is defined by the track as it stands at the time of the call.
    # the property does not depend on the unit of length: a third of the calls are made on coordinates AND tolerance divided
    # by 4 (exact in binary floating point; a lattice box is then smaller than one unit)
    h_ = (len(pts) + int(sum(3 * p[0] + p[1] for p in pts))) % 6
    # 0.1: coordinates in tenths, NOT exact in binary floating point; 2^-20: a lattice step is a micrometre (a creeping receiver:
    # consecutive fixes closer than any "same position" tolerance, cumulated displacement far above the tolerance of the call)
    sc = 0.25 if h_ == 0 else (2.0 ** -20 if h_ == 3 else (0.1 if h_ == 1 else 1.0))
    e["scale"] = sc
    hist = (len(pts) + int(sum(p[0] + 2 * p[1] for p in pts)) + (1 if mode == "dp" else 0)) % 2 == 0
    # fixes are identified by their timestamp, and by a tag in z as well - except in the micrometre unit, where z is 0 everywhere
    # (consecutive fixes are then close on EVERY axis)
    ztag = (lambda k: float(k + 1)) if sc > 1e-3 else (lambda k: 0.0)
    md = MODE_SIMPLIFY_DOUGLAS_PEUCKER if mode == "dp" else MODE_SIMPLIFY_VISVALINGAM
    if hist:
        e["hist"] = "simplified before, fixes then moved in place"
        tr = Track([Obs(ENUCoords(float(9 - p[1]), float(p[0] * (-1) ** k), ztag(k)), ObsTime.readUnixTime(t0 + k)) for k, p in enumerate(pts)])
        try:
            with core.quiet():
                first = simplify(tr, float(tol) * sc * (3 if len(pts) % 2 else 1), md)        # (with the same or with another tolerance)
                if first is not None and first.size() > 1 and len(pts) > 2:
                    first.removeObs(0)
        except (Exception, SystemExit):
            pass
        if tr.size() != len(pts):        # (the result of a tiny track may share its list with the input: start again)
            tr = Track([Obs(ENUCoords(0.0, 0.0, ztag(k)), ObsTime.readUnixTime(t0 + k)) for k, p in enumerate(pts)])
        for k, p in enumerate(pts):
            tr.getObs(k).position.setX(float(p[0]) * sc)
            tr.getObs(k).position.setY(float(p[1]) * sc)
    else:
        # whole coordinates are handed over as Python ints in a third of these calls (ENUCoords(3, 4, 0) is what users write)
        cf = (lambda v: int(v)) if sc == 1.0 and len(pts) % 3 == 0 else (lambda v: float(v) * sc)
        tr = Track([Obs(ENUCoords(cf(p[0]), cf(p[1]), ztag(k)), ObsTime.readUnixTime(t0 + k)) for k, p in enumerate(pts)])
        if len(pts) >= 4 and (len(pts) + int(sum(p[1] for p in pts))) % 2 == 0:
            # history: the track was simplified when it was two fixes shorter (a receiver that keeps logging); the fixes added
            # since are ordinary fixes (built by the caller, appended with addObs)
            e["hist"] = "simplified before, two fixes appended since"
            allobs = list(tr.getObsList())
            tr = Track(allobs[:-2])
            try:
                with core.quiet():
                    simplify(tr, float(tol) * sc, md)
            except (Exception, SystemExit):
                pass
            tr.addObs(allobs[-2])
            tr.addObs(allobs[-1])
    try:
        with core.quiet():
            out = simplify(tr, int(tol) if tol.denominator == 1 and len(pts) % 2 and sc == 1.0 else float(tol) * sc, md)
        kept = []
        for k in range(out.size()):
            o = out.getObs(k)
            tag = o.timestamp.toAbsTime() - t0 + 1
            idx = int(round(tag)) if abs(tag - round(tag)) < 1e-6 else 0
            if idx and abs(o.position.getZ() - ztag(idx - 1)) > 1e-9:
                idx = 0
            if not (1 <= idx <= len(pts)) or abs(o.position.getX() / sc - pts[idx - 1][0]) > 1e-9 or abs(o.position.getY() / sc - pts[idx - 1][1]) > 1e-9 \
                    or abs(o.timestamp.toAbsTime() - (t0 + idx - 1)) > 1e-6:
                idx = 0
            kept.append(idx)
        e["out"] = kept
        if tr.size() != len(pts):
            e["out"] = [0]              # the input track was modified
    except (Exception, SystemExit) as ex:
        e["raised"] = True
        e["exc"] = repr(ex)[:80]
    return e


def job_family(args):
    n, first = args
    lat = [(x, y) for x in range(3) for y in range(3)]
    out = []
    for rest in itertools.product(lat, repeat=n - 1):
        pts = [first] + list(rest)
        for tol in TOLS:
            out.append(call(pts, tol, "dp"))
            out.append(call(pts, tol, "visv"))
    return out


def job_long(args):
    """tracks of a few hundred fixes on which Douglas-Peucker peels one fix per level (saw-tooth, spike train, staircase):
    the depth of the recursion is of the order of the number of fixes (kept below the interpreter's own limit)"""
    n, shape = args
    if shape == "saw":
        pts = [(i, 3 * (i % 2)) for i in range(n)]
    elif shape == "spikes":
        pts = [(i, 3 if i % 4 == 1 else 0) for i in range(n)]
    else:
        pts = [(3 * ((i + 1) // 2), 3 * (i // 2)) for i in range(n)]          # staircase: steps of 3 across, 3 up
    out = []
    for tol in (Fraction(2), Fraction(6, 5)):
        out.append(call(pts, tol, "dp"))
    out.append(call(pts, Fraction(2), "visv"))
    return out


def job_random(args):
    seed, count = args
    rnd = random.Random(seed)
    out = []
    tols = TOLS + [Fraction(1, 4), Fraction(2), Fraction(5), Fraction(100), Fraction(3, 10), Fraction(10 ** 10), Fraction(10 ** 13)]    # "far above the track's extent"
    for _ in range(count):
        n = rnd.randrange(2, 13)
        hi = rnd.choice([2, 4, 9])
        style = rnd.random()
        pts = []
        for k in range(n):
            if pts and rnd.random() < 0.2:
                pts.append(pts[-1])                                   # consecutive duplicate
            elif pts and style < 0.3:
                pts.append((pts[-1][0] + 1 if pts[-1][0] < 8 else pts[-1][0], pts[-1][1]))   # collinear run
            elif len(pts) > 1 and rnd.random() < 0.15:
                pts.append(rnd.choice(pts))                           # revisit
            else:
                pts.append((rnd.randrange(hi), rnd.randrange(hi)))
        if rnd.random() < 0.3:
            pts[-1] = pts[0]                                          # closed loop
        tol = rnd.choice(tols)
        if rnd.random() < 0.3:                # a tolerance between the larger side and the diagonal of the track's bounding box
            w = max(p[0] for p in pts) - min(p[0] for p in pts)
            h = max(p[1] for p in pts) - min(p[1] for p in pts)
            m, d = max(w, h), (w * w + h * h) ** 0.5
            if d > m > 0:
                tol = Fraction(int((m + (d - m) * rnd.random()) * 100) + 1, 100)
        out.append(call(pts, tol, "dp"))
        out.append(call(pts, tol, "visv"))
    return out


def mc_cfg(maxfix, legacy=False, invs=("DPAccepted", "VisAccepted")):
    return ("SPECIFICATION Spec\nCONSTANTS\n  MaxFix = %d\n  LatS = 2\n  Tol2x100 = {1, 25, 100, 144, 225, 484, 10000}\n  Legacy = %s\n  Mode = \"mc\"\n"
            % (maxfix, "TRUE" if legacy else "FALSE") + "".join("INVARIANT %s\n" % i for i in invs) + "CHECK_DEADLOCK FALSE\n")


def klass(e):
    p = e["pts"]
    c = []
    if p[0] == p[-1]:
        c.append("closed")
    if any(p[k] == p[k + 1] for k in range(len(p) - 1)):
        c.append("dup")
    return "+".join(c) or "plain"


def run(ctx):
    quick = ctx.tier == "quick"
    mf = 4 if quick else 5
    ctx.rule = ("TLC: transcribed DP and Visvalingam accepted on every track of 2..%d fixes of the 3x3 lattice x 7 tolerances; "
                "pinned variants refuted. Binding: simplify(DP | VISVALINGAM) on every such track x 7 tolerances and random "
                "tracks of 2-12 fixes (duplicates, collinear runs, revisits, closed loops) x 10 tolerances; outputs recorded "
                "as kept input positions and judged by AcceptSimplification. Non-trivial = distinct (track, tolerance, mode) "
                "with a closed loop, a duplicate or at least one dropped fix." % (mf, ))
    ctx.assumptions += ["integer coordinates 0..8 (long saw-tooth / spike / staircase tracks: to 450); tolerances are rationals (squared tolerance exact)",
                        "tracks stay below ~300 fixes: Douglas-Peucker is recursive and one level per fix would reach the interpreter's recursion limit near 1000",
                        "fixes are identified by a z / timestamp tag (x, y may repeat)"]
    c = ctx.write_cfg("SI.cfg", mc_cfg(mf))
    ctx.tlc_mc("Simplify", c, label="Simplify design check, 2..%d fixes" % mf, timeout=3000)
    c = ctx.write_cfg("SIL1.cfg", mc_cfg(3, legacy=True, invs=("DPAccepted",)))
    ctx.tlc_mc("Simplify", c, label="self-test: zero-length chord refuted", expect_violation="DPAccepted")
    c = ctx.write_cfg("SIL2.cfg", mc_cfg(3, legacy=True, invs=("VisAccepted",)))
    ctx.tlc_mc("Simplify", c, label="self-test: eligible first fix refuted", expect_violation="VisAccepted")
    import multiprocessing as mp
    lat = [(x, y) for x in range(3) for y in range(3)]
    jobs = []
    for n in range(2, mf + 1):
        for first in lat:
            jobs.append((job_family, (n, first)))
    for k in range(32):
        jobs.append((job_random, (ctx.seed * 41 + k, 60 if quick else 4000)))
    for n, shape in ([(260, "saw"), (300, "spikes")] if quick else
                     [(n, sh) for n in (171, 230, 260, 300) for sh in ("saw", "spikes", "stairs")]):
        jobs.append((job_long, (n, shape)))
    events = []
    with mp.get_context("fork").Pool(16, initializer=core._pool_init, initargs=(None,)) as pool:
        res = [pool.apply_async(f, (a,)) for f, a in jobs]
        for r in res:
            events.extend(r.get())
    for k, e in enumerate(events):
        e["id"] = k
    rej = ctx.tlc_trace("SimplifyTrace", events, chunks=16, label="simplification trace", timeout=3000)
    byid = {e["id"]: e for e in events}
    for i, clause in sorted(rej.items()):
        e = byid[i]
        ctx.violation("%s/%s/%s" % (e["ev"], clause, klass(e)),
                      "simplify(%s, tolerance %s, %s) -> kept %s %s: %s" % (e["pts"], e["tol"], e["ev"], e["out"], e.get("exc", ""), clause), e)
    for e in events:
        if klass(e) != "plain" or (not e["raised"] and len(e["out"]) < len(e["pts"])):
            ctx.nontriv(repr((e["pts"], e["tol"], e["ev"])))
    ctx.evaluations += len(events)
    ctx.exhaustive = True
    for e in events:
        if len(e["pts"]) >= 7 and not e["raised"] and 2 < len(e["out"]) < len(e["pts"]):
            ctx.sample({k: e[k] for k in ("ev", "pts", "tol", "out")}, limit=2)
