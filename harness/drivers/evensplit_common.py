"""EvenSplit.tla bound to Track.__truediv__ (track / n) (spec -> code): for every (size, n) printed by the model the real
operator is applied; the pieces (observations identified by a tag, and by object identity with the source's), their feature
table and the untouched source are compared with the specification."""
import core


def replay(cases):
    import tk
    viol, nontriv, samples = [], set(), []
    for ci, c in enumerate(cases):
        size, n = c["size"], c["n"]
        try:
            with core.quiet():
                tr = tk.mk_track([float(k) for k in range(size)])
                if size:
                    tr.createAnalyticalFeature("f", [10.0 + k for k in range(size)])
                src = [tr.getObs(k) for k in range(size)]
                coll = tr / n
                got = [[int(p.getObs(k).position.getX()) for k in range(p.size())] for p in [coll.getTrack(i) for i in range(coll.size())]]
                same = all(coll.getTrack(i).getObs(k) is src[got[i][k]] for i in range(coll.size()) for k in range(len(got[i])))
                feats = all(coll.getTrack(i).getListAnalyticalFeatures() == (["f"] if size else []) for i in range(coll.size()))
                untouched = tr.size() == size and all(tr.getObs(k) is src[k] for k in range(size))
        except (Exception, SystemExit) as ex:
            viol.append(("evensplit/raised", "track of %d observations / %d raised %r" % (size, n, ex), c))
            continue
        want = [list(p) for p in c["pieces"]]
        if got != want:
            viol.append(("evensplit/pieces", "track of %d observations / %d gave %s, specification %s" % (size, n, got, want), c))
        elif not same or not feats or not untouched:
            viol.append(("evensplit/objects", "track of %d observations / %d: shared objects %s, feature table carried %s, source untouched %s" % (size, n, same, feats, untouched), c))
        if size % n:
            nontriv.add("remainder")
        if ci == 0:
            samples.append(c)
    return len(cases), viol, nontriv, samples


CFG = "SPECIFICATION Spec\nCONSTANTS\n  Emit = %s\n  MaxSize = %d\n  MaxN = %d\nINVARIANT %s\nCHECK_DEADLOCK FALSE\n"


def run(ctx, quick):
    ctx.tlc_mc("EvenSplit", ctx.write_cfg("ES_c.cfg", CFG % ("FALSE", 5, 3, "CoversAll")), expect_violation="CoversAll",
               label="EvenSplit self-test: the last size mod n observations are in no piece (CoversAll refuted)")
    ms, mn = (12, 6) if quick else (40, 12)
    path, out = ctx.tlc_emit_file("EvenSplit", ctx.write_cfg("ES.cfg", CFG % ("TRUE", ms, mn, "Inv")), label="track / n for sizes to %d, n to %d" % (ms, mn))
    got = ctx.pmap_emitted(path, replay, chunk=50, growth=True)
    if got != out.distinct:
        raise core.Machinery("EvenSplit: emitted states %d != distinct states %d" % (got, out.distinct))
    ctx.extra["even_split_calls_replayed"] = got
