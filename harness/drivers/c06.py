"""C06 - Routing.tla bound to Network.shortest_distance / all_shortest_distances / prepare.

TLC: (algo) the implementation's Dijkstra + lazy priority dictionary as a state machine, all pop orders, equals the
Bellman-Ford definition on every multigraph with <= 3 nodes / <= 3 edges; (table) the same family printed with its
distance table -> replayed on the real Network (pair query, list form, all-pairs with cut-offs below / equal / above
the distances, prepared distances).  Random graphs to 12 nodes / 40 edges are judged by RoutingTrace.tla."""
import random

import core
import tk
from drivers import routing_common as rc

CUTS = [0, 1, 2, 3, 999999]


def cfg(nn, maxe, mode, emit, inv=True):
    s = """SPECIFICATION Spec
CONSTANTS
  NN = %d
  MaxE = %d
  Weights = {0, 1, 2}
  Mode = "%s"
  Emit = %s
""" % (nn, maxe, mode, "TRUE" if emit else "FALSE")
    if inv:
        s += "INVARIANT AlgoCorrect\nINVARIANT SettledFinal\nINVARIANT PopFinal\nINVARIANT DefSane\n"
    return s + "CHECK_DEADLOCK FALSE\n"


def replay(cases):
    viol, nontriv, samples = [], set(), []
    ncalls = 0
    for c in cases:
        g = [list(e) for e in c["g"]]
        d = c["d"]
        if isinstance(d, dict):       # functions over 0..n-1 are printed as objects keyed by "0", "1", ...
            d = [[d[str(a)][str(b)] for b in range(len(d))] for a in range(len(d))]
        n = len(d)
        exp = lambda s, t: -1 if d[s][t] >= 1000000 else d[s][t]
        net = rc.build_network(n, g)
        sigbase = rc.sig_graph({"g": g})
        for s in range(n):
            for t in range(n):
                f = (s + 2 * t + len(g)) % 4            # id/id, Node/id, id/Node, Node/Node: all documented argument forms
                got = net.shortest_distance(rc.arg(net, s, f & 1), rc.arg(net, t, f >> 1))
                ncalls += 1
                if got != exp(s, t):
                    viol.append(("pair/" + sigbase, "shortest_distance(%d,%d) = %r on %s, specification %r" % (s, t, got, g, exp(s, t)), c))
            lst = net.shortest_distance(s)
            ncalls += 1
            want = [1e300 if d[s][t] >= 1000000 else d[s][t] for t in range(n)]
            if list(lst) != want:
                viol.append(("list/" + sigbase, "shortest_distance(%d) = %r on %s, specification %r" % (s, lst, g, want), c))
        for cut in CUTS:
            net2 = rc.build_network(n, g)
            tab = net2.all_shortest_distances(cut=(1e300 if cut >= 999999 else cut))
            ncalls += 1
            want = {(s, t): d[s][t] for s in range(n) for t in range(n) if d[s][t] <= cut}
            if dict(tab) != want:
                viol.append(("table/" + sigbase, "all_shortest_distances(cut=%s) = %r on %s, specification %r" % (cut, dict(tab), g, want), c))
        net3 = rc.build_network(n, g)
        net3.prepare(verbose=False)
        for s in range(n):
            for t in range(n):
                f = (2 * s + t + len(g)) % 4
                got = net3.prepared_shortest_distance(rc.arg(net3, s, f & 1), rc.arg(net3, t, f >> 1))
                ncalls += 1
                want = 1e300 if d[s][t] >= 1000000 else d[s][t]
                if got != want:
                    viol.append(("prepared/" + sigbase, "prepared_shortest_distance(%d,%d) = %r on %s, specification %r" % (s, t, got, g, want), c))
        # prepare(cut): the prepared table holds exactly the pairs within the cut-off, with their distances
        for cut in CUTS:
            if cut >= 999999:
                continue
            net4 = rc.build_network(n, g)
            net4.prepare(cut=cut, verbose=False)
            ncalls += 1
            for s in range(n):
                for t in range(n):
                    f = (s + t + cut) % 4
                    has = bool(net4.has_prepared_shortest_distance(rc.arg(net4, s, f & 1), rc.arg(net4, t, f >> 1)))
                    got = net4.prepared_shortest_distance(rc.arg(net4, s, f >> 1), rc.arg(net4, t, f & 1))
                    within = d[s][t] <= cut
                    if has != within or got != (d[s][t] if within else 1e300):
                        viol.append(("prepared-cut/" + sigbase, "after prepare(cut=%s): has_prepared(%d,%d) = %r, prepared_shortest_distance = %r on %s, specification distance %r"
                                     % (cut, s, t, has, got, g, d[s][t]), c))
        # history: a table filled twice (first with a small cut-off, then with a larger one; the docstring allows successive
        # calls on the same structure): it holds the pairs within the LARGER cut-off, through prepare and through output_dict
        net5 = rc.build_network(n, g)
        net5.prepare(cut=0, verbose=False)
        net5.prepare(cut=2, verbose=False)
        tab5 = {}
        net6 = rc.build_network(n, g)
        net6.all_shortest_distances(cut=1, output_dict=tab5)
        net6.all_shortest_distances(cut=3, output_dict=tab5)
        ncalls += 4
        for s in range(n):
            for t in range(n):
                has = bool(net5.has_prepared_shortest_distance(s, t))
                if has != (d[s][t] <= 2) or (has and net5.prepared_shortest_distance(s, t) != d[s][t]):
                    viol.append(("prepared-twice/" + sigbase, "after prepare(cut=0) then prepare(cut=2): pair (%d,%d) prepared=%r on %s, specification distance %r"
                                 % (s, t, has, g, d[s][t]), c))
        want = {(s, t): d[s][t] for s in range(n) for t in range(n) if d[s][t] <= 3}
        if dict(tab5) != want:
            viol.append(("table-twice/" + sigbase, "all_shortest_distances(cut=1) then (cut=3) into the same dictionary = %r on %s, specification %r" % (dict(tab5), g, want), c))
        if sigbase != "plain" or any(d[s][t] >= 1000000 for s in range(n) for t in range(n)):
            nontriv.add(repr(g))
        if len(samples) < 2 and len(g) == 3:
            samples.append({"graph": g, "spec_distance_table": d})
    return len(cases), viol, nontriv, samples


def _rand_events(args):
    seed, count, id0 = args
    rnd = random.Random(seed)
    ev = []
    for _ in range(count):
        n, g = rc.random_graph(rnd)
        dmax = 12
        cuts = [0, rnd.randrange(1, dmax), rnd.randrange(1, dmax), 999999]
        ev.extend(rc.dist_events(n, g, id0 + len(ev), cuts))
        ev.extend(rc.subnet_events(n, g, id0 + len(ev), rnd))        # growth: sub_network(TOPOLOGIC)
        ev.extend(rc.btw_events(rnd, id0 + len(ev)))                 # growth: distanceBtwPts
    return ev


def run(ctx):
    quick = ctx.tier == "quick"
    ctx.rule = ("TLC enumerates all multigraphs with 3 nodes, <= 3 edges (weights 0,1,2; three orientations; self loops, parallel "
                "edges), every source and every pop order of the algorithm; every graph's table replayed on the real Network "
                "(pair, list, all-pairs x 5 cut-offs, prepared); random graphs to 12 nodes / 40 edges judged by RoutingTrace. "
                "Non-trivial = graph with a zero weight, a reverse-only edge, a self loop or an unreachable pair (distinct graphs).")
    ctx.assumptions += ["non-negative integer weights (the model's lattice); pair queries without cut-off"]
    maxe = 3
    c = ctx.write_cfg("R_algo.cfg", cfg(3, 2 if quick else 3, "algo", False))
    ctx.tlc_mc("Routing", c, label="Dijkstra state machine = Bellman-Ford definition (all pop orders)")
    c = ctx.write_cfg("R_table.cfg", cfg(3, maxe, "table", True))
    path, out = ctx.tlc_emit_file("Routing", c, label="emit distance tables of all <=3-edge multigraphs")
    n = ctx.pmap_emitted(path, replay, chunk=300)
    ctx.exhaustive = True
    ctx.extra["graphs_replayed"] = n
    # random graphs, code -> spec
    import multiprocessing as mp
    per = 8 if quick else 120
    jobs = [(ctx.seed * 100 + k, per, k * 10000000) for k in range(32)]
    events = []
    with mp.get_context("fork").Pool(16, initializer=core._pool_init, initargs=(None,)) as pool:
        for ev in pool.imap_unordered(_rand_events, jobs):
            events.extend(ev)
    for e in [e for e in events if "exc" in e]:
        ctx.growth("%s/raised" % e["ev"], "%s on graph %s raised %s" % (e["ev"], e["g"], e["exc"]), e)
    events = [e for e in events if "exc" not in e]
    bad_wire = [e for e in events if (e["ev"] in ("dist", "btw") and e["d"] is None)]
    for e in bad_wire:
        ctx.violation("non-integer-distance", "distance is not an integer on an integer-weighted graph", e)
    events = [e for e in events if e not in bad_wire]
    byid = {e["id"]: e for e in events}
    rej = ctx.tlc_trace("RoutingTrace", events, chunks=16, label="random graphs trace")
    for i, clause in rej.items():
        e = byid[i]
        # sub_network / distanceBtwPts are growth of the routing specification, not part of the listed property
        (ctx.growth if e["ev"] in ("subnet", "btw") else ctx.violation)("%s/%s/%s" % (e["ev"], clause, rc.sig_graph(e)), "recorded %s on graph %s (n=%d): clause %s; event %s" %
                      (e["ev"], e["g"], e["n"], clause, {k: v for k, v in e.items() if k not in ("g",)}), e)
    for e in events:
        if e["ev"] == "table":
            ctx.nontriv("R" + repr(e["g"]))
    ctx.evaluations += len(events)
    ctx.extra["random_graph_events"] = len(events)
    if events:
        ctx.sample({"random_event": events[len(events) // 3]}, limit=8)
    # the priority queue under the algorithm (growth of the specification): PrioDict.tla / PrioDictTrace.tla
    from drivers import prio_common
    prio_common.run(ctx, quick)
    prio_common.run_topo(ctx, quick)
    # growth next to C06: the A* routing mode as coded (AStar.tla)
    from drivers import astar_common
    astar_common.run(ctx, quick)
