"""C02 - ExprEval.tla bound to Track.operate(<expression>) and to the Operator objects.

TLC enumerates every expression tree of the bounded grammar, checks on the model that the
implementation's splitter reads every rendered tree back as that tree, and prints for each
tree the rendered strings and the vectors the specification assigns on five environments.
The driver evaluates the strings on real tracks and compares (spec -> code).  Deeper random
tree SHAPES are proposed by the driver in a file; strings and values still come from TLC."""
import math
import random
from fractions import Fraction

import core
import tk

ENVS = [
    {"n": 1, "a": [2], "b": [-1], "x": [3]},
    {"n": 2, "a": [0, -2], "b": [3, 3], "x": [1, 4]},
    {"n": 3, "a": [1, float("nan"), -2], "b": [0, 2, 2], "x": [2, 2, 5]},
    {"n": 4, "a": [4, 0, -1, 0], "b": [1, 1, 2, 3], "x": [0, 1, 2, 3]},
    {"n": 3, "a": [4, 0, -1], "b": [2, -3, 1], "x": [-1, 0, 2]},
]
BIN_OBJ = {"+": "ADDER", "-": "SUBSTRACTER", "*": "MULTIPLIER", "/": "DIVIDER", "^": "POWER", ">": "ABOVE", "<": "BELOW"}
SC_OBJ = {"+": "SCALAR_ADDER", "-": "SCALAR_SUBSTRACTER", "*": "SCALAR_MULTIPLIER", "/": "SCALAR_DIVIDER",
          "^": "SCALAR_POWER", ">": "SCALAR_ABOVE", "<": "SCALAR_BELOW"}
SCR_OBJ = {"+": "SCALAR_ADDER", "-": "SCALAR_REV_SUBSTRACTER", "*": "SCALAR_MULTIPLIER", "/": "SCALAR_REV_DIVIDER",
           "^": "SCALAR_REV_POWER", ">": "SCALAR_REV_ABOVE", "<": "SCALAR_REV_BELOW"}
FUN_OBJ = {"D": "DIFFERENTIATOR", "D2": "SECOND_ORDER_FINITE_DIFF", "I": "INTEGRATOR", "ABS": "RECTIFIER", "SIGN": "SIGN", "DIODE": "DIODE",
           "SUM": "SUM", "AVG": "AVERAGER", "VAR": "VARIANCE", "MSE": "MSE", "MIN": "MIN", "MAX": "MAX",
           "ARGMIN": "ARGMIN", "ARGMAX": "ARGMAX", "MEDIAN": "MEDIAN", "MAD": "MAD"}
VOID_FUN = {"D", "D2", "I", "ABS", "SIGN", "DIODE"}
LITS = {"0", "1", "2", "3", "0.5"}


_ENVN = [0]
_UNIT = [1.0]       # the unit in which the features a and b are expressed (a power of two: exact); see the quotient family in replay()


def env_track(k):
    """every third track carries its feature values as numpy scalars (features filled from numpy arrays are common)"""
    e = ENVS[k]
    n = e["n"]
    _ENVN[0] += 1
    if _ENVN[0] % 3 == 0:
        import numpy as np
        conv = np.float64
    else:
        conv = float
    from tracklib.core.track import Track
    from tracklib.core.obs import Obs
    from tracklib.core.obs_coords import ENUCoords
    from tracklib.core.obs_time import ObsTime
    t = Track([Obs(ENUCoords(float(e["x"][i]), float(10 + i + 1), float(-(i + 1))), ObsTime(1970, 1, 1, 0, 0, 5 * (i + 1)))
               for i in range(n)])
    t.createAnalyticalFeature("a", [conv(v * _UNIT[0]) for v in e["a"]])
    t.createAnalyticalFeature("b", [conv(v * _UNIT[0]) for v in e["b"]])
    return t


def snap(t):
    names = t.getListAnalyticalFeatures()
    return {"names": sorted(names), "cols": {n: list(t.getAnalyticalFeature(n)) for n in names},
            "lens": [len(o.features) for o in t.getObsList()], "x": t.getX(), "y": t.getY(), "z": t.getZ(), "t": t.getT()}


def same_list(u, v):
    return len(u) == len(v) and all((tk.isnan(p) and tk.isnan(q)) or p == q for p, q in zip(u, v))


def frame_ok(pre, post, written=None, coord=None):
    """nothing but `written` (feature) / `coord` (coordinate) changed"""
    exp_names = sorted(set(pre["names"]) | ({written} if written else set()))
    if post["names"] != exp_names:
        return "listed features %s, expected %s" % (post["names"], exp_names)
    if any(l != len(exp_names) for l in post["lens"]):
        return "misaligned feature lists %s" % post["lens"]
    for n in pre["names"]:
        if n != written and not same_list(pre["cols"][n], post["cols"][n]):
            return "feature %s changed as a side effect" % n
    for c in ("x", "y", "z", "t"):
        if c != coord and not same_list(pre[c], post[c]):
            return "%s changed as a side effect" % c
    return None


def vec_ok(got, vals):
    """got: list from the implementation; vals: model rationals [[n,d],...]. Undef entries match anything."""
    try:
        got = list(got)
    except Exception:
        return False
    if len(got) != len(vals):
        return False
    for g, (n, d) in zip(got, vals):
        if d == 0:
            if n == 1:
                continue
            try:
                if not math.isnan(float(g)):
                    return False
            except Exception:
                return False
        elif not tk.num_eq(g, n / d):
            return False
    return True


def has_undef(vals):
    return any(d == 0 and n == 1 for n, d in vals)


def node_kinds(t, acc):
    if t[0] == "B":
        lk = "L" if t[2][0] == "L" and t[2][1] in LITS else ("f" if t[2][0] == "L" else "e")
        rk = "L" if t[3][0] == "L" and t[3][1] in LITS else ("f" if t[3][0] == "L" else "e")
        acc.add(t[1] + lk + rk)
        node_kinds(t[2], acc); node_kinds(t[3], acc)
    elif t[0] == "N":
        acc.add("neg"); node_kinds(t[1], acc)
    elif t[0] == "F":
        acc.add("F:" + t[1]); node_kinds(t[2], acc)
    return acc


def depth(t):
    if t[0] == "L":
        return 1
    if t[0] == "B":
        return 1 + max(depth(t[2]), depth(t[3]))
    return 1 + depth(t[-1])


EXT_NAMES = {"0": "zero", "1": "one", "2": "two", "3": "three", "0.5": "half"}
_LIT = None


def externalise(s):
    """the same expression with its literals handed over as EXTERNAL values: (text with names, {name: value})"""
    global _LIT
    import re
    if _LIT is None:
        _LIT = re.compile(r"(?<![\w.])(0\.5|[0-3])(?![\w.])")
    used = {}

    def sub(m):
        used[EXT_NAMES[m.group(1)]] = float(m.group(1))
        return EXT_NAMES[m.group(1)]
    return _LIT.sub(sub, s), used


def run_expr(k, s, vals, variant):
    """One evaluation on environment k; returns None or a description of the deviation."""
    t = env_track(k)
    pre = snap(t)
    undef = has_undef(vals)
    try:
        if variant == "external":
            s2, ext = externalise(s)
            if not ext:
                return None
            try:                       # history: the same text was evaluated before, elsewhere, with OTHER external values
                env_track(k).operate(s2, {n: v * 3.0 - 7.0 for n, v in ext.items()})
            except (Exception, SystemExit):
                pass
            r = t.operate(s2, ext)
            variant = "pure"
        elif variant == "pure":
            r = t.operate(s)
        elif variant == "bracket":
            r = t[s]
        elif variant.startswith("reflex:"):
            r = t.operate(s)                 # s is already the reflexive spelling  name op= rhs
            variant = variant[7:]
        else:
            r = t.operate(variant + "=" + s)
    except (Exception, SystemExit) as ex:
        if undef:
            return None
        return "raised %r" % (ex,)
    post = snap(t)
    if undef:
        return None              # arithmetic-undefined somewhere: nothing is claimed about this call
    if variant in ("pure", "bracket"):
        if not vec_ok(r, vals):
            return "returned %s, specification %s" % (r, vals)
        return frame_ok(pre, post)
    if variant in ("x", "y", "z"):
        if not vec_ok(post[variant], vals):
            return "coordinate %s is %s, specification %s" % (variant, post[variant], vals)
        return frame_ok(pre, post, coord=variant)
    if variant not in post["cols"] or not vec_ok(post["cols"][variant], vals):
        return "feature %s reads %s, specification %s" % (variant, post["cols"].get(variant), vals)
    return frame_ok(pre, post, written=variant)


def run_object(k, tree, vals, inplace=False):
    """one-node trees: the corresponding Operator object applied directly; inplace = the output name is omitted, which
    Track.operate documents as "the first input feature" (the operator then reads and writes the same column)"""
    from tracklib.core.operators import Operator
    t = env_track(k)
    pre = snap(t)
    undef = has_undef(vals)
    dest = "c"
    try:
        if tree[0] == "B":
            l, r = tree[2], tree[3]
            ll, rl = l[1] in LITS, r[1] in LITS
            if ll and rl:
                return None
            if inplace:
                dest = r[1] if ll else l[1]
                if dest not in ("a", "b"):
                    return None
            out = () if inplace else ("c",)
            if not ll and not rl:
                t.operate(getattr(Operator, BIN_OBJ[tree[1]]), l[1], r[1], *out)
            elif not ll and rl:
                t.operate(getattr(Operator, SC_OBJ[tree[1]]), l[1], float(r[1]), *out)
            else:
                t.operate(getattr(Operator, SCR_OBJ[tree[1]]), r[1], float(l[1]), *out)
            got = None
        else:
            f = tree[1]
            if f in VOID_FUN:
                if inplace:
                    dest = tree[2][1]
                    if dest not in ("a", "b"):
                        return None
                    t.operate(getattr(Operator, FUN_OBJ[f]), dest)
                else:
                    t.operate(getattr(Operator, FUN_OBJ[f]), tree[2][1], "c")
                got = None
            else:
                if inplace:
                    return None
                got = t.operate(getattr(Operator, FUN_OBJ[f]), tree[2][1])
    except (Exception, SystemExit) as ex:
        return None if undef else "operator object raised %r" % (ex,)
    if undef:
        return None
    post = snap(t)
    if got is not None:
        if not vec_ok([got] * len(vals), vals):
            return "operator object returned %r, specification %s" % (got, vals[0])
        return frame_ok(pre, post)
    if dest not in post["cols"] or not vec_ok(post["cols"][dest], vals):
        return "operator object wrote %s into %s, specification %s" % (post["cols"].get(dest), dest, vals)
    return frame_ok(pre, post, written=dest)


VARIANTS = ["c", "a", "x", "bracket", "z", "b"]


def replay(cases):
    viol, nontriv, samples = [], set(), []
    for c in cases:
        tree = c["tree"]
        kinds = sorted(node_kinds(tree, set()))
        h = sum(ord(ch) for ch in c["s"])
        strings = [("min", c["s"])]
        if c["sf"] != c["s"]:
            strings.append(("full", c["sf"]))
        if "^" in c["s"]:
            strings.append(("starstar", c["s"].replace("^", "**")))
        if len(c["s"]) > 2:
            strings.append(("spaces", " ".join(c["s"])) if False else ("fcall", c["s"].replace("{", "(").replace("}", ")")))
        one_node = (tree[0] == "B" and tree[2][0] == "L" and tree[3][0] == "L") or (tree[0] == "F" and tree[2][0] == "L")
        for k in range(len(ENVS)):
            vals = c["vals"][k]
            for style, s in strings:
                if style == "fcall" and "{" not in c["s"]:
                    continue
                vs = ["pure", VARIANTS[(h + k) % len(VARIANTS)]] + (["external"] if (h + 2 * k) % 3 == 0 and style == "min" else [])
                for v in vs:
                    if v == "bracket" and not any(ch in s for ch in "+-*/^"):
                        continue
                    bad = run_expr(k, s, vals, v)
                    if bad:
                        viol.append(("expr/%s/%s" % (style if style != "min" else "-", ",".join(kinds)),
                                     "%r (%s) on environment %d: %s" % ((v + "=" + s) if v not in ("pure", "bracket") else s, v, k, bad),
                                     {"case": c, "env": k, "variant": v}))
            if c.get("rs"):                  # reflexive spelling of  name op rhs : stores the same values under name
                bad = run_expr(k, c["rs"], vals, "reflex:" + tree[2][1])
                if bad:
                    viol.append(("expr/reflexive/" + ",".join(kinds), "%r on environment %d: %s" % (c["rs"], k, bad), {"case": c, "env": k, "variant": "reflexive"}))
            if tree[0] == "B" and tree[1] == "/" and tree[2][0] == "L" and tree[3][0] == "L" and tree[2][1] in ("a", "b") and tree[3][1] in ("a", "b"):
                # a quotient of two features does not depend on their unit: the same values in units of 2^-60 and 2^-1000 (exact;
                # every non-zero denominator is then far below machine epsilon and still an ordinary number)
                for unit in (2.0 ** -60, 2.0 ** -1000):
                    _UNIT[0] = unit
                    try:
                        bad = run_expr(k, c["s"], vals, "pure") or run_object(k, tree, vals, False)
                    finally:
                        _UNIT[0] = 1.0
                    if bad:
                        viol.append(("expr/tiny-unit/" + ",".join(kinds), "%r with a and b in units of %r on environment %d: %s" % (c["s"], unit, k, bad),
                                     {"case": c, "env": k, "variant": "tiny-unit"}))
            if one_node:
                for inplace in (False, True):
                    bad = run_object(k, tree, vals, inplace)
                    if bad:
                        viol.append(("object%s/" % ("-in-place" if inplace else "") + ",".join(kinds),
                                     "operator object for %s%s on environment %d: %s" % (c["s"], " (output name omitted)" if inplace else "", k, bad),
                                     {"case": c, "env": k, "inplace": inplace}))
        if depth(tree) >= 3 and len(set(ch for ch in c["s"] if ch in "+-*/^<>")) >= 2:
            nontriv.add(c["s"])
        if len(samples) < 2 and depth(tree) >= 3:
            samples.append({"expr": c["s"], "full": c["sf"], "spec_values_env3": c["vals"][2]})
    return len(cases), viol, nontriv, samples


# ---------------------------------------------------------------- random deeper shapes (file mode)
def rand_tree(rnd, d):
    if d <= 1 or rnd.random() < 0.25:
        return ["L", rnd.choice(["a", "b", "x", "y", "z", "idx", "t", "2", "3", "0.5", "1"])]
    r = rnd.random()
    if r < 0.72:
        op = rnd.choice("++--**/<>^")
        return ["B", op, rand_tree(rnd, d - 1), rand_tree(rnd, d - 1)]
    if r < 0.8:
        return ["N", rand_tree(rnd, d - 1)]
    f = rnd.choice(sorted(FUN_OBJ))
    sub = rand_tree(rnd, d - 1)
    return ["F", f, sub]


def has_feature(t):
    if t[0] == "L":
        return t[1] not in LITS
    if t[0] == "B":
        return has_feature(t[2]) or has_feature(t[3])
    if t[0] == "N":
        return has_feature(t[1])
    return True


def in_domain(t):
    if t[0] == "L":
        return True
    if t[0] == "B":
        return in_domain(t[2]) and in_domain(t[3])
    if t[0] == "N":
        return in_domain(t[1])
    return has_feature(t[2]) and in_domain(t[2])


def magnitude_ok(t):
    """Filter only (not an oracle): keep shapes whose intermediate values stay far from 2^31 in the model."""
    def ev(t):
        if t[0] == "L":
            return 5 if t[1] not in LITS else 3        # rough bound on |value| and denominators
        if t[0] == "B":
            a, b = ev(t[2]), ev(t[3])
            if t[1] in "+-":
                return a * b * 2
            if t[1] in "*/":
                return a * b
            if t[1] == "^":
                return a ** 3
            return 1
        if t[0] == "N":
            return ev(t[1])
        return ev(t[2]) * 4 if t[1] in ("SUM", "I", "VAR", "MSE", "AVG") else ev(t[2])
    try:
        return ev(t) < 20000
    except OverflowError:
        return False


def enum_cfg(mod, res, emit=True, funs=None):
    funs = funs or sorted(FUN_OBJ)
    return """SPECIFICATION Spec
CONSTANTS
  Mode = "enum"
  Leaves = {"a", "b", "x", "2", "3"}
  BinOps = {"+", "-", "*", "/", "^", "<", ">"}
  Funs = {%s}
  Emit = %s
  SampleMod = %d
  SampleRes = %d
INVARIANT Precedence
INVARIANT WellFormedVals
CHECK_DEADLOCK FALSE
""" % (", ".join('"%s"' % f for f in funs), "TRUE" if emit else "FALSE", mod, res)


FILE_CFG = """SPECIFICATION Spec
CONSTANTS
  Mode = "file"
  Leaves = {}
  BinOps = {}
  Funs = {}
  Emit = TRUE
  SampleMod = 1
  SampleRes = 0
CHECK_DEADLOCK FALSE
"""


def run(ctx):
    quick = ctx.tier == "quick"
    rnd = random.Random(ctx.seed)
    ctx.rule = ("TLC enumerates all trees with <= 2 nested operators over leaves {a,b,x,2,3}, 7 binary operators, unary minus "
                "and 15 functions (431 465 trees), checks the splitter reads each back, and prints strings + values on 5 "
                "environments (sizes 1..4, zeros, negatives, equal values, NaN); %s of them are replayed in up to 4 renderings "
                "x (pure + one assignment variant) + operator objects for one-node trees; random shapes to depth 6 go through "
                "the model in file mode. Non-trivial = distinct expression strings with nesting >= 2 and >= 2 different operators."
                % ("a 1/40 sample" if quick else "all"))
    ctx.assumptions += ["arithmetic-undefined points (x/0, 0^-k, non-integer or large exponents, aggregates of empty/NaN-only "
                        "vectors, SIGN(NaN), median with NaN, |values| > 30000 in the model) are Undef: nothing is claimed there",
                        "transcendental functions (LOG EXP SIN COS TAN SQRT STD RMSE) are outside the rational model and are not claimed",
                        "literals are plain decimals; unary minus only at the start, after '(' or '{'"]
    mod = 40 if quick else 1
    res = ctx.seed % mod
    c = ctx.write_cfg("EE_enum.cfg", enum_cfg(mod, res))
    path, out = ctx.tlc_emit_file("ExprEval", c, timeout=3000,
                                  label="ExprEval: all depth-3 trees parse back; emit %s" % ("1/%d sample" % mod if mod > 1 else "all"))
    n = ctx.pmap_emitted(path, replay, chunk=200)
    ctx.extra["trees_enumerated"] = out.distinct
    ctx.extra["trees_replayed"] = n
    ctx.exhaustive = not quick
    # random deeper shapes
    want = 600 if quick else 12000
    shapes = []
    guard = 0
    while len(shapes) < want and guard < want * 50:
        guard += 1
        t = rand_tree(rnd, rnd.choice([4, 5, 6]))
        if t[0] == "L" or not in_domain(t) or not magnitude_ok(t):
            continue
        shapes.append({"id": len(shapes), "t": t})
    import json, os
    sp = os.path.join(ctx.tmp, "shapes.ndjson")
    with open(sp, "w") as f:
        for s in shapes:
            f.write(json.dumps(s) + "\n")
    c2 = ctx.write_cfg("EE_file.cfg", FILE_CFG)
    path2, out2 = ctx.tlc_emit_file("ExprEval", c2, workers=1, env={"TRACE_FILE": sp}, timeout=3000,
                                    label="ExprEval file mode: %d random shapes to depth 6" % len(shapes))
    n2 = ctx.pmap_emitted(path2, replay, chunk=100)
    if n2 != len(shapes):
        raise core.Machinery("file mode emitted %d of %d shapes" % (n2, len(shapes)))
    ctx.extra["random_shapes_replayed"] = n2
    # growth next to C01 / C02: the SQL-like selector Track.query (Query.tla)
    from drivers import query_common
    query_common.run(ctx, quick)
    # growth next to C02: the operator objects the expression grammar does not reach (Operators.tla)
    from drivers import operators_common
    operators_common.run(ctx, quick)
    # growth next to C02: the LIKE comparison of Track.query / getTracks / time patterns (LikeMatch.tla)
    from drivers import likematch_common
    likematch_common.run(ctx, quick)
