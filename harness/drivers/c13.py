"""C13 - IOLayout.tla bound to TrackWriter / TrackReader (CSV, GPX), NetworkWriter / NetworkReader and
Track.toWKT / TrackReader.parseWkt through real files (spec -> code replay).

TLC checks on the model the round-trip law for every column permutation / separator / coordinate system / time format,
that a wrong print format garbles exactly the time field, that no read or write leaks a change of the class-level time
formats (multi-step save / install / restore modelled explicitly; the variant without restore is refuted) and the
network round trip for both header options (the pinned header loop is refuted).  Run as a generator, the same model
prints every configuration / history / network with the expectation the specification assigns; the driver replays
each through real files in a temporary directory and compares what the reader returns with that expectation."""
import json
import os
import shutil
import tempfile

import core

PRINT_FMT = {1: "2D/2M/4Y 2h:2m:2s", 2: "4Y-2M-2DT2h:2m:2s", 3: "4Y-2M-2D 2h:2m:2s.3z", 4: "2D/2M/4Y-2h:2m:2s.3z"}
READ_FMT = {1: "2D/2M/4Y 2h:2m:2s", 2: "4Y-2M-2DT2h:2m:2sZ", 3: "4Y-2M-2D 2h:2m:2s.3z", 4: "2D/2M/4Y-2h:2m:2s.3z"}
SEP = {"c": ",", "s": ";", "t": "\t", "b": " "}

VALUES = {
    "ENU": [(0.0, -0.0005, 0.0015), (-123456.789, 999999.9994, 1e-7), (12.5, -0.004, 8848.86), (-0.9996, 654321.0004, -12.3456)],
    "GEO": [(179.99999999, -89.12345678, 0.0), (-179.99999999, 89.12345678, 4807.123), (2.123456789012, 48.85, -1e-9), (1e-9, -1e-9, 35.5)],
    "ECEF": [(4201234.567, 168432.1, 4780123.456), (-123456.789, -4567890.1234, 0.0005), (6378137.0, 0.0, -6356752.3142)],
}
STAMPS = [(2021, 3, 1, 0, 0, 0, 0), (2020, 2, 29, 23, 59, 59, 0), (2019, 12, 31, 23, 59, 59, 999), (2024, 12, 31, 12, 0, 0, 250),
          (2020, 1, 31, 0, 0, 1, 1), (1999, 12, 31, 23, 0, 0, 0)]
PREC = {"ENU": 1e-3, "ECEF": 1e-3, "GEO": 1e-8}


def random_data(srid, n, seed):
    """seeded random stress values: many decimals, negative, large; timestamps anywhere 1971-2068 incl. end-of-field values"""
    import random
    rnd = random.Random(seed)
    out = []
    for _ in range(n):
        if srid == "GEO":
            v = (round(rnd.uniform(-180, 180), 12), round(rnd.uniform(-90, 90), 12), round(rnd.uniform(-500, 9000), 6))
        elif srid == "ECEF":
            v = tuple(round(rnd.uniform(-6.4e6, 6.4e6), 7) for _k in range(3))
        else:
            v = tuple(round(rnd.choice([1, 1e3, 9e5]) * rnd.uniform(-1, 1), 7) for _k in range(3))
        if any(round(c, 3) == -999999.0 for c in v[:2]):      # the written text would BE the no-data value of the format
            v = (0.5, 0.5, v[2])
        y = rnd.randrange(1971, 2069)
        mo = rnd.randrange(1, 13)
        d = rnd.randrange(1, 29) if rnd.random() < 0.7 else [31, 29 if (y % 4 == 0 and (y % 100 != 0 or y % 400 == 0)) else 28, 31, 30, 31, 30, 31, 31, 30, 31, 30, 31][mo - 1]
        s = (y, mo, d, rnd.choice([0, 23, rnd.randrange(24)]), rnd.choice([0, 59, rnd.randrange(60)]), rnd.choice([0, 59, rnd.randrange(60)]), rnd.choice([0, 999, rnd.randrange(1000)]))
        out.append((v, s))
    return out


NEAR = [-999999.4, -999999.9994, -999999.0625]      # integer part = the reader's no-data value, but ordinary coordinates


def mk_track(srid, n, salt, data=None, near="-"):
    from tracklib.core.track import Track
    from tracklib.core.obs import Obs
    from tracklib.core.obs_coords import ENUCoords, GeoCoords, ECEFCoords
    from tracklib.core.obs_time import ObsTime
    ctor = {"ENU": ENUCoords, "GEO": GeoCoords, "ECEF": ECEFCoords}[srid]
    vals = VALUES[srid]
    obs, out = [], []
    for k in range(n):
        if data is not None:
            v, s = data[k]
        else:
            v = vals[(salt + k) % len(vals)]
            s = STAMPS[(salt * 3 + k) % len(STAMPS)]
        if k == 0 and near != "-":            # the datum the specification marks as near-sentinel (observation 1, E or N)
            nv = NEAR[salt % len(NEAR)] if data is None else -999999 - (abs(v[0]) % 0.998 + 0.001)
            v = (nv, v[1], v[2]) if near == "E" else (v[0], nv, v[2])
        obs.append(Obs(ctor(v[0], v[1], v[2]), ObsTime(*s)))
        out.append((v, s))
    return Track(obs), out


def stamp_of(o):
    t = o.timestamp
    return (t.year, t.month, t.day, t.hour, t.min, t.sec)


def compare(track, data, want, srid, where):
    """want[k] = {e, n, u, t} as emitted by the specification; returns a list of (signature, message)"""
    bad = []
    if track is None or track.size() != len(want):
        return [("count", "%s: %s observations read back, %d written" % (where, None if track is None else track.size(), len(want)))]
    tol = PREC[srid] * (1 + 1e-6)
    for k, w in enumerate(want):
        o = track.getObs(k)
        (v, s) = data[w["e"][1] - 1]
        got = (o.position.getX(), o.position.getY(), o.position.getZ())
        if abs(got[0] - data[w["e"][1] - 1][0][0]) > tol or w["e"][0] != "E":
            bad.append(("coordinate/E", "%s: obs %d first coordinate %r, written %r" % (where, k, got[0], v[0])))
        if abs(got[1] - data[w["n"][1] - 1][0][1]) > tol or w["n"][0] != "N":
            bad.append(("coordinate/N", "%s: obs %d second coordinate %r, written %r" % (where, k, got[1], v[1])))
        if w["u"][0] == "U":
            if abs(got[2] - data[w["u"][1] - 1][0][2]) > tol:
                bad.append(("coordinate/U", "%s: obs %d third coordinate %r, written %r" % (where, k, got[2], v[2])))
        elif abs(got[2]) > tol:
            bad.append(("coordinate/U-absent", "%s: obs %d third coordinate %r although no such column" % (where, k, got[2])))
        if w["t"][0] == "T":
            if stamp_of(o) != tuple(data[w["t"][1] - 1][1][:6]):
                bad.append(("timestamp", "%s: obs %d timestamp %s, written %s" % (where, k, stamp_of(o), data[w["t"][1] - 1][1])))
        elif w["t"][0] == "epoch" and stamp_of(o) != (1970, 1, 1, 0, 0, 0):
            bad.append(("timestamp/absent", "%s: obs %d timestamp %s although no time column" % (where, k, stamp_of(o))))
    return bad


def fmt_for(cfg):
    from tracklib.io.track_format import TrackFormat
    return TrackFormat({"ext": "CSV", "id_E": cfg["e"], "id_N": cfg["n"], "id_U": cfg["u"], "id_T": cfg["t"], "separator": SEP[cfg["sep"]],
                        "srid": cfg["srid"], "time_fmt": READ_FMT[cfg["tf"]] if cfg["tf"] != 2 else PRINT_FMT[2], "header": 0})


def write_csv(track, path, cfg, variant):
    """TrackWriter.writeToFile with explicit column ids; the header option (0 / 1) writes no header on this code base.
    (TrackWriter.writeToCsv(track, path, TrackFormat) is unfinished - it reads a non-existent attribute - and is not claimed.)"""
    from tracklib.io.track_writer import TrackWriter
    if (variant + cfg["e"] + cfg["n"]) % 2 == 0:        # history: the file exists already (an older, longer one): it is replaced
        with open(path, "w") as f:
            f.write("9;9;9;9\n" * 7)
    TrackWriter.writeToFile(track, path, cfg["e"], cfg["n"], cfg["u"], cfg["t"], SEP[cfg["sep"]], variant % 2)


_SEED = 0


def replay_layout(cases):
    from tracklib.core.obs_time import ObsTime
    from tracklib.io.track_reader import TrackReader
    viol, nontriv, samples = [], set(), []
    tmp = tempfile.mkdtemp(prefix="c13-")
    try:
        for ci, c in enumerate(cases):
            cfg, want = c["cfg"], c["want"]
            for salt in (0, 1, 2):
                save = (ObsTime.getPrintFormat(), ObsTime.getReadFormat())
                where = "csv %s" % json.dumps(cfg, sort_keys=True)
                try:
                    with core.quiet():
                        rdata = random_data(cfg["srid"], len(want), _SEED * 1000003 + ci * 7 + cfg["tf"]) if salt == 2 else None
                        track, data = mk_track(cfg["srid"], len(want), salt + cfg["e"] + 2 * cfg["n"], rdata, cfg.get("near", "-"))
                        ObsTime.setPrintFormat(PRINT_FMT[cfg["tf"]])
                        path = os.path.join(tmp, "t%d_%d.csv" % (ci, salt))
                        write_csv(track, path, cfg, salt + cfg["tf"])
                        back = TrackReader.readFromFile(path, fmt_for(cfg))
                    for sig, msg in compare(back, data, want, cfg["srid"], where):
                        viol.append(("csv/" + sig + "/" + cfg["srid"], msg, {"cfg": cfg, "file": open(path).read()[:400]}))
                    if (ObsTime.getPrintFormat(), ObsTime.getReadFormat()) != (PRINT_FMT[cfg["tf"]], save[1]):
                        viol.append(("csv/formats-leaked", "%s: global formats after write+read %r" % (where, (ObsTime.getPrintFormat(), ObsTime.getReadFormat())), cfg))
                except (Exception, SystemExit) as ex:
                    viol.append(("csv/raised/" + cfg["srid"], "%s raised %r" % (where, ex), cfg))
                finally:
                    ObsTime.setPrintFormat(save[0]); ObsTime.setReadFormat(save[1])
                # WKT text round trip of the planimetric coordinates (ENU and geographic tracks)
                if cfg["srid"] != "ECEF" and cfg["sep"] == "c" and cfg["tf"] == 1:
                    try:
                        with core.quiet():
                            if salt == 1 and track.size() >= 2:
                                track.addObs(track.getObs(0))          # a ring closed with the SAME observation object
                            if (ci + track.size()) % 3 == 0 and track.size() >= 1:
                                # history: the object was exported before and its fixes moved since (same size); an export
                                # describes the object as it stands now
                                track.toWKT()
                                for k in range(track.size()):
                                    track.getObs(k).position.setX(track.getObs(k).position.getX() + 64.0)
                            back = TrackReader.parseWkt(track.toWKT())
                        if back.size() != track.size() or any(back.getObs(k).position.getX() != track.getObs(k).position.getX() or
                                                              back.getObs(k).position.getY() != track.getObs(k).position.getY() for k in range(track.size())):
                            viol.append(("wkt/coordinates", "WKT %s parsed back as %s" % (track.toWKT(), [(back.getObs(k).position.getX(), back.getObs(k).position.getY()) for k in range(back.size())]), cfg))
                    except (Exception, SystemExit) as ex:
                        viol.append(("wkt/raised", "WKT round trip raised %r" % ex, cfg))
            if [cfg["e"], cfg["n"], cfg["u"], cfg["t"]] != [0, 1, 2, 3] or cfg.get("near", "-") != "-":
                nontriv.add(json.dumps(cfg, sort_keys=True))
            if ci == 0:
                samples.append({"cfg": cfg, "want": want})
    finally:
        shutil.rmtree(tmp, ignore_errors=True)
    return len(cases), viol, nontriv, samples


CFG_A = {"e": 0, "n": 1, "u": 2, "t": 3, "sep": "c", "srid": "ENU", "tf": 1, "near": "-"}
CFG_B = {"e": 2, "n": 1, "u": -1, "t": 0, "sep": "s", "srid": "GEO", "tf": 3, "near": "-"}
WANT_FULL = [{"e": ["E", k], "n": ["N", k], "u": ["U", k], "t": ["T", k]} for k in (1, 2, 3)]
WANT_B = [{"e": ["E", k], "n": ["N", k], "u": ["zero", 0], "t": ["T", k]} for k in (1, 2, 3)]


def replay_history(cases):
    from tracklib.core.obs_time import ObsTime
    from tracklib.io.track_reader import TrackReader
    from tracklib.io.track_writer import TrackWriter
    from tracklib.io.track_format import TrackFormat
    viol, nontriv, samples = [], set(), []
    tmp = tempfile.mkdtemp(prefix="c13h-")
    save = (ObsTime.getPrintFormat(), ObsTime.getReadFormat())
    try:
        for ci, c in enumerate(cases):
            hist = c["hist"]
            ObsTime.setPrintFormat(PRINT_FMT[1]); ObsTime.setReadFormat(READ_FMT[1])
            tracks = {"A": mk_track("ENU", 3, ci % 4), "B": mk_track("GEO", 3, ci % 3), "G": mk_track("GEO", 3, (ci + 1) % 4)}
            paths = {k: os.path.join(tmp, "h%d_%s.%s" % (ci, k, "gpx" if k == "G" else "csv")) for k in tracks}
            label = " ; ".join("%s(%s)" % (s["a"], s["f"]) for s in hist)
            for si, s in enumerate(hist):
                where = "history [%s] step %d" % (label, si + 1)
                try:
                    with core.quiet():
                        if s["a"] == "setprint":
                            ObsTime.setPrintFormat(PRINT_FMT[s["f"]])
                        elif s["a"] == "setread":
                            ObsTime.setReadFormat(READ_FMT[s["f"]])
                        elif s["a"] == "writecsv":
                            write_csv(tracks[s["f"]][0], paths[s["f"]], CFG_A if s["f"] == "A" else CFG_B, si)
                        elif s["a"] == "writegpx":
                            if (ci + si) % 2:
                                # the writer's other documented option: the analytical features go into <extensions>; features
                                # whose names start like the tags of the format itself (ele, time) are ordinary features
                                gt = tracks["G"][0]
                                if not gt.hasAnalyticalFeature("elevation_gain"):
                                    gt.createAnalyticalFeature("elevation_gain", [1000.5 + k for k in range(gt.size())])
                                    gt.createAnalyticalFeature("time_gap", [77.0 + k for k in range(gt.size())])
                                TrackWriter.writeToGpx(gt, paths["G"], af=True, oneFile=True)
                            else:
                                TrackWriter.writeToGpx(tracks["G"][0], paths["G"], af=False, oneFile=True)
                        elif s["a"] == "readcsv":
                            cfg = CFG_A if s["f"] == "A" else CFG_B
                            back = TrackReader.readFromFile(paths[s["f"]], fmt_for(cfg))
                            if s["exp"] == "same":
                                for sig, msg in compare(back, tracks[s["f"]][1], WANT_FULL if s["f"] == "A" else WANT_B, cfg["srid"], where):
                                    viol.append(("history/csv/" + sig, msg, c))
                        elif s["a"] == "readgpx":
                            col = TrackReader.readFromFile(paths["G"], TrackFormat({"ext": "GPX", "srid": "GEO", "type": "trk"}))
                            if s["exp"] == "same":
                                back = col[0] if col is not None and col.size() == 1 else None
                                for sig, msg in compare(back, tracks["G"][1], WANT_FULL, "GEO", where):
                                    viol.append(("history/gpx/" + sig, msg, c))
                                if (ci + si) % 2 == 0:
                                    # the other GPX layout: a collection written as ONE FILE PER TRACK into a directory and the
                                    # directory read back - tracks of 3, 1 and 2 observations (a single fix is a track)
                                    gdir = os.path.join(tmp, "g%d_%d" % (ci, si))
                                    os.makedirs(gdir)
                                    many = [mk_track("GEO", nn, (ci + nn) % 4) for nn in (3, 1, 2)]
                                    for kk, (tt, _d) in enumerate(many):
                                        tt.tid, tt.uid = "t%d" % kk, "u%d" % kk
                                    from tracklib.core.track_collection import TrackCollection
                                    TrackWriter.writeToGpx(TrackCollection([tt for tt, _d in many]), gdir, af=False, oneFile=False)
                                    colm = TrackReader.readFromFile(gdir, TrackFormat({"ext": "GPX", "srid": "GEO", "type": "trk"}))
                                    sizes = sorted(colm[i].size() for i in range(colm.size())) if colm is not None else []
                                    if sizes != [1, 2, 3]:
                                        viol.append(("history/gpx-directory/track-count", "%s: tracks of 3, 1, 2 observations written one file each, read back sizes %s" % (where, sizes), c))
                                    else:
                                        for i in range(colm.size()):
                                            nn = colm[i].size()
                                            dd = [d_ for (t_, d_) in many if t_.size() == nn][0]
                                            for sig, msg in compare(colm[i], dd, WANT_FULL[:nn], "GEO", where + " (directory)"):
                                                viol.append(("history/gpx-directory/" + sig, msg, c))
                except (Exception, SystemExit) as ex:
                    if s["exp"] != "unspecified":
                        viol.append(("history/raised/" + s["a"], "%s raised %r" % (where, ex), c))
                got = (ObsTime.getPrintFormat(), ObsTime.getReadFormat())
                if got != (PRINT_FMT[s["p"]], READ_FMT[s["r"]]):
                    viol.append(("history/formats-leaked/" + s["a"], "%s: global formats %r, specification %r" % (where, got, (PRINT_FMT[s["p"]], READ_FMT[s["r"]])), c))
                    ObsTime.setPrintFormat(PRINT_FMT[s["p"]]); ObsTime.setReadFormat(READ_FMT[s["r"]])
            acts = [s["a"] for s in hist]
            if any(a.startswith("read") for a in acts) and any(a.startswith("set") for a in acts):
                nontriv.add(label)
            if ci == 0:
                samples.append(c)
    finally:
        ObsTime.setPrintFormat(save[0]); ObsTime.setReadFormat(save[1])
        shutil.rmtree(tmp, ignore_errors=True)
    return len(cases), viol, nontriv, samples


NODE_XY = {"a": (0.5, 0.25), "b": (10.125, -3.0), "c": (-7.75, 1e-3)}


def replay_network(cases):
    from tracklib.core.network import Network, Node, Edge
    from tracklib.core.track import Track
    from tracklib.core.obs import Obs
    from tracklib.core.obs_coords import ENUCoords
    from tracklib.core.obs_time import ObsTime
    from tracklib.io.network_writer import NetworkWriter
    from tracklib.io.network_reader import NetworkReader
    from tracklib.io.network_format import NetworkFormat
    viol, nontriv, samples = [], set(), []
    tmp = tempfile.mkdtemp(prefix="c13n-")
    try:
        for ci, c in enumerate(cases):
            nw = c["net"]
            where = "network %s" % json.dumps(nw, sort_keys=True)
            try:
                with core.quiet():
                    net = Network()
                    expect = []
                    for j, e in enumerate(nw["edges"], start=1):
                        pts = [NODE_XY[e["s"]]]
                        if e["g"] == 3:
                            pts.append((100.0 + j + 0.123456789, -50.0 - j))
                        pts.append(NODE_XY[e["t"]])
                        geom = Track([Obs(ENUCoords(p[0], p[1], 0.0), ObsTime()) for p in pts])
                        ed = Edge("e%d" % j, geom)
                        ed.orientation = e["o"]
                        ed.weight = geom.length()
                        net.addEdge(ed, Node(e["s"], geom.getFirstObs().position), Node(e["t"], geom.getLastObs().position))
                        expect.append(("e%d" % j, e["s"], e["t"], e["o"], pts))
                    path = os.path.join(tmp, "n%d.csv" % ci)
                    if (len(nw["edges"]) + nw["h"]) % 2 == 0:        # the file exists already
                        with open(path, "w") as f:
                            f.write("old,old,old,0,\"LINESTRING(0 0,1 1)\"\n" * 5)
                    if (len(nw["edges"]) + nw["h"] + ci) % 3 == 0:
                        # history: the network was written before, its edge geometries edited since (interior vertices moved)
                        NetworkWriter.writeToCsv(net, path, SEP[nw["sep"]], nw["h"])
                        for j, e in enumerate(nw["edges"], start=1):
                            if e["g"] == 3:
                                g_ = net.getEdge("e%d" % j).geom
                                g_.getObs(1).position.setX(g_.getObs(1).position.getX() + 1000.0)
                                g_.getObs(1).position.setY(g_.getObs(1).position.getY() - 0.5)
                                pts = expect[j - 1][4]
                                pts[1] = (pts[1][0] + 1000.0, pts[1][1] - 0.5)
                    NetworkWriter.writeToCsv(net, path, SEP[nw["sep"]], nw["h"])
                    fmt = NetworkFormat({"pos_edge_id": 0, "pos_source": 1, "pos_target": 2, "pos_direction": 3, "pos_wkt": 4,
                                         "separator": SEP[nw["sep"]], "header": nw["h"], "srid": "ENU"})
                    back = NetworkReader.readFromFile(path, fmt, verbose=False)
                got = []
                for eid in back.EDGES:
                    ed = back.EDGES[eid]
                    got.append((str(ed.id), str(ed.source.id), str(ed.target.id), int(ed.orientation),
                                [(ed.geom.getObs(k).position.getX(), ed.geom.getObs(k).position.getY()) for k in range(ed.geom.size())]))
                if len(got) != c["want"]:
                    viol.append(("network/edge-count/h=%d" % nw["h"], "%s: %d edges read back, %d written" % (where, len(got), c["want"]), c))
                elif got != expect:
                    viol.append(("network/content", "%s: read back %s, written %s" % (where, got, expect), c))
                nodes_w = {e["s"] for e in nw["edges"]} | {e["t"] for e in nw["edges"]}
                nodes_r = {str(n) for n in back.NODES}
                if len(got) == c["want"] and nodes_r != nodes_w:
                    viol.append(("network/nodes", "%s: nodes read back %s, written %s" % (where, sorted(nodes_r), sorted(nodes_w)), c))
            except (Exception, SystemExit) as ex:
                viol.append(("network/raised/h=%d" % nw["h"], "%s raised %r" % (where, ex), c))
            if len(nw["edges"]) > 1 or nw["edges"][0]["o"] != 0:
                nontriv.add(json.dumps(nw, sort_keys=True))
            if ci == 0:
                samples.append(c)
    finally:
        shutil.rmtree(tmp, ignore_errors=True)
    return len(cases), viol, nontriv, samples


def replay_timeformat(cases):
    """TimeFormat.tla: printed text and fields read back, per format and instant, as the specification assigns them"""
    from tracklib.core.obs_time import ObsTime
    viol, nontriv, samples = [], set(), []
    save = (ObsTime.getPrintFormat(), ObsTime.getReadFormat())
    try:
        for ci, c in enumerate(cases):
            f = "".join(c["fmt"])
            for k in c["cases"]:
                t, want_txt, back = k["t"], "".join(k["txt"]), k["back"]
                try:
                    ObsTime.setPrintFormat(f)
                    ObsTime.setReadFormat(f)
                    got_txt = str(ObsTime(t["y"], t["mo"], t["d"], t["h"], t["mi"], t["s"], t["ms"]))
                    if got_txt != want_txt:
                        viol.append(("growth:timeformat/print", "format %r: %s printed as %r, specification %r" % (f, t, got_txt, want_txt), {"fmt": f, "t": t}))
                        continue
                    r = ObsTime.readTimestamp(got_txt)
                    got = {"y": r.year, "mo": r.month, "d": r.day, "h": r.hour, "mi": r.min, "s": r.sec, "ms": r.ms}
                    if got != back:
                        viol.append(("timeformat/read", "format %r: %r read back as %s, specification %s" % (f, got_txt, got, back), {"fmt": f, "t": t}))
                except (Exception, SystemExit) as ex:
                    viol.append(("timeformat/raised", "format %r instant %s raised %r" % (f, t, ex), {"fmt": f, "t": t}))
            if "4Y" not in f or "3z" in f or not f.startswith("2D"):
                nontriv.add(f)
            if ci == 0:
                samples.append({"fmt": f, "first_case": {"t": c["cases"][0]["t"], "txt": "".join(c["cases"][0]["txt"]), "back": c["cases"][0]["back"]}})
    finally:
        ObsTime.setPrintFormat(save[0]); ObsTime.setReadFormat(save[1])
    return len(cases), viol, nontriv, samples


def mc_cfg(mode, depth, emit, legacy=False, invs=()):
    return ("SPECIFICATION Spec\nCONSTANTS\n  Mode = \"%s\"\n  NObs = 3\n  Depth = %d\n  Emit = %s\n  Legacy = %s\n" %
            (mode, depth, "TRUE" if emit else "FALSE", "TRUE" if legacy else "FALSE")
            + "".join("INVARIANT %s\n" % i for i in invs) + "CHECK_DEADLOCK FALSE\n")


def run(ctx):
    quick = ctx.tier == "quick"
    depth = 4 if quick else 5
    ctx.rule = ("TLC: round-trip law on all 3192 (column permutation x separator x coordinate system x time format x near-no-data datum) configurations, "
                "wrong print format garbles only the time field, formats restored after every call on all histories of %d public "
                "calls over set-format / write / read of two CSV files and one GPX file, network round trip on all networks with "
                "<= 2 edges x 3 orientations x 2-3 vertices x header 0/1 x 3 separators; refuted variants: ids that are not a "
                "permutation, missing restore, pinned header loop, pinned integer-part no-data test. Binding: every emitted configuration (2 stress-value tracks "
                "each, header option 0 and 1, WKT round trip), every emitted history and every emitted network replayed "
                "through real files; reader output compared with the expectation printed by the model. Non-trivial = distinct "
                "configurations with a non-identity column order, histories mixing format changes and reads, networks with two "
                "edges or a one-way edge." % depth)
    ctx.assumptions += ["column ids form a permutation of 0..k-1; the TrackFormat's time format equals the print format in force at write time",
                        "separators ',', ';', tab (none occurs inside a formatted field); header option 0/1 of the track writer writes no header",
                        "GPX is read with the ISO read format set globally, as the test suite does; coordinates compared at the written precision "
                        "(1 mm metric, 1e-8 degree geographic), timestamps to the second; values whose WRITTEN text is the no-data value of the format (-999999.000) excluded - the format reserves it",
                        "number formatting fidelity is examined on a finite lattice of stress values plus seeded random values (12 decimals geographic, 7 metric)"]
    ctx.tlc_mc("IOLayout", ctx.write_cfg("IO_l.cfg", mc_cfg("layout", 0, False, invs=("PermutationRoundTrip", "WrongFormatOnlyGarblesTime"))),
               label="layout: round-trip law")
    ctx.tlc_mc("IOLayout", ctx.write_cfg("IO_l2.cfg", mc_cfg("layout", 0, False, invs=("AnyIdsRoundTrip",))),
               label="self-test: non-permutation ids refuted", expect_violation="AnyIdsRoundTrip")
    ctx.tlc_mc("IOLayout", ctx.write_cfg("IO_l3.cfg", mc_cfg("layout", 0, False, legacy=True, invs=("PermutationRoundTrip",))),
               label="self-test: integer-part no-data test refuted", expect_violation="PermutationRoundTrip")
    ctx.tlc_mc("IOLayout", ctx.write_cfg("IO_h.cfg", mc_cfg("history", depth, False, invs=("FormatsRestored", "GpxAlwaysIso"))),
               label="histories: formats restored")
    ctx.tlc_mc("IOLayout", ctx.write_cfg("IO_h2.cfg", mc_cfg("history", 3, False, legacy=True, invs=("FormatsRestored",))),
               label="self-test: missing restore refuted", expect_violation="FormatsRestored")
    ctx.tlc_mc("IOLayout", ctx.write_cfg("IO_n.cfg", mc_cfg("network", 0, False, invs=("NetworkRoundTrip",))), label="network round trip")
    ctx.tlc_mc("IOLayout", ctx.write_cfg("IO_n2.cfg", mc_cfg("network", 0, False, legacy=True, invs=("NetworkRoundTrip",))),
               label="self-test: pinned header loop refuted", expect_violation="NetworkRoundTrip")
    # generator runs (spec -> code)
    global _SEED
    _SEED = ctx.seed
    p1, o1 = ctx.tlc_emit_file("IOLayout", ctx.write_cfg("IO_le.cfg", mc_cfg("layout", 0, True, invs=("PermutationRoundTrip",))), label="emit layouts")
    n1 = ctx.pmap_emitted(p1, replay_layout, chunk=60)
    p2, o2 = ctx.tlc_emit_file("IOLayout", ctx.write_cfg("IO_he.cfg", mc_cfg("history", depth, True)), workers=1, label="emit histories")
    n2 = ctx.pmap_emitted(p2, replay_history, chunk=150)
    p3, o3 = ctx.tlc_emit_file("IOLayout", ctx.write_cfg("IO_ne.cfg", mc_cfg("network", 0, True, invs=("NetworkRoundTrip",))), label="emit networks")
    n3 = ctx.pmap_emitted(p3, replay_network, chunk=600)
    # the format-code grammar behind the time column (TimeFormat.tla)
    tfc = "SPECIFICATION Spec\nCONSTANTS\n  Mode = \"mc\"\n  Emit = %s\nINVARIANT RoundTrip\nINVARIANT FixedWidth\nCHECK_DEADLOCK FALSE\n"
    ctx.tlc_mc("TimeFormat", ctx.write_cfg("TF.cfg", tfc % "FALSE"), label="time format grammar: print / read round trip")
    p4, o4 = ctx.tlc_emit_file("TimeFormat", ctx.write_cfg("TFe.cfg", tfc % "TRUE"), label="emit time formats")
    n4 = ctx.pmap_emitted(p4, replay_timeformat, chunk=30)
    if n4 != o4.distinct:
        raise core.Machinery("emitted time formats %d != distinct states %d" % (n4, o4.distinct))
    ctx.extra["time_formats_replayed"] = n4
    if n1 != 3192:
        raise core.Machinery("expected 3192 emitted layouts, parsed %d" % n1)
    if n3 != o3.distinct:
        raise core.Machinery("emitted networks %d != distinct states %d" % (n3, o3.distinct))
    ctx.exhaustive = True
    ctx.extra["layouts_replayed"] = n1
    ctx.extra["histories_replayed"] = n2
    ctx.extra["networks_replayed"] = n3
