"""TrackColl.tla bound to tracklib.core.track_collection.TrackCollection (spec -> code): every history of public
operations printed by the model is replayed on a real collection; the fixes of every track, the aliasing pattern
(which positions hold the same Track object) and the bounding box are compared with the state of the specification."""
import core

PTS = [(1, 1), (2, 2), (3, 3), (5, 1)]
CAT = [[], [1], [1, 2, 3], [2, 4], []]
BOXES = [(0, 4, 0, 4), (1, 6, 0, 6)]


def mk_track(ids):
    from tracklib.core.obs import Obs
    from tracklib.core.obs_coords import ENUCoords
    from tracklib.core.obs_time import ObsTime
    from tracklib.core.track import Track
    return Track([Obs(ENUCoords(PTS[i - 1][0], PTS[i - 1][1], 0), ObsTime.readUnixTime(1600000000 + k)) for k, i in enumerate(ids)])


def replay(cases):
    from tracklib.core.bbox import Bbox
    from tracklib.core.obs_coords import ENUCoords
    from tracklib.core.track_collection import TrackCollection
    viol, nontriv, samples = [], set(), []
    for ci, c in enumerate(cases):
        hist = c["hist"]
        label = [(o["op"], o["a"], o["b"]) for o in hist]
        last = hist[-1]["op"] if hist else "init"
        try:
            with core.quiet():
                coll = TrackCollection()
                for o in hist:
                    op, a, b = o["op"], o["a"], o["b"]
                    if op == "add":
                        coll.addTrack(mk_track(CAT[a - 1]))
                    elif op == "rm":
                        coll.removeTrack(coll.getTrack(a - 1))
                    elif op == "rmempty":
                        coll.removeEmptyTrack()
                    elif op == "filter":
                        x0, x1, y0, y1 = BOXES[a - 1]
                        coll.filterOnBBox(Bbox(ENUCoords(x0, y0, 0), ENUCoords(x1, y1, 0)))
                    elif op == "gt":
                        coll = coll > a
                    elif op == "lt":
                        coll = coll < a
                    elif op == "copy":
                        coll = coll.copy()
                    elif op == "dup":
                        coll = coll + coll
                    elif op == "slice":
                        coll = coll[a:b]
                tracks = [coll.getTrack(k) for k in range(coll.size())]
                got_pts = [[PTS.index((int(t.getObs(j).position.getX()), int(t.getObs(j).position.getY()))) + 1 for j in range(t.size())] for t in tracks]
                got_alias = [next(j + 1 for j, u in enumerate(tracks) if u is t) for t in tracks]
                got_bbox = []
                if c["bbox"]:
                    bb = coll.bbox()
                    got_bbox = [int(v) if float(v) == int(v) else v for v in bb.asTuple()]
        except (Exception, SystemExit) as ex:
            viol.append(("trackcollection/raised/after-" + last, "history %s raised %r" % (label, ex), hist))
            continue
        if got_pts != [list(p) for p in c["pts"]] or len(coll) != len(c["pts"]):
            viol.append(("trackcollection/tracks/after-" + last, "history %s: tracks %s, specification %s" % (label, got_pts, c["pts"]), hist))
        elif got_alias != list(c["alias"]):
            viol.append(("trackcollection/aliasing/after-" + last, "history %s: positions holding the same object %s, specification %s" % (label, got_alias, c["alias"]), hist))
        elif list(got_bbox) != list(c["bbox"]):
            viol.append(("trackcollection/bbox/after-" + last, "history %s: bounding box %s, specification %s" % (label, got_bbox, c["bbox"]), hist))
        if len({o["op"] for o in hist}) >= 3:
            nontriv.add("mixed")
        if ci == 0:
            samples.append(c)
    return len(cases), viol, nontriv, samples


CFG = "SPECIFICATION Spec\nCONSTANTS\n  Emit = %s\n  MaxOps = %d\n%sCHECK_DEADLOCK FALSE\n"


def run(ctx, quick):
    ctx.tlc_mc("TrackColl", ctx.write_cfg("TC_re.cfg", CFG % ("FALSE", 3, "PROPERTY RemoveEmptyComplete\n")), expect_violation="RemoveEmptyComplete",
               label="TrackColl self-test: removeEmptyTrack skips the track after a removed one (RemoveEmptyComplete refuted)")
    depth = 4 if quick else 5
    path, out = ctx.tlc_emit_file("TrackColl", ctx.write_cfg("TC.cfg", CFG % ("TRUE", depth, "INVARIANT Inv\nPROPERTY OnlyRemoves\nPROPERTY FilterKeepsInside\n")),
                                  label="TrackCollection histories to %d operations" % depth)
    n = ctx.pmap_emitted(path, replay, chunk=500, growth=True)
    if n != out.distinct:
        raise core.Machinery("TrackColl: emitted states %d != distinct states %d" % (n, out.distinct))
    ctx.extra["trackcollection_histories_replayed"] = n
