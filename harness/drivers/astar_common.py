"""AStar.tla bound to Network.setRoutingMethod(ROUTING_ALGO_ASTAR) / setAStarWeight / shortest_distance (spec -> code): the
model prints one outcome per final state (ties of the queue are free); for every (graph, source, target) the real call must
return one of the outcomes the specification admits."""
import json

import core


def build(nn, g, wgt):
    from tracklib.core.network import Network, Node, Edge
    from tracklib.core.track import Track
    from tracklib.core.obs import Obs
    from tracklib.core.obs_coords import ENUCoords
    net = Network()
    for k in range(nn):
        net.addNode(Node(k, ENUCoords(float(k), 0.0, 0.0)))
    for j, (s, t, w, o) in enumerate(g, start=1):
        e = Edge(j, Track([Obs(ENUCoords(float(s), 0.0, 0.0)), Obs(ENUCoords(float(t), 0.0, 0.0))]))
        e.orientation = o
        e.weight = w
        net.addEdge(e, Node(s, ENUCoords(float(s), 0.0, 0.0)), Node(t, ENUCoords(float(t), 0.0, 0.0)))
    net.setRoutingMethod(1)
    net.setAStarWeight(wgt)
    return net


def replay(cases):
    viol, nontriv, samples = [], set(), []
    for ci, c in enumerate(cases):
        g, s, t, allowed, nn, wgt = c["g"], c["s"], c["t"], c["allowed"], c["nn"], c["wgt"]
        try:
            with core.quiet():
                d = build(nn, g, wgt).shortest_distance(s, t)
            got = int(round(d)) if abs(d - round(d)) < 1e-9 else d
        except (Exception, SystemExit) as ex:
            viol.append(("astar/raised", "A* (weight %d) shortest_distance(%d, %d) on %s raised %r" % (wgt, s, t, g, ex), c))
            continue
        if got not in allowed:
            viol.append(("astar/value", "A* (weight %d) shortest_distance(%d, %d) on %s = %r, specification admits %s" % (wgt, s, t, g, got, allowed), c))
        if len(g) >= 2:
            nontriv.add(json.dumps(g))
        if ci == 0:
            samples.append(c)
    return len(cases), viol, nontriv, samples


CFG = "SPECIFICATION Spec\nCONSTANTS\n  NN = %d\n  MaxE = %d\n  Weights = {1, 2}\n  Wgt = %d\n  Emit = %s\n%sCHECK_DEADLOCK FALSE\n"


def run(ctx, quick):
    ctx.tlc_mc("AStar", ctx.write_cfg("AS_len.cfg", CFG % (3, 2, 1, "FALSE", "INVARIANT ReportsALength\n")), expect_violation="ReportsALength",
               label="AStar self-test: the reported value includes the heuristics of the intermediate nodes (ReportsALength refuted)")
    total = 0
    for wgt in (1, 0) if quick else (1, 2, 0):
        nn, maxe = (3, 2) if quick else (3, 3)
        path, out = ctx.tlc_emit_file("AStar", ctx.write_cfg("AS_%d.cfg" % wgt, CFG % (nn, maxe, wgt, "TRUE", "INVARIANT NeverBelowShortest\nINVARIANT ZeroWeightIsDijkstra\n")),
                                      label="A* as coded, weight %d, %d nodes on a line, <= %d edges" % (wgt, nn, maxe))
        groups = {}
        with open(path) as f:
            for line in f:
                line = line.strip()
                if not line.startswith('"'):
                    continue
                r = json.loads(json.loads(line))          # TLC prints the JSON text as a string literal
                groups.setdefault((json.dumps(r["g"]), r["s"], r["t"]), set()).add(r["d"])
        cases = [{"g": json.loads(k[0]), "s": k[1], "t": k[2], "allowed": sorted(v), "nn": nn, "wgt": wgt} for k, v in sorted(groups.items())]
        import tempfile, os
        fd, p2 = tempfile.mkstemp(prefix="astar-", suffix=".ndjson", dir=ctx.tmp)
        with os.fdopen(fd, "w") as f:
            for c in cases:
                f.write(json.dumps(json.dumps(c)) + "\n")
        n = ctx.pmap_emitted(p2, replay, chunk=400, growth=True)
        if n != len(cases):
            raise core.Machinery("AStar: replayed %d of %d cases" % (n, len(cases)))
        total += n
    ctx.extra["astar_queries_replayed"] = total
