"""Operators.tla bound to the operator objects of tracklib.core.operators (spec -> code): every call printed by the model
(operator, argument, input vector(s), expected outcome) is made on a real track through Track.operate."""
import math

import core
import tk

VOID1 = {"SHIFT_RIGHT", "SHIFT_LEFT", "SHIFT_CIRCULAR_RIGHT", "SHIFT_CIRCULAR_LEFT", "IDENTITY", "INVERTER", "INVERSER", "SQUARE",
         "REVERSER", "FORWARD_FINITE_DIFF", "BACKWARD_FINITE_DIFF", "CENTERED_FINITE_DIFF", "DEBIASER"}
SCAL1 = {"ZEROS", "RMSE"}
VOID2 = {"MODULO", "QUAD_ADDER", "DERIVATOR", "POINTWISE_EQUALER"}
SCAL2 = {"COVARIANCE", "L0", "L1", "L2", "LINF", "EQUAL"}


def fl(p):
    n, d = p
    return float("nan") if d == 0 else n / d


def val_ok(g, p, sq=False):
    n, d = p
    if d == 0:
        if n == 1:
            return True
        try:
            return math.isnan(float(g))
        except Exception:
            return False
    try:
        g = float(g)
    except Exception:
        return False
    if sq:
        return g >= 0 and tk.num_eq(g * g, n / d)
    return tk.num_eq(g, n / d)


def same(a, b):
    return len(a) == len(b) and all((x == y) or (isinstance(x, float) and isinstance(y, float) and math.isnan(x) and math.isnan(y)) for x, y in zip(a, b))


def one_call(c, inplace):
    """perform one call; inplace: the output name is omitted - Track.operate then writes into the first input feature"""
    from tracklib.core.operators import Operator
    op, k, out = c["op"], c["k"], c["out"]
    u = [fl(p) for p in c["u"]]
    v = [fl(p) for p in c["v"]]
    undef = any(p[1] == 0 and p[0] == 1 for p in (out["val"] if out["kind"] in ("vec", "sqvec", "num", "sqnum") else []))
    raised, r, got, uu = None, None, None, None
    dst = () if inplace else ("out",)
    try:
        with core.quiet():
            tr = tk.mk_track([float(i) for i in range(len(u))])
            tr.createAnalyticalFeature("u", list(u))
            if v:
                tr.createAnalyticalFeature("v", list(v))
            o = getattr(Operator, op)
            if op in VOID1:
                tr.operate(o, "u", *dst)
            elif op in SCAL1:
                r = tr.operate(o, "u")
            elif op == "APPLY":
                tr.operate(o, "u", lambda x: 2 * x + 1, *dst)
            elif op == "AGGREGATE":
                r = tr.operate(o, "u", lambda L: sum((i + 1) * x for i, x in enumerate(L)))
            elif op in VOID2:
                tr.operate(o, "u", "v", *dst)
            elif op in SCAL2:
                r = tr.operate(o, "u", "v")
            else:
                tr.operate(o, "u", k, *dst)
            name = "u" if inplace else "out"
            if tr.hasAnalyticalFeature(name):
                got = list(tr.getAnalyticalFeature(name))
            uu = list(u) if inplace else list(tr.getAnalyticalFeature("u"))
    except (Exception, SystemExit) as ex:
        raised = ex
    sig = "operator%s/%s" % ("-in-place" if inplace else "", op)
    what = "%s(%s%s%s)%s" % (op, u, (", %s" % v) if v else "", (", %s" % k) if k else "", " with the output name omitted" if inplace else "")
    if out["kind"] == "raise":
        if raised is None:
            return [(sig + "/no-error", "%s returned %r / wrote %r, the specification expects the call to fail (division by zero)" % (what, r, got), c)]
        return []
    if raised is not None:
        return [] if undef else [(sig + "/raised", "%s raised %r, specification %s" % (what, raised, out), c)]
    viol = []
    if not same(uu, u):
        viol.append((sig + "/input-changed", "%s changed its input to %s" % (what, uu), c))
    kind, val = out["kind"], out["val"]
    if kind in ("vec", "sqvec"):
        ok = got is not None and len(got) == len(val) and all(val_ok(g, p, kind == "sqvec") for g, p in zip(got, val))
        shown = got
    elif kind in ("num", "sqnum"):
        ok = val_ok(r, val[0], kind == "sqnum")
        shown = r
    elif kind == "list":
        ok = isinstance(r, list) and [int(x) for x in r] == list(val)
        shown = r
    else:
        ok = r is not None and bool(r) == bool(val[0])
        shown = r
    if not ok:
        viol.append((sig, "%s gave %r, specification %s" % (what, shown, val), c))
    return viol


def replay(cases):
    viol, nontriv, samples = [], set(), []
    for ci, c in enumerate(cases):
        op, out = c["op"], c["out"]
        viol.extend(one_call(c, False))
        if out["kind"] in ("vec", "sqvec", "raise") and op not in SCAL1 and op not in SCAL2 and op != "AGGREGATE":
            viol.extend(one_call(c, True))
        if len(c["u"]) >= 2 and any(p[1] == 0 for p in list(c["u"]) + list(c["v"])):
            nontriv.add(op)
        if ci == 0:
            samples.append(c)
    return len(cases), viol, nontriv, samples


CFG = "SPECIFICATION Spec\nCONSTANTS\n  Family = \"%s\"\n  Emit = TRUE\n  MaxLen = %d\nINVARIANT Inv\nCHECK_DEADLOCK FALSE\n"


def run(ctx, quick):
    tot = 0
    for fam, ml in (("unary", 3 if quick else 4), ("binary", 2 if quick else 3)):
        path, out = ctx.tlc_emit_file("Operators", ctx.write_cfg("OPS_%s.cfg" % fam, CFG % (fam, ml)), label="operator objects: %s family, vectors to length %d" % (fam, ml))
        n = ctx.pmap_emitted(path, replay, chunk=600, growth=True)
        if n != out.distinct:
            raise core.Machinery("Operators: emitted calls %d != distinct states %d" % (n, out.distinct))
        tot += n
    ctx.extra["operator_object_calls_replayed"] = tot
