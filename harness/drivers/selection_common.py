"""Selection.tla bound to tracklib.algo.selection (spec -> code): every state printed by the model (one constraint with its
verdict for every track of the catalogue, or a history of mutations of a global selector with the verdict vectors) is
rebuilt on the real classes and the observations compared."""
import core

PTS = [(1, 1), (2, 2), (3, 2), (4, 2), (5, 2), (7, 7), (3, 6)]
CTRACKS = [[1], [4], [2, 4], [1, 5], [6, 2], [3, 3, 6], [2, 3, 5], [5, 4, 1], [7, 7], [6, 1, 4], [4, 4, 4], [1, 6, 6]]
CCONS = [{"kind": "shape", "shape": "rect", "win": "any", "mode": 0}, {"kind": "shape", "shape": "circ", "win": "any", "mode": 1},
         {"kind": "shape", "shape": "rect", "win": "w23", "mode": 3}, {"kind": "gate", "shape": "-", "win": "any", "mode": 0},
         {"kind": "shape", "shape": "circ", "win": "w23", "mode": 0}]
_T = {}


def mk_track(ids):
    key = tuple(ids)
    if key not in _T:
        from tracklib.core.obs import Obs
        from tracklib.core.obs_coords import ENUCoords
        from tracklib.core.obs_time import ObsTime
        from tracklib.core.track import Track
        tr = Track()
        for k, i in enumerate(ids):
            tr.addObs(Obs(ENUCoords(PTS[i - 1][0], PTS[i - 1][1], 0), ObsTime.readUnixTime(1600000000 + k + 1)))
        _T[key] = tr
    return _T[key]


def mk_con(c, cut=False):
    from tracklib.algo import selection as S
    from tracklib.core.obs_coords import ENUCoords
    from tracklib.core.obs_time import ObsTime
    from tracklib.util.geometrics import Circle, Rectangle
    if c["kind"] == "gate":
        return S.TollGateConstraint(ENUCoords(3, 0, 0), ENUCoords(3, 4, 0))
    shape = Rectangle(ENUCoords(0, 0, 0), ENUCoords(4, 4, 0)) if c["shape"] == "rect" else Circle(ENUCoords(4, 2, 0), 2)
    time = None if c["win"] == "any" else S.TimeConstraint(begin=ObsTime.readUnixTime(1600000002), end=ObsTime.readUnixTime(1600000003))
    return S.Constraint(shape=shape, time=time, mode=c["mode"], type=S.TYPE_CUT_AND_SELECT if cut else S.TYPE_SELECT)


def replay(cases):
    from tracklib.algo import selection as S
    from tracklib.core.track_collection import TrackCollection
    viol, nontriv, samples = [], set(), []
    for ci, c in enumerate(cases):
        if c["fam"] == "constraint":
            con = c["con"]
            tag = "%s/%s/%s/mode%d" % (con["kind"], con["shape"], con["win"], con["mode"])
            try:
                with core.quiet():
                    obj = mk_con(con)
                    for ids, want, cut in c["res"]:
                        got = bool(obj.contains(mk_track(ids)))
                        if got != want:
                            viol.append(("selection/contains/" + tag, "track %s: contains %s, specification %s" % (ids, got, want), {"con": con, "track": ids}))
                            break
                    # TYPE_SELECT on a collection: the sub-collection, in order
                    coll = TrackCollection([mk_track(t) for t in CTRACKS])
                    out = obj.select(coll)
                    got = [next(k + 1 for k, t in enumerate(CTRACKS) if out[j] is mk_track(t)) for j in range(out.size())]
                    if got != c["sel"]:
                        viol.append(("selection/select/" + tag, "select returned tracks %s, specification %s" % (got, c["sel"]), {"con": con}))
                    if con["kind"] == "shape":
                        cobj = mk_con(con, cut=True)
                        for ids, want, cut in c["res"]:
                            tr = mk_track(ids)
                            out = cobj.select(TrackCollection([tr.copy()]))
                            kept = [] if out.size() == 0 else [out[0][j].timestamp.toAbsTime() - 1600000000 for j in range(out[0].size())]
                            kept = [int(round(v)) for v in kept]
                            if kept != cut:
                                viol.append(("selection/cut/" + tag, "track %s: cut keeps fixes %s, specification %s" % (ids, kept, cut), {"con": con, "track": ids}))
                                break
                            if cut and len(cut) < len(ids):
                                nontriv.add(tag)
            except (Exception, SystemExit) as ex:
                viol.append(("selection/raised/" + tag, "%r" % (ex,), {"con": con}))
        else:
            try:
                with core.quiet():
                    g = S.GlobalSelector([])
                    for o in c["hist"]:
                        if o["op"] == "newsel":
                            g.addSelector(S.Selector(mk_con(CCONS[o["c"] - 1]), o["m"]))
                        elif o["op"] == "addc":
                            g.selectors[o["i"] - 1].addConstraint(mk_con(CCONS[o["c"] - 1]))
                        elif o["op"] == "setc":
                            g.selectors[o["i"] - 1].setCombinationMode(o["m"])
                        else:
                            g.setCombinationMode(o["m"])
                    for k, ids in enumerate(CTRACKS):
                        tr = mk_track(ids)
                        gs = [bool(s.contains(tr)) for s in g.selectors]
                        gg = bool(g.contains(tr))
                        if gs != list(c["sels"][k]) or gg != c["glob"][k]:
                            last = c["hist"][-1]["op"] if c["hist"] else "init"
                            viol.append(("selection/combine/after-" + last, "history %s, track %s: selectors %s global %s, specification %s / %s"
                                         % ([(o["op"], o["i"], o["c"], o["m"]) for o in c["hist"]], ids, gs, gg, c["sels"][k], c["glob"][k]), c["hist"]))
                            break
                    if len(c["hist"]) >= 3 and len({o["op"] for o in c["hist"]}) >= 3:
                        nontriv.add("mixed")
            except (Exception, SystemExit) as ex:
                viol.append(("selection/raised/combine", "%r after %s" % (ex, c["hist"]), c["hist"]))
        if ci == 0:
            samples.append({k: c[k] for k in c if k not in ("res",)})
    return len(cases), viol, nontriv, samples


CFG = "SPECIFICATION Spec\nCONSTANTS\n  Family = \"%s\"\n  Emit = %s\n  MaxOps = %d\nINVARIANT %s\nCHECK_DEADLOCK FALSE\n"


def run(ctx, quick):
    # the named deviations of the code from the ideal are refuted by TLC: the specification does describe them
    ctx.tlc_mc("Selection", ctx.write_cfg("SEL_gate.cfg", CFG % ("constraint", "FALSE", 0, "GateSound")), expect_violation="GateSound",
               label="Selection self-test: the straddle test reports crossings that are not (GateSound refuted)")
    ctx.tlc_mc("Selection", ctx.write_cfg("SEL_cut.cfg", CFG % ("constraint", "FALSE", 0, "CutIntended")), expect_violation="CutIntended",
               label="Selection self-test: the cut tests the wrong timestamps (CutIntended refuted)")
    tot = 0
    for fam, depth in (("constraint", 0), ("combine", 3 if quick else 4)):
        path, out = ctx.tlc_emit_file("Selection", ctx.write_cfg("SEL_%s.cfg" % fam, CFG % (fam, "TRUE", depth, "Inv")),
                                      label="Selection: emit %s family" % fam)
        n = ctx.pmap_emitted(path, replay, chunk=2 if fam == "constraint" else 400, growth=True)
        if n != out.distinct:
            raise core.Machinery("Selection: emitted states %d != distinct states %d" % (n, out.distinct))
        tot += n
    ctx.extra["selection_states_replayed"] = tot
