"""C01 - FeatureTable.tla bound to tracklib.core.track.Track.

spec -> code : every transition of the depth-bounded state graph is printed by TLC together
               with a real history reaching its source state; the history + the call are
               replayed on a fresh Track and the projected state is compared with the model.
code -> spec : random long histories over the whole operator catalogue and random expressions
               are recorded (projected state before/after every call, values as opaque tokens)
               and judged step by step by FeatureTableTrace.tla.
"""
import math
import random

import core
import tk

NONE = -1000000
FORMS = {"copy": "{A}", "add": "{A}+{B}", "mul2": "{A}*2", "rsub": "3-{A}", "int": "I{{{A}}}",
         "sum": "SUM{{{A}}}", "nest": "{A}*{B}-({A}+1)", "lit": "4",
         "aggr": "2*({A}+{B})+MAX{{{A}}}"}
ALL = {"Ops1": ["IDENTITY", "INTEGRATOR", "REVERSER", "SHIFT_CIRCULAR_RIGHT", "INVERTER"],
       "Ops2": ["ADDER", "SUBSTRACTER", "MULTIPLIER"],
       "OpsS": ["SCALAR_ADDER", "SCALAR_MULTIPLIER", "SCALAR_REV_SUBSTRACTER", "SHIFT_CIRCULAR"],
       "OpsA": ["SUM", "MIN", "MAX", "ARGMAX"],
       "Forms": ["copy", "add", "mul2", "rsub", "int", "sum", "nest", "lit", "aggr"]}
SMALL = {"Ops1": ["INTEGRATOR", "REVERSER"], "Ops2": ["SUBSTRACTER"], "OpsS": ["SCALAR_ADDER"],
         "OpsA": ["SUM"], "Forms": ["copy", "add", "nest", "lit", "aggr"]}


def cfg(n, names, maxlevel, emit, alpha, props=True):
    def st(xs):
        return "{" + ", ".join('"%s"' % x for x in xs) + "}"
    s = "SPECIFICATION Spec\nCONSTANTS\n  N = %d\n  Names = %s\n  MaxLevel = %d\n  Emit = %s\n" % (
        n, st(names), maxlevel, "TRUE" if emit else "FALSE")
    for k in ("Ops1", "Ops2", "OpsS", "OpsA", "Forms"):
        s += "  %s = %s\n" % (k, st(alpha[k]))
    if props:
        s += "INVARIANT Aligned\nINVARIANT Bijective\nINVARIANT NoTemps\nPROPERTY Frame\n"
    s += "CONSTRAINT Bounded\nVIEW View\nCHECK_DEADLOCK FALSE\n"
    return s


# ------------------------------------------------------------------ spec -> code
def _fresh(n):
    return tk.mk_track([10 * i for i in range(1, n + 1)], [20 + i for i in range(1, n + 1)], [3] * n)


def _apply(t, act):
    """Perform the public call named by a model action; returns (ret, raised)."""
    from tracklib.core.operators import Operator
    k = act[0]
    try:
        if k == "create":
            t.createAnalyticalFeature(act[1], float(act[2]))
        elif k == "createl":
            t.createAnalyticalFeature(act[1], [float(v) for v in act[2]])
        elif k == "setitem":
            t[act[1]] = float(act[2])
        elif k == "setiteml":
            t[act[1]] = [float(v) for v in act[2]]
        elif k == "setitemf":
            t[act[1]] = lambda track, i: 3.0 * i + 2.0
        elif k == "addaf":
            t.addAnalyticalFeature(lambda track, i: 3.0 * i + 2.0, act[1])
        elif k == "update":
            t.updateAnalyticalFeature(act[1], float(act[2]))
        elif k == "remove":
            t.removeAnalyticalFeature(act[1])
        elif k == "delitem":
            t[act[1]] = "#DELETE"
        elif k == "setobs":
            t[act[1], act[2]] = float(act[3])
        elif k == "op1":
            t.operate(getattr(Operator, act[1]), act[2], act[3])
        elif k == "op2":
            t.operate(getattr(Operator, act[1]), act[2], act[3], act[4])
        elif k == "ops":
            t.operate(getattr(Operator, act[1]), act[2], act[3], act[4])
        elif k == "agg":
            return t.operate(getattr(Operator, act[1]), act[2]), False
        elif k == "assign":
            if act[1] == "lit" and (len(act[2]) + len(act[3])) % 2 == 0:
                # the literal handed over as an EXTERNAL value; the same text was evaluated before, on another track, with
                # another value (an external is looked up at every call)
                import tk
                scratch = tk.mk_track([0.0, 1.0])
                try:
                    scratch.operate(act[2] + "=kval", {"kval": -9.0})
                except (Exception, SystemExit):
                    pass
                t.operate(act[2] + "=kval", {"kval": float(FORMS["lit"])})
            else:
                t.operate(act[2] + "=" + FORMS[act[1]].format(A=act[3], B=act[4]))
        elif k == "eval":
            return t.operate(FORMS[act[1]].format(A=act[2], B=act[3])), False
        else:
            raise core.Machinery("unknown model action %r" % (act,))
    except core.Machinery:
        raise
    except (Exception, SystemExit) as e:
        return repr(e), True
    return None, False


def _expected_error(t_names, act):
    k = act[0]
    if k in ("create",) and act[1] in ("x", "y", "z", "t", "timestamp", "idx"):
        return True
    if k in ("update", "remove", "delitem") and act[1] not in t_names:
        return True
    if k == "setobs" and act[1] not in t_names and act[1] not in ("x", "y", "z"):
        return True
    return False


def _sig(act):
    k = act[0]
    if k == "assign":
        lhs = "coord" if act[2] in ("x", "y", "z") else "feature"
        return "expr-assign/%s/lhs=%s" % (act[1], lhs)
    if k in ("op1", "op2", "ops", "agg"):
        return "%s/%s" % (k, act[1])
    if k == "eval":
        return "expr-eval/%s" % act[1]
    return k


def replay(cases):
    viol, nontriv, samples = [], set(), []
    for c in cases:
        post = c["post"]
        n = len(post["x"])
        t = _fresh(n)
        t0 = t.getT()
        bad = None
        for a in c["hist"]:
            _apply(t, a)
        names_before = t.getListAnalyticalFeatures()
        act = c["act"]
        ret, raised = _apply(t, act)
        if raised and not _expected_error(names_before, act):
            bad = "call raised %s" % ret
        else:
            names = t.getListAnalyticalFeatures()
            if sorted(names) != sorted(post["order"]) or len(set(names)) != len(names):
                bad = "listed features %s, specification %s" % (names, post["order"])
            elif any(len(o.features) != len(names) for o in t.getObsList()):
                bad = "observations carry %s values for %d listed features" % ([len(o.features) for o in t.getObsList()], len(names))
            else:
                for k_, nm in enumerate(post["order"]):
                    if not tk.list_eq(t.getAnalyticalFeature(nm), post["cols"][k_]):
                        bad = "feature %s reads %s, specification %s" % (nm, t.getAnalyticalFeature(nm), post["cols"][k_])
                        break
            if bad is None:
                for cname, got in (("x", t.getX()), ("y", t.getY()), ("z", t.getZ())):
                    if not tk.list_eq(got, post[cname]):
                        bad = "coordinate %s is %s, specification %s" % (cname, got, post[cname])
                if t.getT() != t0:
                    bad = "timestamps changed"
            if bad is None and act[0] == "agg" and not tk.num_eq(ret, post["ret"]):
                bad = "returned %r, specification %r" % (ret, post["ret"])
            if bad is None and act[0] == "eval" and not tk.list_eq(ret, act[-1]):
                bad = "expression returned %r, specification %r" % (ret, act[-1])
        if bad:
            viol.append((_sig(act), "after history %s the call %s: %s" % (c["hist"], act, bad), c))
        # non-trivial: the history removes (or moves by re-assignment) a non-last feature before this call
        h = c["hist"]
        if any(a[0] in ("remove", "delitem", "assign") for a in h) and len(post["order"]) >= 1:
            nontriv.add(repr((h, act)))
        if len(samples) < 2 and len(h) >= 2:
            samples.append({"history": h, "call": act, "spec_post": post})
    return len(cases), viol, nontriv, samples


# ------------------------------------------------------------------ code -> spec
TNAMES = ["a", "b", "xy", "zt"]          # two ordinary names and two legal names made of coordinate letters
U_VOID = ["IDENTITY", "RECTIFIER", "INTEGRATOR", "SHIFT_RIGHT", "SHIFT_LEFT", "SHIFT_CIRCULAR_RIGHT",
          "SHIFT_CIRCULAR_LEFT", "INVERTER", "INVERSER", "REVERSER", "DEBIASER", "SQUARE", "SQRT", "NORMALIZER",
          "DIFFERENTIATOR", "BACKWARD_FINITE_DIFF", "FORWARD_FINITE_DIFF", "CENTERED_FINITE_DIFF",
          "SECOND_ORDER_FINITE_DIFF", "DIODE", "SIGN", "EXP", "LOG", "COS", "SIN", "TAN"]
B_VOID = ["ADDER", "SUBSTRACTER", "MULTIPLIER", "DIVIDER", "POWER", "MODULO", "ABOVE", "BELOW", "QUAD_ADDER",
          "RENORMALIZER", "DERIVATOR", "POINTWISE_EQUALER", "CONVOLUTION", "CORRELATOR"]
S_VOID = ["SHIFT", "SHIFT_CIRCULAR", "SHIFT_REV", "SHIFT_CIRCULAR_REV", "SCALAR_ADDER", "SCALAR_SUBSTRACTER",
          "SCALAR_MULTIPLIER", "SCALAR_DIVIDER", "SCALAR_POWER", "SCALAR_MODULO", "SCALAR_ABOVE", "SCALAR_BELOW",
          "SCALAR_REV_ABOVE", "SCALAR_REV_BELOW", "SCALAR_REV_SUBSTRACTER", "SCALAR_REV_DIVIDER", "SCALAR_REV_POWER",
          "SCALAR_REV_MODULO", "THRESHOLDER", "APPLY", "FILTER", "RANDOM"]
U_PURE = ["SUM", "AVERAGER", "VARIANCE", "STDDEV", "MSE", "RMSE", "MAD", "MIN", "MAX", "MEDIAN", "ARGMIN", "ARGMAX", "ZEROS"]
B_PURE = ["COVARIANCE", "CORRELATION", "L0", "L1", "L2", "LINF", "EQUAL"]
ARITH = (ZeroDivisionError, ValueError, OverflowError, TypeError, FloatingPointError)


class Interner:
    def __init__(self):
        self.d = {}

    def __call__(self, v):
        try:
            f = float(v)
            key = "nan" if math.isnan(f) else repr(f + 0.0)
        except Exception:
            key = "obj:" + repr(v)
        if key not in self.d:
            self.d[key] = len(self.d) + 1
        return self.d[key]


def _proj(t, tok):
    names = t.getListAnalyticalFeatures()
    return {"names": names, "cols": [[tok(v) for v in t.getAnalyticalFeature(n)] for n in names],
            "lens": [len(o.features) for o in t.getObsList()],
            "x": [tok(v) for v in t.getX()], "y": [tok(v) for v in t.getY()], "z": [tok(v) for v in t.getZ()],
            "t": [tok(v) for v in t.getT()]}


def _positive(t, name):
    try:
        v = t.getAnalyticalFeature(name)
    except Exception:
        return False
    return all(isinstance(q, (int, float)) and not math.isnan(q) and 0.1 < q < 30 for q in v) and len(set(v)) == len(v)


def _finite(t, name):
    try:
        v = t.getAnalyticalFeature(name)
    except Exception:
        return False
    return all(isinstance(q, (int, float)) and not math.isnan(q) and not math.isinf(q) for q in v)


def _rand_expr(rnd, operands, depth):
    if depth == 0 or rnd.random() < 0.3:
        return rnd.choice(operands + ["2", "0.5", "3"])
    r = rnd.random()
    if r < 0.6:
        op = rnd.choice("+-*")
        a, b = _rand_expr(rnd, operands, depth - 1), _rand_expr(rnd, operands, depth - 1)
        if rnd.random() < 0.4:
            b = "(" + b + ")" if any(c in b for c in "+-*") else b
        if op == "*" and any(c in a for c in "+-"):
            a = "(" + a + ")"
        if op in "*-" and any(c in b for c in "+-") and not b.startswith("("):
            b = "(" + b + ")"
        return a + op + b
    f = rnd.choice(["I", "D", "ABS", "SUM", "MIN", "MAX", "DIODE"])
    inner = rnd.choice(operands)
    return "%s{%s}" % (f, inner)


def gen_history(rnd, n_obs, length, hid0):
    """One random history on a fresh track; returns the list of recorded events."""
    from tracklib.core.operators import Operator
    xs = [rnd.uniform(1, 20) for _ in range(n_obs)]
    t = tk.mk_track(xs, [rnd.uniform(1, 20) for _ in range(n_obs)], [rnd.uniform(1, 20) for _ in range(n_obs)])
    tok = Interner()
    events = []
    for _ in range(length):
        names = t.getListAnalyticalFeatures()
        readable = names + ["x", "y", "z", "idx"]
        pre = _proj(t, tok)
        r = rnd.random()
        ev = None
        call = None
        fresh_list = [round(rnd.uniform(1, 9), 3) for _ in range(n_obs)]
        while len(set(fresh_list)) < n_obs:
            fresh_list = [round(rnd.uniform(1, 9), 3) for _ in range(n_obs)]
        sc = round(rnd.uniform(1, 9), 3)
        nm = rnd.choice(TNAMES)
        if r < 0.10 or not names:
            kind = rnd.choice(["create", "setitem"])
            if rnd.random() < 0.5:
                ev = {"ev": kind, "n": nm, "scalar": True, "v": tok(sc)}
                call = (lambda: t.createAnalyticalFeature(nm, sc)) if kind == "create" else (lambda: t.__setitem__(nm, sc))
            else:
                ev = {"ev": kind, "n": nm, "scalar": False, "v": [tok(v) for v in fresh_list]}
                call = (lambda: t.createAnalyticalFeature(nm, list(fresh_list))) if kind == "create" else (lambda: t.__setitem__(nm, list(fresh_list)))
            if kind == "create" and rnd.random() < 0.1:
                nm2 = rnd.choice(["x", "t", "idx"])
                ev["n"] = nm2
                call = lambda: t.createAnalyticalFeature(nm2, sc)
        elif r < 0.16:
            ev = {"ev": "update", "n": nm, "scalar": True, "v": tok(sc)}
            call = lambda: t.updateAnalyticalFeature(nm, sc)
        elif r < 0.26:
            ev = {"ev": "remove", "n": nm}
            call = (lambda: t.removeAnalyticalFeature(nm)) if rnd.random() < 0.5 else (lambda: t.__setitem__(nm, "#DELETE"))
        elif r < 0.32:
            n2 = rnd.choice(TNAMES + ["x", "y", "z"])
            i = rnd.randrange(n_obs)
            ev = {"ev": "setobs", "n": n2, "i": i, "v": tok(sc)}
            call = (lambda: t.__setitem__((n2, i), sc)) if rnd.random() < 0.5 else (lambda: t.setObsAnalyticalFeature(n2, i, sc))
        elif r < 0.62:
            cls = rnd.choice(["u", "u", "b", "s"])
            out = rnd.choice(TNAMES)
            a = rnd.choice(readable)
            b = rnd.choice(readable)
            if cls == "u":
                op = rnd.choice(U_VOID)
                if op in ("SQRT", "INVERSER", "LOG", "EXP", "NORMALIZER") and not (_positive(t, a) and n_obs >= 2):
                    op = "IDENTITY"
                inplace = rnd.random() < 0.15 and a in names
                ev = {"ev": "opwrite", "n": a if inplace else out, "op": op, "args": [a]}
                call = (lambda: t.operate(getattr(Operator, op), a)) if inplace else (lambda: t.operate(getattr(Operator, op), a, out))
            elif cls == "b":
                op = rnd.choice(B_VOID)
                if op in ("DIVIDER", "POWER", "MODULO", "RENORMALIZER", "DERIVATOR", "CORRELATOR", "CONVOLUTION", "QUAD_ADDER") \
                        and not (_positive(t, a) and _positive(t, b) and n_obs >= 2):
                    op = "ADDER"
                ev = {"ev": "opwrite", "n": out, "op": op, "args": [a, b]}
                call = lambda: t.operate(getattr(Operator, op), a, b, out)
                if a in names and rnd.random() < 0.25:
                    # no output name: documented default is the FIRST operand (seed C01-binary-default-output-second-operand)
                    ev = {"ev": "opwrite", "n": a, "op": op, "args": [a, b]}
                    call = lambda: t.operate(getattr(Operator, op), a, b)
            else:
                op = rnd.choice(S_VOID)
                arg = rnd.choice([1, 2, 0.5, 3])
                if op in ("SCALAR_POWER", "SCALAR_REV_POWER", "SCALAR_MODULO", "SCALAR_REV_MODULO", "SCALAR_REV_DIVIDER",
                          "SCALAR_DIVIDER") and not _positive(t, a):
                    op = "SCALAR_ADDER"
                if op.startswith("SHIFT"):
                    arg = rnd.choice([0, 1, 2, -1])
                if op == "APPLY":
                    arg = lambda v: 2 * v + 1
                if op == "RANDOM":
                    arg = lambda: 0.25
                if op == "FILTER":
                    arg = rnd.choice([[1, 2, 1], [1, 1, 1], [1.0]])
                    if n_obs < 3 or not _positive(t, a):
                        op, arg = "SCALAR_ADDER", 1
                ev = {"ev": "opwrite", "n": out, "op": op, "args": [a]}
                call = lambda: t.operate(getattr(Operator, op), a, arg, out)
        elif r < 0.72:
            a = rnd.choice(readable)
            b = rnd.choice(readable)
            if not _finite(t, a) or not _finite(t, b):
                a = b = "x"
                if not _finite(t, "x"):
                    break    # x itself was overwritten with NaN / inf (setobs): aggregates of a column without finite values
                    #          (median of nothing, ...) are outside the domain; the history ends here (false alarm met in round 12)
            if rnd.random() < 0.6:
                op = rnd.choice(U_PURE)
                ev = {"ev": "pure", "op": op, "args": [a]}
                call = lambda: t.operate(getattr(Operator, op), a)
            else:
                op = rnd.choice(B_PURE)
                if op in ("CORRELATION",) and not (_positive(t, a) and _positive(t, b) and n_obs >= 2):
                    op = "L1"
                ev = {"ev": "pure", "op": op, "args": [a, b]}
                call = lambda: t.operate(getattr(Operator, op), a, b)
        else:
            e = _rand_expr(rnd, [x for x in readable], 3)
            if rnd.random() < 0.75:
                lhs = rnd.choice(TNAMES + (["x", "y", "z"] if rnd.random() < 0.3 else []))
                ev = {"ev": "assign", "n": lhs, "expr": lhs + "=" + e}
                s = lhs + "=" + e
                call = lambda: t.operate(s)
            else:
                ev = {"ev": "pure", "expr": e}
                call = (lambda: t.operate(e)) if rnd.random() < 0.5 or not any(c in e for c in "+-*/(") else (lambda: t[e])
        raised = False
        try:
            with core.quiet():
                call()
        except ARITH:
            break        # arithmetic undefined (x/0, sqrt of a negative, ...): outside the domain, history ends here
        except (Exception, SystemExit) as ex:
            raised = True
            ev["exc"] = repr(ex)[:120]
        ev["raised"] = raised
        ev["pre"] = pre
        ev["post"] = _proj(t, tok)
        ev["id"] = hid0 + len(events)
        events.append(ev)
    return events


def _gen_batch(args):
    seed, n_obs, count, length, id0 = args
    rnd = random.Random(seed)
    out = []
    for _ in range(count):
        ev = gen_history(rnd, n_obs, length, id0 + len(out))
        out.extend(ev)
    return n_obs, out


def trace_cfg(n):
    return """SPECIFICATION TSpec
CONSTANTS
  N = %d
  Names = {"a", "b", "xy", "zt"}
  MaxLevel = 0
  Emit = FALSE
  Ops1 = {}
  Ops2 = {}
  OpsS = {}
  OpsA = {}
  Forms = {}
CHECK_DEADLOCK FALSE
""" % n


def _trace_sig(e):
    if e["ev"] == "assign":
        return "expr-assign/lhs=%s" % ("coord" if e["n"] in ("x", "y", "z") else "feature")
    if e["ev"] in ("opwrite", "pure") and "op" in e:
        return "op/%s" % e["op"]
    if e["ev"] == "pure":
        return "expr-eval"
    return e["ev"]


def run(ctx):
    quick = ctx.tier == "quick"
    ctx.rule = ("spec->code: every transition of the FeatureTable state graph (N=2, names a,b,c, histories to the depth "
                "bound) replayed with a real history; code->spec: random histories (whole operator catalogue + random "
                "expressions, 1..12 observations) judged by FeatureTableTrace. Non-trivial = history contains a remove / "
                "re-assignment before the judged call (distinct (history, call) pairs) or, for traces, an event on a "
                "table with >= 2 listed features.")
    ctx.assumptions += ["list initialisers have one value per observation; operator inputs exist; arithmetic-undefined calls "
                        "(x/0, sqrt/log of non-positive, complex powers) end a random history (outside the domain)",
                        "listing ORDER of features is not compared (not part of the property)"]
    # 1. the specification's own properties, exhaustively (history hidden by VIEW)
    c = ctx.write_cfg("FT_mc.cfg", cfg(2, ["a", "b", "c"], 4 if quick else 4, False, ALL))
    ctx.tlc_mc("FeatureTable", c, label="FeatureTable exhaustive depth 3, N=2 (invariants + Frame)")
    c = ctx.write_cfg("FT_mc3.cfg", cfg(3, ["a", "b"], 4, False, ALL))
    ctx.tlc_mc("FeatureTable", c, label="FeatureTable exhaustive depth 3, N=3, two names")
    # 2. spec -> code
    c = ctx.write_cfg("FT_gen2.cfg", cfg(2, ["a", "b", "c"], 3, True, ALL, props=False))
    path, out = ctx.tlc_emit_file("FeatureTable", c, label="emit all transitions depth 2 (full alphabet)")
    n1 = ctx.pmap_emitted(path, replay, chunk=500)
    if n1 != out.generated - 1:
        raise core.Machinery("emitted %d transitions, TLC generated %d" % (n1, out.generated - 1))
    # names are arbitrary strings for the specification: this run uses a legal name made of coordinate letters ("xy")
    c = ctx.write_cfg("FT_gen3.cfg", cfg(2, ["a", "xy"], 4, True, SMALL if quick else ALL, props=False))
    path, out = ctx.tlc_emit_file("FeatureTable", c, label="emit all transitions depth 3 (%s alphabet)" % ("reduced" if quick else "full"))
    n2 = ctx.pmap_emitted(path, replay, chunk=2000)
    if n2 != out.generated - 1:
        raise core.Machinery("emitted %d transitions, TLC generated %d" % (n2, out.generated - 1))
    ctx.extra["transitions_replayed"] = n1 + n2
    # 3. code -> spec
    import multiprocessing as mp
    sizes = [1, 2, 3, 5, 8, 12]
    per = 12 if quick else 120
    jobs = []
    for k, n in enumerate(sizes):
        for j in range(4):
            jobs.append((ctx.seed * 1000 + k * 10 + j, n, per, 40, (k * 4 + j) * 1000000))
    by_n = {}
    with mp.get_context("fork").Pool(16, initializer=core._pool_init, initargs=(None,)) as pool:
        for n, evs in pool.imap_unordered(_gen_batch, jobs):
            by_n.setdefault(n, []).extend(evs)
    total = 0
    for n in sizes:
        evs = by_n.get(n, [])
        total += len(evs)
        byid = {e["id"]: e for e in evs}
        c = ctx.write_cfg("FTT_%d.cfg" % n, trace_cfg(n))
        rej = ctx.tlc_trace("FeatureTableTrace", evs, cfg=c, label="trace N=%d" % n, chunks=8)
        for i, clause in rej.items():
            e = byid[i]
            desc = e.get("expr") or ("%s %s -> %s" % (e.get("op", e["ev"]), e.get("args", ""), e.get("n", "")))
            ctx.violation(_trace_sig(e) + "/" + clause, "recorded call %s rejected by FeatureTableTrace: clause %s" % (desc, clause), e)
        for e in evs:
            if len(e["pre"]["names"]) >= 2:
                ctx.nontriv("T%d" % e["id"])
        if evs:
            e = evs[min(len(evs) - 1, 7)]
            ctx.sample({"trace_event": {k: e[k] for k in e if k not in ("pre", "post")}, "pre_names": e["pre"]["names"],
                        "post_names": e["post"]["names"]}, limit=8)
    ctx.evaluations += total
    ctx.extra["trace_events"] = total
    # growth next to C01: the feature table when the list of observations is edited between feature operations (TrackEdit.tla)
    from drivers import trackedit_common
    trackedit_common.run(ctx, ctx.tier == "quick")
