"""C19 - RasterGrid.tla / RasterGridTrace.tla bound to tracklib.algo.summarising.summarize and Raster.getCell
(code -> spec).

TLC checks the transcribed getCell arithmetic against the closed-footprint definition on every lattice point of every
small grid, and the transcribed cell operators against the aggregate definition on every short value list with NaN (the
pinned co_min / co_max / co_median are refuted: self-test).  The driver summarises real collections (1-3 tracks, points
anywhere in the bounding box incl. cell borders, the outer border and corners; square / non-square resolutions;
margins 0 and 1/4; values with NaN) with the six built-in operators, recovers the cell assignment from
collectionValuesGrid through unique tags and lets TLC judge assignment, conservation and every cell of every grid."""
import math
import random
from fractions import Fraction

import core

Q = 8            # fine units per ground unit
NANV = 9999
INFV = 9998      # +-INFV code +-infinity: beyond every finite value of the families


def enc(v):
    return NANV if v is None else INFV if v == float("inf") else -INFV if v == float("-inf") else int(v)


def q(v):
    r = v * Q
    if abs(r - round(r)) > 1e-9:
        raise core.Machinery("value %r is not on the 1/%d lattice" % (v, Q))
    return int(round(r))


def geom(raster, sc=1):
    return {"xmin": q(raster.xmin / sc), "ymin": q(raster.ymin / sc), "rx": q(raster.resolution[0] / sc), "ry": q(raster.resolution[1] / sc),
            "ncol": int(raster.ncol), "nrow": int(raster.nrow)}


DECI = 0.1       # a third of the calls are made in tenths (coordinates and cell size x 0.1: NOT exact in binary floating point; the grid
                 # the raster reports is scaled back and snapped to the lattice, observations on a cell border may go to either side)


def absval(v, nodata):
    try:
        v = float(v)
    except Exception:
        return [3, 0, 1]
    if math.isnan(v):
        return [3, 0, 1]
    if math.isinf(v):
        return [1, INFV if v > 0 else -INFV, 1]
    if v == nodata:
        return [0, 0, 1]
    f = Fraction(v).limit_denominator(64)
    if abs(float(f) - v) > 1e-9 * max(1.0, abs(v)):
        return [3, 0, 1]
    return [1, f.numerator, f.denominator]


def make_collection(tracks, sc=1):
    """tracks: list of lists of (x, y, value|None) in ground units"""
    from tracklib.core.track import Track
    from tracklib.core.obs import Obs
    from tracklib.core.obs_coords import ENUCoords
    from tracklib.core.obs_time import ObsTime
    from tracklib.core.track_collection import TrackCollection
    out, tag = [], 0
    # the numbers of a feature are carried by python floats, numpy double-precision or integer scalars (features filled from
    # numpy arrays) or python ints, by turns (single precision is left out: a mean computed in single precision is only
    # accurate to 1e-7, which the exact comparison of this check would report)
    allv = [v for pts in tracks for (x, y, v) in pts if v is not None and v == v and abs(v) != float("inf")]
    carrier = (len(allv) + int(sum(abs(v) for v in allv) * 4)) % 4
    if carrier >= 2 and any(v != int(v) for v in allv):
        carrier = 0

    def cv(v):
        import numpy as np
        if v is None:
            return np.float64("nan") if carrier == 1 else float("nan")
        if carrier == 1:
            return np.float64(v)
        if carrier >= 2 and v == v and abs(v) != float("inf"):
            return np.int64(v) if carrier == 2 else int(v)
        return float(v)
    for pts in tracks:
        tr = Track([Obs(ENUCoords(float(x) * sc, float(y) * sc, 0.0), ObsTime()) for (x, y, v) in pts])
        # the tracks of a collection need not store their features in the same order: every other track has an extra
        # feature first and creates 'v' before 'tag'
        if len(out) % 2:
            tr.createAnalyticalFeature("extra", [1000.0 + k for k in range(len(pts))])
            tr.createAnalyticalFeature("v", [cv(v) for (x, y, v) in pts])
            tr.createAnalyticalFeature("tag", [float(tag + k + 1) for k in range(len(pts))])
            tag += len(pts)
            out.append(tr)
            continue
        tr.createAnalyticalFeature("tag", [float(tag + k + 1) for k in range(len(pts))])
        tr.createAnalyticalFeature("v", [cv(v) for (x, y, v) in pts])
        tag += len(pts)
        out.append(tr)
    return TrackCollection(out)


def call_summarize(tracks, res, margin):
    from tracklib.algo.summarising import summarize
    from tracklib.core.utils import co_count, co_sum, co_min, co_max, co_avg, co_median
    flat = [p for t in tracks for p in t]
    e = {"ev": "sum", "raised": False, "obs": [[q(x), q(y), enc(v)] for (x, y, v) in flat],
         "g": {"xmin": 0, "ymin": 0, "rx": 1, "ry": 1, "ncol": 1, "nrow": 1}, "cells": [], "tagcount": [], "grids": [],
         "cfg": "res=%s margin=%s" % (res, margin)}
    sc = DECI if (len(flat) + int(sum(8 * x + 16 * y for (x, y, _v) in flat))) % 3 == 0 else 1
    if sc != 1:
        e["cfg"] += " unit=0.1"
        res = (res[0] * sc, res[1] * sc)
    try:
        with core.quiet():
            coll = make_collection(tracks, sc)
            # the six requests on the feature come in an order that depends on the call (every cell list is shared by all of them)
            ops = [co_count, co_sum, co_min, co_max, co_avg, co_median]
            h = (len(flat) * 7 + sum(int(8 * x) + 3 * int(8 * y) for (x, y, _v) in flat)) % 720
            order = []
            for k in range(6, 0, -1):
                order.append(ops.pop(h % k))
                h //= k
            e["cfg"] += " order=" + ",".join(o.__name__ for o in order)
            if (len(flat) + int(sum(8 * y for (_x, y, _v) in flat))) % 2:
                # the list of (feature, operator) requests names 'v' again AFTER another feature
                e["cfg"] += " requests=v,tag,v.."
                r = summarize(coll, ["v", "tag"] + ["v"] * 5, [order[0], co_count] + order[1:], resolution=res, margin=margin, verbose=False)
            else:
                r = summarize(coll, ["tag"] + ["v"] * 6, [co_count] + order, resolution=res, margin=margin, verbose=False)
        e["g"] = geom(r, sc)
        nd = r.getNoDataValue()
        cells = []
        vg = r.collectionValuesGrid["tag"]
        for row in range(len(vg)):
            for col in range(len(vg[row])):
                if vg[row][col]:
                    cells.append([row, col, [int(round(t)) for t in vg[row][col]]])
        e["cells"] = cells
        e["tagcount"] = [[int(round(x)) for x in rowv] for rowv in r.getAFMap("tag#co_count").grid]
        e["grids"] = [[[absval(x, nd) for x in rowv] for rowv in r.getAFMap("v#" + op).grid]
                      for op in ("co_count", "co_sum", "co_min", "co_max", "co_avg", "co_median")]
    except core.Machinery:
        raise
    except (Exception, SystemExit) as ex:
        e["raised"] = True
        e["exc"] = repr(ex)[:80]
    return e


def call_getcell(W, H, res, margin, pts):
    from tracklib.core.raster import Raster
    from tracklib.core.bbox import Bbox
    from tracklib.core.obs_coords import ENUCoords
    sc = DECI if (W + 2 * H + int(res[0] * 4) + int(margin * 8)) % 3 == 0 else 1
    with core.quiet():
        r = Raster(bbox=Bbox(ENUCoords(0.0, 0.0), ENUCoords(float(W) * sc, float(H) * sc)), resolution=(res[0] * sc, res[1] * sc) if sc != 1 else res, margin=margin)
    g = geom(r, sc)
    out = []
    for (x, y) in pts:
        e = {"ev": "cell", "g": g, "P": [q(x), q(y)], "none": False, "col": 0, "row": 0, "cfg": "res=%s margin=%s unit=%s" % (res, margin, sc)}
        try:
            with core.quiet():
                c = r.getCell(ENUCoords(float(x) * sc, float(y) * sc, 0.0))
            if c is None:
                e["none"] = True
            else:
                e["col"], e["row"] = int(c[0]), int(c[1])
        except (Exception, SystemExit) as ex:
            e["none"] = True
            e["exc"] = repr(ex)[:80]
        out.append(e)
    return out


RESS = [(1, 1), (2, 1), (1, 2), (1.5, 1), (0.5, 0.5), (1, 1.5)]


def job_cells(args):
    W, H = args
    out = []
    for res in RESS:
        for margin in (0.0, 0.25):
            x0, y0 = -margin * W, -margin * H
            x1, y1 = W + margin * W, H + margin * H
            pts = []
            x = x0
            while x <= x1 + 1e-12:
                y = y0
                while y <= y1 + 1e-12:
                    pts.append((x, y))
                    y += 0.25
                x += 0.25
            out.extend(call_getcell(W, H, res, margin, pts))
    return out


def job_random(args):
    seed, count = args
    rnd = random.Random(seed)
    out = []
    for _ in range(count):
        W, H = rnd.randrange(1, 5), rnd.randrange(1, 4)
        res = rnd.choice(RESS)
        margin = rnd.choice([0.0, 0.25])
        tracks = [[(0, 0, rnd.choice([None, 1])), (W, H, rnd.choice([None, 2, 2, -1]))]]          # anchors pin the bounding box
        for _t in range(rnd.randrange(1, 4)):
            tr = []
            for _o in range(rnd.randrange(1, 4)):
                step = rnd.choice([0.25, 0.5, 1])
                x = rnd.randrange(0, int(W / step) + 1) * step
                y = rnd.randrange(0, int(H / step) + 1) * step
                u = rnd.random()
            tr.append((x, y, None if u < 0.25 else (float("inf") if u < 0.29 else float("-inf") if u < 0.35 else rnd.randrange(-3, 6))))
            tracks.append(tr)
        out.append(call_summarize(tracks, res, margin))
    return out


def mc_cfg(mode, legacy=False):
    inv = "GetCellInFootprint" if mode == "cell" else "AggIsDefinition"
    return ("SPECIFICATION Spec\nCONSTANTS\n  GW = 12\n  GH = 8\n  Res = {2, 3, 4, 8}\n  AVals = {0, 1, 2, 9999}\n  Legacy = %s\n  Mode = \"%s\"\n"
            "INVARIANT %s\nCHECK_DEADLOCK FALSE\n" % ("TRUE" if legacy else "FALSE", mode, inv))


def run(ctx):
    quick = ctx.tier == "quick"
    ctx.rule = ("TLC: transcribed getCell inside the closed footprint for every lattice point of every grid with extents <= 12 x 8 "
                "fine units and resolutions {2,3,4,8}; transcribed cell operators = aggregate definition on all value lists of "
                "length <= 3 over {0,1,2,NaN} (pinned operators refuted). Binding: getCell on every quarter-unit point of all "
                "boxes up to 4 x 3 x 6 resolutions x 2 margins; summarize() with six operators on random collections (1-3 "
                "tracks x 1-3 observations + corner anchors, points on cell borders / outer border / corners, values with NaN); "
                "judged by RasterGridTrace. Non-trivial = distinct summarize calls holding a NaN value and a point on a cell "
                "border, and distinct getCell points on a cell border.")
    ctx.assumptions += ["coordinates, resolutions and margins on the 1/8 lattice (exact floats)",
                        "the raster's own origin, resolution, ncol and nrow define the footprints",
                        "no-data value is the raster's getNoDataValue()"]
    c = ctx.write_cfg("RGc.cfg", mc_cfg("cell"))
    ctx.tlc_mc("RasterGrid", c, label="getCell transcription inside footprint")
    c = ctx.write_cfg("RGa.cfg", mc_cfg("agg"))
    ctx.tlc_mc("RasterGrid", c, label="cell operators = aggregate definition")
    ctx.tlc_mc("RasterGrid", ctx.write_cfg("RGr.cfg", mc_cfg("req").replace("INVARIANT AggIsDefinition", "INVARIANT RequestOrderIrrelevant")),
               label="request lists: every aggregate answered from the cell's values whatever the order")
    ctx.tlc_mc("RasterGrid", ctx.write_cfg("RGrl.cfg", mc_cfg("req", legacy=True).replace("INVARIANT AggIsDefinition", "INVARIANT RequestOrderIrrelevant")),
               label="self-test: a median that consumes the shared cell list is refuted", expect_violation="RequestOrderIrrelevant")
    c = ctx.write_cfg("RGl.cfg", mc_cfg("agg", legacy=True))
    ctx.tlc_mc("RasterGrid", c, label="self-test: pinned cell operators refuted", expect_violation="AggIsDefinition")
    import multiprocessing as mp
    jobs = []
    for W in range(1, 5):
        for H in range(1, 4):
            if quick and (W + H) % 2:
                continue
            jobs.append((job_cells, (W, H)))
    for k in range(32):
        jobs.append((job_random, (ctx.seed * 43 + k, 40 if quick else 3000)))
    events = []
    with mp.get_context("fork").Pool(16, initializer=core._pool_init, initargs=(None,)) as pool:
        res = [pool.apply_async(f, (a,)) for f, a in jobs]
        for r in res:
            events.extend(r.get())
    for k, e in enumerate(events):
        e["id"] = k
    rej = ctx.tlc_trace("RasterGridTrace", events, chunks=16, label="raster trace", timeout=3000)
    byid = {e["id"]: e for e in events}
    for i, clause in sorted(rej.items()):
        e = byid[i]
        if e["ev"] == "sum":
            ctx.violation("summarize/%s" % clause, "summarize(%s) observations %s -> cells %s %s: %s" %
                          (e["cfg"], e["obs"], e["cells"], e.get("exc", ""), clause), e)
        else:
            ctx.violation("getCell/%s" % clause, "getCell(%s) grid %s point %s -> (%s, %s) %s: %s" %
                          (e["cfg"], e["g"], e["P"], e["col"], e["row"], e.get("exc", ""), clause), e)

    def on_border(g, p):
        return (p[0] - g["xmin"]) % g["rx"] == 0 or (p[1] - g["ymin"]) % g["ry"] == 0
    for e in events:
        if e["ev"] == "cell":
            if on_border(e["g"], e["P"]):
                ctx.nontriv(repr((e["g"], e["P"])))
        elif not e["raised"] and any(o[2] == NANV for o in e["obs"]) and any(on_border(e["g"], o) for o in e["obs"][2:]):
            ctx.nontriv(repr((e["cfg"], e["obs"])))
    ctx.evaluations += len(events)
    ctx.extra["summarize_calls"] = sum(1 for e in events if e["ev"] == "sum")
    ctx.extra["getCell_calls"] = sum(1 for e in events if e["ev"] == "cell")
    ctx.extra["aggregate_cells_judged"] = sum(6 * e["g"]["ncol"] * e["g"]["nrow"] for e in events if e["ev"] == "sum" and not e["raised"])
    for e in events:
        if e["ev"] == "sum" and not e["raised"] and len(e["obs"]) >= 6:
            ctx.sample({k: e[k] for k in ("cfg", "g", "obs", "cells")}, limit=2)
    # growth next to C19: the mutable bounding box the raster is laid over (BoundingBox.tla)
    from drivers import bbox_common
    bbox_common.run(ctx, quick)
    # growth next to C19: the cell operators the property does not name (CellOps.tla)
    from drivers import cellops_common
    cellops_common.run(ctx, quick)
