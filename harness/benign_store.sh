#!/bin/bash
# Store and evaluate a PROPERTY-PRESERVING change written by an independent sub-agent in the scratch worktree /tmp/wt/<id>:
#   harness/benign_store.sh <wt id> <name> [props]
# 1. the agent's demonstration must exit 0 on the changed worktree AND on the unchanged tree (the property holds on both);
# 2. the repository's stable tests must still pass with the change (harness/baseline.py);
# 3. the quick check(s) of the property are run against the change (scratch worktree, PYTHONPATH) and must exit 0.
# The patch and demonstration are kept under /verif/benign/<name>/ with the verdict in meta.json.
set -u
id=$1; name=$2; prop=${3:-${id:0:3}}
wt=/tmp/wt/$id; dst=/verif/benign/$name
[ -s $wt/patch.diff ] || (cd $wt && git diff -- tracklib > patch.diff)
[ -s $wt/patch.diff ] || { echo "no patch in $wt"; exit 2; }
mkdir -p $dst
cp $wt/patch.diff $dst/patch.diff
cp $wt/demo_$id.py $dst/demo.py
(cd $wt && PYTHONPATH=$wt timeout 1800 /venv/bin/python demo_$id.py > /tmp/benign_demo_with.txt 2>&1); rc_with=$?
(cd /repo && PYTHONPATH=/repo timeout 1800 /venv/bin/python $wt/demo_$id.py > /tmp/benign_demo_without.txt 2>&1); rc_without=$?
/venv/bin/python /verif/harness/baseline.py $wt > /tmp/benign_base.txt 2>&1; rc_base=$?
out=$(cd /verif && /venv/bin/python harness/seed_eval.py $dst/patch.diff --props $prop 2>&1)
echo "$out"
verdict=accepted
echo "$out" | grep -q "DETECTED\|MACHINERY" && verdict=ALARM
growth=$(echo "$out" | grep -c "GROWTH-DIVERGENCE")
cat > $dst/meta.json <<EOF
{"name": "$name", "property": "$prop", "kind": "property-preserving change (independent sub-agent)",
 "demo_exit_with_change": $rc_with, "demo_exit_without_change": $rc_without, "existing_tests_pass_with_change": $([ $rc_base -eq 0 ] && echo true || echo false),
 "quick_check": "$verdict"}
EOF
echo "== $name: demo with=$rc_with without=$rc_without baseline=$rc_base check=$verdict"
tail -3 /tmp/benign_demo_with.txt
