#!/venv/bin/python
"""Runs the repository's pinned baseline (guard off) and compares with /root/.vp/BASELINE.json."""
import json, os, subprocess, sys, tempfile
import xml.etree.ElementTree as ET
repo = sys.argv[1] if len(sys.argv) > 1 else "/repo"
base = json.load(open("/root/.vp/BASELINE.json"))
fd, path = tempfile.mkstemp(suffix=".xml"); os.close(fd)
env = dict(os.environ); env.pop("TRACKLIB_VERIF_TRACE", None)
env["PYTHONPATH"] = repo
p = subprocess.run(["/venv/bin/python", "-m", "pytest", "-ra", "-q", "-p", "no:cacheprovider", "--timeout=900",
                    "--continue-on-collection-errors", "--junitxml=" + path], cwd=repo, env=env,
                   stdout=subprocess.PIPE, stderr=subprocess.STDOUT, text=True)
passed = set()
for tc in ET.parse(path).getroot().iter("testcase"):
    if not any(ch.tag in ("failure", "error", "skipped") for ch in tc):
        passed.add(tc.get("classname") + "::" + tc.get("name"))
os.unlink(path)
missing = [t for t in base["stable_pass"] if t not in passed]
print(p.stdout.splitlines()[-1])
print("baseline: %d/%d stable tests pass; missing: %s" % (len(base["stable_pass"]) - len(missing), len(base["stable_pass"]), missing))
sys.exit(1 if missing else 0)
