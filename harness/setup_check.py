#!/venv/bin/python
"""setup_cmd: nothing to build (TLA+ specs are interpreted by TLC; the harness is Python).
Verifies that the tools the checks need are present and that every spec parses."""
import glob
import os
import subprocess
import sys

VERIF = os.path.dirname(os.path.dirname(os.path.abspath(__file__)))
JAR = "/opt/veriftools/tla/tla2tools.jar:/opt/veriftools/tla/CommunityModules-deps.jar"


def main():
    r = subprocess.run(["java", "-version"], stdout=subprocess.PIPE, stderr=subprocess.STDOUT, text=True)
    if r.returncode != 0:
        print("java missing"); return 1
    bad = 0
    from concurrent.futures import ThreadPoolExecutor
    files = sorted(glob.glob(os.path.join(VERIF, "spec", "*.tla")))

    def sany(f):
        p = subprocess.run(["java", "-cp", JAR, "tla2sany.SANY", os.path.basename(f)], cwd=os.path.dirname(f),
                           stdout=subprocess.PIPE, stderr=subprocess.STDOUT, text=True)
        return f, ("Semantic errors" in p.stdout or "Parse Error" in p.stdout or "Fatal" in p.stdout
                   or "Could not" in p.stdout or p.returncode != 0), p.stdout
    with ThreadPoolExecutor(8) as ex:
        for f, err, out in ex.map(sany, files):
            if err:
                bad += 1
                print("SANY failed on", f); print(out[-2000:])
    os.makedirs(os.path.join(VERIF, "evidence"), exist_ok=True)
    os.makedirs(os.path.join(VERIF, "out"), exist_ok=True)
    print("setup: %d spec modules parsed, %d failures" % (len(files), bad))
    return 1 if bad else 0


if __name__ == "__main__":
    sys.exit(main())
