#!/bin/bash
# seed_store.sh <Cxx> <name> "<what it needs to manifest>" : copy a confirmed seeded change from /tmp/wt/<Cxx> to /verif/seeded/<name>/
id=$1; name=$2; needs=$3; wt=/tmp/wt/$id; dst=/verif/seeded/$name
mkdir -p $dst
(cd $wt && git diff -- tracklib) > $dst/patch.diff
cp $wt/demo_$id.py $dst/demo.py
python3 - "$id" "$name" "$needs" <<'PY'
import json, sys
id_, name, needs = sys.argv[1:4]
json.dump({"property": id_[:3], "name": name, "needs_to_manifest": needs,
           "confirmed": "demo.py exits 1 with patch.diff applied and 0 without (PYTHONPATH=<worktree> /venv/bin/python demo.py); "
                        "the repository's 243 stable tests still pass with the patch (harness/baseline.py <worktree>)",
           "detected_by": {}}, open("/verif/seeded/%s/meta.json" % name, "w"), indent=1)
PY
echo stored $dst
