"""Core of the model-based verification harness for tracklib.

Every check is decided by a TLA+ specification run by TLC:
  * Ctx.tlc_mc    - exhaustive / simulated model checking of a spec module (design level)
  * Ctx.tlc_emit  - run a generator configuration; the model prints JSON behaviours /
                    configurations with the values the specification assigns (spec -> code)
  * Ctx.tlc_trace - batch trace validation: events recorded from the real code are judged
                    by the acceptance predicates of a *Trace.tla module (code -> spec)
Exit status: 0 held, 1 violation (VIOLATION line), 2 machinery failure.
"""
import contextlib
import io
import json
import math
import os
import re
import shutil
import subprocess
import sys
import tempfile
import time
from concurrent.futures import ThreadPoolExecutor
from fractions import Fraction

VERIF = os.path.dirname(os.path.dirname(os.path.abspath(__file__)))
SPEC = os.path.join(VERIF, "spec")
EVID = os.environ.get("VERIF_EVIDENCE_DIR") or os.path.join(VERIF, "evidence")     # redirected when evaluating seeded changes
OUT = os.environ.get("VERIF_OUT_DIR") or os.path.join(VERIF, "out")
TLA_JAR = "/opt/veriftools/tla/tla2tools.jar:/opt/veriftools/tla/CommunityModules-deps.jar"


class Machinery(Exception):
    """The verification machinery itself failed (never reported as a violation)."""


class TLCOut:
    def __init__(self, stdout, wall):
        self.stdout = stdout
        self.wall = wall
        self.generated = 0
        self.distinct = 0
        self.depth = 0
        self.ok = False
        self.violated = None
        m = None
        for m in re.finditer(r"(\d+) states generated, (\d+) distinct states found", stdout):
            pass
        if m:
            self.generated, self.distinct = int(m.group(1)), int(m.group(2))
        m = re.search(r"depth of the complete state graph search is (\d+)", stdout)
        if m:
            self.depth = int(m.group(1))
        self.ok = "Model checking completed. No error has been found." in stdout
        m = re.search(r"Invariant (\S+) is violated", stdout)
        if m:
            self.violated = m.group(1)
        m2 = re.search(r"Action property (\S+) is violated", stdout)
        if m2:
            self.violated = m2.group(1)
        if "Temporal properties were violated" in stdout:
            self.violated = self.violated or "temporal"

    def printed_json(self):
        """Values printed with PrintT(ToJson(v)): one quoted JSON string per line."""
        res = []
        for line in self.stdout.splitlines():
            if len(line) >= 2 and line[0] == '"' and line[-1] == '"':
                try:
                    res.append(json.loads(json.loads(line)))
                except Exception:
                    raise Machinery("unparsable PrintT line: %r" % line[:200])
        return res

    def printed_tuples(self, tag):
        """<<"TAG", a, b, ...>> printed with PrintT -> list of raw argument strings.  TLC's pretty printer breaks long
        tuples over several lines, so the whole output is scanned, not single lines (arguments are scalars)."""
        res = []
        pat = re.compile(r'<<\s*"%s"\s*(?:,\s*(.*?))?\s*>>' % re.escape(tag), re.S)
        for m in pat.finditer(self.stdout):
            res.append(re.sub(r"\s*\n\s*", " ", m.group(1) or ""))
        return res

    def coverage_counts(self):
        """Per-action counts from -coverage 1: {action: (distinct, total)}."""
        res = {}
        for m in re.finditer(r"<(\w+) line \d+, col \d+ to line \d+, col \d+ of module (\w+)>: (\d+):(\d+)",
                             self.stdout):
            res[m.group(1)] = (int(m.group(3)), int(m.group(4)))
        return res


def tla_value_split(s):
    """Split the top level of a comma separated TLA+ value list (brackets/strings aware)."""
    parts, depth, cur, instr = [], 0, [], False
    i = 0
    while i < len(s):
        c = s[i]
        if instr:
            cur.append(c)
            if c == "\\":
                cur.append(s[i + 1]); i += 1
            elif c == '"':
                instr = False
        elif c == '"':
            instr = True; cur.append(c)
        elif c in "<[({":
            depth += 1; cur.append(c)
            if c == "<" and s[i:i + 2] == "<<":
                cur.append("<"); i += 1
        elif c in ">])}":
            depth -= 1; cur.append(c)
            if c == ">" and s[i:i + 2] == ">>":
                cur.append(">"); i += 1
        elif c == "," and depth == 0:
            parts.append("".join(cur).strip()); cur = []
        else:
            cur.append(c)
        i += 1
    if cur:
        parts.append("".join(cur).strip())
    return parts


@contextlib.contextmanager
def quiet():
    """Silence tracklib's prints / progress bars."""
    old_out, old_err = sys.stdout, sys.stderr
    sys.stdout = io.StringIO()
    sys.stderr = io.StringIO()
    try:
        yield
    finally:
        sys.stdout, sys.stderr = old_out, old_err


# --------------------------------------------------------------------------------------
# abstraction function: floats of the implementation -> exact lattice values of the model
# --------------------------------------------------------------------------------------
TOL = 1e-9


def close(x, q, tol=TOL):
    """Implementation float x agrees with model rational q."""
    q = float(q)
    if isinstance(x, float) and math.isnan(x):
        return False
    return abs(float(x) - q) <= tol * max(1.0, abs(q))


def to_rat(x, maxden=10 ** 6, tol=TOL):
    """Nearest rational with bounded denominator; None if x is not within tol of one."""
    if isinstance(x, bool):
        return Fraction(int(x))
    if isinstance(x, int):
        return Fraction(x)
    x = float(x)
    if math.isnan(x) or math.isinf(x):
        return None
    f = Fraction(x).limit_denominator(maxden)
    if abs(float(f) - x) <= tol * max(1.0, abs(x)):
        return f
    return None


def rat_json(f):
    f = Fraction(f)
    return [f.numerator, f.denominator]


def jrat(v):
    """Model value on the wire -> Fraction / 'NaN' / 'Undef'."""
    if isinstance(v, str):
        return v
    if isinstance(v, list) and len(v) == 2:
        return Fraction(v[0], v[1])
    return Fraction(v)


_POOL_FUNC = None


def _pool_init(func):
    global _POOL_FUNC
    _POOL_FUNC = func
    sys.stdout = io.StringIO()
    sys.stderr = io.StringIO()


def _pool_call(lines):
    cases = [json.loads(json.loads(l)) for l in lines]
    try:
        return _POOL_FUNC(cases)
    except BaseException as e:       # a dying worker would hang the pool: report instead
        import traceback
        return ("ERR", traceback.format_exc(), None, None)


class Ctx:
    def __init__(self, pid, tier, seed):
        self.pid, self.tier, self.seed = pid, tier, seed
        self.t0 = time.time()
        self.tmp = tempfile.mkdtemp(prefix="vcheck-%s-" % pid)
        self.states = 0
        self.transitions = 0
        self.bound = 0            # behaviours / cases bound to the implementation
        self.evaluations = 0
        self.nontrivial = set()
        self.samples = []
        self.tlc_runs = []
        self.notes = []
        self.assumptions = []
        self.rule = ""
        self.exhaustive = None
        self.violations = []      # (signature, what, detail)
        self.growth_div = []      # divergences from the GROWTH parts of the specification (behaviour beyond the listed property):
                                  # reported and recorded, never a VIOLATION of the property (exit status unaffected)
        self.known_hits = {}
        self.extra = {}
        with open(os.path.join(VERIF, "known_findings.json")) as f:
            self.known = [k for k in json.load(f)["findings"] if k["property"] == pid]

    # ---------------------------------------------------------------- TLC
    def dbg(self, msg):
        if os.environ.get("VERIF_DEBUG"):
            sys.__stderr__.write("[%6.1fs] %s\n" % (time.time() - self.t0, msg))
            sys.__stderr__.flush()

    def _tlc(self, module, cfg, workers, env, timeout, extra, label, to_file=None):
        self.dbg("TLC %s %s (%s)" % (module, os.path.basename(cfg), label))
        metadir = tempfile.mkdtemp(prefix="meta-", dir=self.tmp)
        gc = ["-XX:+UseSerialGC", "-Xmx3g"] if workers == 1 else ["-XX:+UseParallelGC", "-Xmx8g"]
        cmd = ["java"] + gc + ["-Xss64m", "-cp", TLA_JAR, "tlc2.TLC",
               "-workers", str(workers), "-metadir", metadir, "-noGenerateSpecTE",
               "-config", cfg] + list(extra) + [module]
        e = dict(os.environ)
        e.pop("JAVA_TOOL_OPTIONS", None)
        if env:
            e.update(env)
        t = time.time()
        try:
            if to_file:
                with open(to_file, "w") as fh:
                    subprocess.run(cmd, cwd=SPEC, env=e, stdout=fh, stderr=subprocess.STDOUT, timeout=timeout)
                # keep only TLC's own lines in memory; the printed JSON stays on disk
                keep = []
                with open(to_file) as fh:
                    for line in fh:
                        if not line.startswith('"'):
                            keep.append(line)
                stdout = "".join(keep)
            else:
                p = subprocess.run(cmd, cwd=SPEC, env=e, stdout=subprocess.PIPE, stderr=subprocess.STDOUT,
                                   timeout=timeout, text=True)
                stdout = p.stdout
        except subprocess.TimeoutExpired:
            raise Machinery("TLC timeout (%ss) on %s/%s" % (timeout, module, cfg))
        finally:
            shutil.rmtree(metadir, ignore_errors=True)
        out = TLCOut(stdout, time.time() - t)
        self.tlc_runs.append({"label": label or cfg, "module": module, "cfg": cfg, "generated": out.generated,
                              "distinct": out.distinct, "depth": out.depth, "wall_s": round(out.wall, 2)})
        return out

    def _fail_tlc(self, out, what):
        tail = "\n".join(out.stdout.splitlines()[-40:])
        raise Machinery("%s\n---- TLC output (tail) ----\n%s" % (what, tail))

    def tlc_mc(self, module, cfg, workers=16, timeout=1500, extra=(), env=None, label=None, expect_violation=None):
        """Exhaustive model checking of the specification's own properties.

        A property violated *in the model* means the specification (not tracklib) is
        wrong: machinery failure, unless expect_violation names the invariant (used for
        the sensitivity self-tests with deliberately broken "Legacy" operators)."""
        out = self._tlc(module, cfg, workers, env, timeout, extra, label)
        if expect_violation:
            if out.violated != expect_violation:
                self._fail_tlc(out, "%s/%s: expected TLC to refute %s" % (module, cfg, expect_violation))
            return out
        if not out.ok or out.violated:
            self._fail_tlc(out, "%s/%s: model checking did not succeed" % (module, cfg))
        self.states += out.distinct
        self.transitions += out.generated
        return out

    def tlc_emit(self, module, cfg, workers=16, timeout=1500, extra=(), env=None, label=None):
        out = self.tlc_mc(module, cfg, workers, timeout, extra, env, label)
        return out.printed_json(), out

    def tlc_emit_file(self, module, cfg, workers=16, timeout=1500, extra=(), env=None, label=None):
        """Like tlc_emit for large outputs: the printed JSON lines stay in a file (returned)."""
        path = os.path.join(self.tmp, "emit-%s-%d.out" % (module, len(self.tlc_runs)))
        out = self._tlc(module, cfg, workers, env, timeout, extra, label, to_file=path)
        if not out.ok or out.violated:
            self._fail_tlc(out, "%s/%s: model checking did not succeed" % (module, cfg))
        self.states += out.distinct
        self.transitions += out.generated
        return path, out

    def write_cfg(self, name, text):
        path = os.path.join(self.tmp, name)
        with open(path, "w") as f:
            f.write(text)
        return path

    def pmap_emitted(self, path, func, chunk=2000, procs=16, growth=False):
        """Replay every JSON line of an emit file through func(list_of_cases) in a process pool.
        func returns (n_cases, violations[(sig, what, detail)], nontrivial_keys, samples)."""
        import multiprocessing as mp
        def chunks():
            buf = []
            with open(path) as fh:
                for line in fh:
                    if line.startswith('"'):
                        buf.append(line)
                        if len(buf) >= chunk:
                            yield buf; buf = []
            if buf:
                yield buf
        total = 0
        self.dbg("replay of %s" % os.path.basename(path))
        with mp.get_context("fork").Pool(procs, initializer=_pool_init, initargs=(func,)) as pool:
            for n, viol, nontriv, samples in pool.imap_unordered(_pool_call, chunks()):
                if n == "ERR":
                    raise Machinery("replay worker failed:\n" + viol)
                total += n
                for v in viol:
                    if growth or str(v[0]).startswith("growth:"):
                        self.growth(*v)
                    else:
                        self.violation(*v)
                self.nontrivial.update(nontriv)
                for s_ in samples:
                    self.sample(s_)
        self.bound += total
        self.evaluations += total
        return total

    def tlc_trace(self, module, cases, cfg=None, chunks=16, timeout=1500, label=None, env=None):
        """Judge recorded implementation events with the acceptance predicates of `module`.

        cases: list of JSON-able dicts, each with a unique integer "id". Returns
        {id: failing clause} for the rejected ones. Every case must be consumed."""
        cfg = cfg or module + ".cfg"
        if not cases:
            return {}
        chunks = max(1, min(chunks, (len(cases) + 199) // 200))
        size = (len(cases) + chunks - 1) // chunks
        parts = [cases[i:i + size] for i in range(0, len(cases), size)]

        def one(k_part):
            k, part = k_part
            path = os.path.join(self.tmp, "trace-%s-%d-%d.ndjson" % (module, len(self.tlc_runs), k))
            with open(path, "w") as f:
                for c in part:
                    f.write(json.dumps(c, separators=(",", ":")) + "\n")
            e = {"TRACE_FILE": path}
            if env:
                e.update(env)
            out = self._tlc(module, cfg, 1, e, timeout, (), (label or module) + "#%d" % k)
            os.unlink(path)
            return out, part

        rejected = {}
        with ThreadPoolExecutor(max_workers=min(16, len(parts))) as ex:
            results = list(ex.map(one, list(enumerate(parts))))
        for out, part in results:
            if not out.ok or out.violated:
                self._fail_tlc(out, "%s: trace validation run failed" % module)
            done = out.printed_tuples("DONE")
            if len(done) != 1 or int(tla_value_split(done[0])[0]) != len(part):
                self._fail_tlc(out, "%s: trace not fully consumed (%r of %d)" % (module, done, len(part)))
            self.states += out.distinct
            self.transitions += out.generated
            for r in out.printed_tuples("REJECT"):
                a = tla_value_split(r)
                rejected[int(a[0])] = a[1].strip('"') if len(a) > 1 else "?"
            nbad = int(tla_value_split(done[0])[1])
            if nbad != len([1 for c in part if c["id"] in rejected]):
                self._fail_tlc(out, "%s: REJECT lines (%d) do not match the spec's counter" % (module, nbad))
        self.bound += len(cases)
        return rejected

    # ---------------------------------------------------------------- bookkeeping
    def sample(self, s, limit=6):
        if len(self.samples) < limit:
            self.samples.append(s)

    def count(self, n=1):
        self.evaluations += n

    def nontriv(self, key):
        self.nontrivial.add(key)

    def violation(self, signature, what, detail=None):
        """signature: short stable class of the failing input / call site."""
        for k in self.known:
            if k["status"] == "known" and k["signature"] == signature:
                self.known_hits.setdefault(signature, [k, 0])[1] += 1
                return
        self.violations.append((signature, what, detail))

    def growth(self, signature, what, detail=None):
        """A divergence between the code and a part of the specification that goes beyond the property under check
        (priority queue internals, adjacency-table order, Track.query, ...).  It does not make the property false, so it
        is printed as GROWTH-DIVERGENCE, kept in the evidence and in a replay file, and does not change the exit status."""
        self.growth_div.append((signature, what, detail))

    def finish(self):
        wall = time.time() - self.t0
        os.makedirs(EVID, exist_ok=True)
        os.makedirs(OUT, exist_ok=True)
        for sig, (k, n) in sorted(self.known_hits.items()):
            print("KNOWN-FINDING: property=%s %s [%s] (%d occurrence(s) this run)" % (self.pid, k["what"], sig, n))
        replay = None
        if self.violations:
            replay = os.path.join(OUT, "replay-%s-%s.json" % (self.pid, self.tier))
            bysig = {}
            for sig, what, detail in self.violations:
                bysig.setdefault(sig, []).append({"what": what, "detail": detail})
            with open(replay, "w") as f:
                json.dump({"property": self.pid, "tier": self.tier, "seed": self.seed,
                           "violations": {s: v[:20] for s, v in bysig.items()},
                           "counts": {s: len(v) for s, v in bysig.items()}}, f, indent=1, default=str)
            for sig, v in bysig.items():
                print("  violation class [%s] x%d: %s" % (sig, len(v), v[0]["what"]))
        if self.growth_div:
            gpath = os.path.join(OUT, "growth-%s-%s.json" % (self.pid, self.tier))
            byg = {}
            for sig, what, detail in self.growth_div:
                byg.setdefault(sig, []).append({"what": what, "detail": detail})
            with open(gpath, "w") as f:
                json.dump({"property": self.pid, "note": "divergences from specification modules that go beyond the listed property",
                           "divergences": {s_: v[:10] for s_, v in byg.items()}, "counts": {s_: len(v) for s_, v in byg.items()}},
                          f, indent=1, default=str)
            for sig, v in byg.items():
                print("GROWTH-DIVERGENCE property=%s [%s] x%d (beyond the listed property; not a violation): %s" % (self.pid, sig, len(v), v[0]["what"][:300]))
            self.extra["growth_divergences"] = {s_: len(v) for s_, v in byg.items()}
        cov = {
            "states": self.states, "transitions": self.transitions,
            "traces_validated_against_impl": self.bound,
            "evaluations": self.evaluations or self.bound,
            "distinct_nontrivial": len(self.nontrivial),
            "rule": self.rule, "samples": self.samples or ["(none)"],
            "tlc_runs": self.tlc_runs[:40], "tlc_invocations": len(self.tlc_runs),
            "known_findings_hit": {s: n for s, (k, n) in self.known_hits.items()},
        }
        if self.exhaustive is not None:
            cov["exhaustive"] = self.exhaustive
        cov.update(self.extra)
        ev = {"property_id": self.pid, "tier": self.tier, "seed": self.seed, "level": "model_checking",
              "coverage": cov, "assumptions": self.assumptions, "wall_s": round(wall, 2),
              "violations": len(self.violations), "notes": self.notes}
        with open(os.path.join(EVID, "%s.json" % self.pid), "w") as f:
            json.dump(ev, f, indent=1, default=str)
        shutil.rmtree(self.tmp, ignore_errors=True)
        if self.violations:
            print("VIOLATION property=%s replay=%s" % (self.pid, replay))
            return 1
        print("OK property=%s tier=%s states=%d bound_to_impl=%d wall=%.1fs" %
              (self.pid, self.tier, self.states, self.bound, wall))
        return 0
