#!/bin/bash
# Property-PRESERVING changes (different tie-breaking, an equally valid answer, more generous registration, finer
# formatting ...): each is applied to a scratch worktree of /repo, the quick check of the property is run against it
# (PYTHONPATH, evidence redirected) and must still exit 0.  Usage: harness/benign_suite.sh
set -u
run() {  # prop file sed-expression label
  wt=$(mktemp -d -u /tmp/benign-XXXX); ev=$(mktemp -d)
  git -C /repo worktree add -q --detach $wt HEAD
  (cd $wt && sed -i "$3" $2)
  changed=$(git -C $wt diff --stat | tail -1)
  out=$(cd /verif && PYTHONPATH=$wt VERIF_EVIDENCE_DIR=$ev VERIF_OUT_DIR=$ev /venv/bin/python harness/vcheck.py --property $1 --tier quick 2>&1); rc=$?
  echo "$1 rc=$rc [$4] ($changed) :: $(echo "$out" | grep -E '^OK|^VIOLATION|MACHINERY' | tail -1 | cut -c1-120)"
  git -C /repo worktree remove --force $wt; rm -rf $ev
  [ $rc -eq 0 ] || FAIL=1
}
FAIL=0
run C06 tracklib/core/network.py 's/if (fils.poids == -1) or (pere.poids + e.weight < fils.poids):/if (fils.poids == -1) or (pere.poids + e.weight <= fils.poids):/' "relaxation on ties (<=)"
run C07 tracklib/core/network.py 's/if (fils.poids == -1) or (pere.poids + e.weight < fils.poids):/if (fils.poids == -1) or (pere.poids + e.weight <= fils.poids):/' "another shortest path on ties"
run C08 tracklib/core/spatial_index.py 's/        for i in range(xmin, xmax + 1):/        for i in range(max(0, xmin - 1), min(self.csize - 1, xmax + 1) + 1):/' "one more column of cells examined"
run C09 tracklib/algo/dynamics.py 's/                    if val < best_val:/                    if val <= best_val:/' "last best predecessor on ties"
run C11 tracklib/algo/segmentation.py 's/        if begin != 0:$/        if begin != 0 and begin < track.size():/' "empty tail piece dropped"
run C12 tracklib/algo/segmentation.py 's/                if val < D\[i, j\] and mode == MODE_SEGMENTATION_MINIMIZE:/                if val <= D[i, j] and mode == MODE_SEGMENTATION_MINIMIZE:/' "another optimal partition on ties"
run C13 tracklib/io/track_writer.py 's/            float_fmt = "{:10.3f}"/            float_fmt = "{:12.5f}"/' "more decimals written"
run C16 tracklib/algo/simplification.py 's/    if dmax < eps:/    if dmax <= eps:/' "tolerance test non-strict"
run C18 tracklib/algo/comparison.py 's/            if ul <= min(u, l):/            if ul < min(u, l):/; s/            elif u <= l:/            elif l <= u and l <= ul:\n                M[i,j] = i + (j-1)*1j\n            elif u <= l:/' "left predecessor preferred on ties"
run C19 tracklib/core/raster.py 's/        if idy.is_integer() and int(idy) > -1:/        if idy.is_integer() and int(idy) > -1 and int(idy) >= self.nrow - 1:/' "border points to the lower row"
run C20 tracklib/util/geometry.py 's/        if dist < distmin:/        if dist <= distmin:/' "last nearest segment on ties"
run C06 tracklib/core/utils.py 's/        if len(self._heap) < 2 \* len(self):/        if len(self._heap) < 3 * len(self):/' "heap rebuild threshold (growth divergence expected, exit 0)"
# property-preserving changes written by independent sub-agents (benign/<name>/patch.diff, demo.py, meta.json)
for d in /verif/benign/*/; do
  [ -s $d/patch.diff ] || continue
  prop=$(python3 -c "import json,sys; print(json.load(open('$d/meta.json'))['property'])")
  out=$(cd /verif && /venv/bin/python harness/seed_eval.py $d/patch.diff --props $prop 2>&1)
  if echo "$out" | grep -q "DETECTED\|MACHINERY\|ERROR"; then echo "$prop rc!=0 [$(basename $d)] :: ALARM"; echo "$out" | tail -5; FAIL=1; else echo "$prop rc=0 [$(basename $d)] :: $(echo "$out" | grep -o 'OK property.*' | head -1 | cut -c1-100)"; fi
done
exit $FAIL
