#!/venv/bin/python
"""Run every seeded change under /verif/seeded through the check of its property (quick tier; thorough when the quick tier
misses) and write the outcome into seeded/<name>/meta.json and seeded/README.md."""
import glob
import json
import os
import re
import subprocess
import sys

VERIF = os.path.dirname(os.path.dirname(os.path.abspath(__file__)))


def run(seed, tier):
    r = subprocess.run(["/venv/bin/python", "harness/seed_eval.py", seed, "--tier", tier], cwd=VERIF, stdout=subprocess.PIPE,
                       stderr=subprocess.STDOUT, text=True)
    classes = re.findall(r"violation class \[([^\]]+)\] x(\d+)", r.stdout)
    verdict = "DETECTED" if " DETECTED " in r.stdout else ("missed" if " missed " in r.stdout else "machinery")
    return verdict, classes


def one(meta_path):
    d = os.path.dirname(meta_path)
    meta = json.load(open(meta_path))
    v, cl = run(d, "quick")
    meta["detected_by"] = {"quick": {"verdict": v, "violation_classes": [c for c, _ in cl[:4]]}}
    if v != "DETECTED":
        v2, cl2 = run(d, "thorough")
        meta["detected_by"]["thorough"] = {"verdict": v2, "violation_classes": [c for c, _ in cl2[:4]]}
    json.dump(meta, open(meta_path, "w"), indent=1)
    print(os.path.basename(d), meta["detected_by"], flush=True)
    return meta


def main():
    """seed_matrix.py [--jobs N] [names or property ids ...]"""
    args = sys.argv[1:]
    jobs = 1
    if args[:1] == ["--jobs"]:
        jobs, args = int(args[1]), args[2:]
    only = args
    paths = sorted(glob.glob(os.path.join(VERIF, "seeded", "*", "meta.json")))
    todo = [p for p in paths if not only or os.path.basename(os.path.dirname(p)) in only or json.load(open(p))["property"] in only]
    from concurrent.futures import ThreadPoolExecutor
    with ThreadPoolExecutor(jobs) as ex:
        list(ex.map(one, todo))
    rows = [json.load(open(p)) for p in paths]
    with open(os.path.join(VERIF, "seeded", "README.md"), "w") as f:
        f.write("# Seeded breaking changes\n\nEach directory holds `patch.diff` (apply with `git -C /repo apply`), `demo.py` (exit 1 with the patch, 0 without) "
                "and `meta.json`.  All but four were written by independent sub-agents that saw only the property text and a scratch worktree (the four are reverts of fix: commits of /repo, kept as regression seeds); each was "
                "confirmed (demo fails with / passes without the patch; the 243 stable tests still pass with it).  `harness/seed_eval.py <dir>` "
                "re-runs the check of the property against the change in a scratch worktree; `harness/seed_matrix.py` regenerates this table.\n\n"
                "| Seed | Property | Needs, to manifest | Check verdict (quick) | Failing clause(s) |\n|---|---|---|---|---|\n")
        for m in rows:
            q = m.get("detected_by", {}).get("quick", {})
            t = m.get("detected_by", {}).get("thorough")
            verdict = q.get("verdict", "?") + ((" / thorough: " + t["verdict"]) if t else "")
            cls = q.get("violation_classes") or (t or {}).get("violation_classes") or []
            f.write("| %s | %s | %s | %s | %s |\n" % (m["name"], m["property"], m["needs_to_manifest"], verdict, "; ".join("`%s`" % c for c in cls[:2])))
    print("seeded/README.md written (%d seeds)" % len(rows))


if __name__ == "__main__":
    main()
