#!/venv/bin/python
"""Regenerates /verif/MANIFEST.json from the table below (kept next to the drivers)."""
import json
import os

HERE = os.path.dirname(os.path.abspath(__file__))
VERIF = os.path.dirname(HERE)
BASE = ("cd /repo && env -u TRACKLIB_VERIF_TRACE /venv/bin/python -m pytest -ra -q -p no:cacheprovider "
        "--timeout=900 --continue-on-collection-errors")

# pid -> (module(s), technique, level text, level note, design ref)
CHECKS = {
    "C14": ("Frames", "TLA+ state machine of coordinate frames (what the stored triples really express vs the SRID / base the Track "
            "records) checked by TLC on every conversion history; every history printed by the model with the frame and base "
            "it assigns per step is replayed on real Tracks and coordinate objects, concrete triples being mapped back to "
            "geographic coordinates by an independent WGS84 reference in the harness (spec->code + reference abstraction)",
            "TLC: denotation preserved, real base recorded, base changed only by projections on all histories of 5 (thorough 6) "
            "track-level conversions (refuted variant as self-test). Every history is replayed for 4 (12) assignments of "
            "positions / bases from a lattice holding the antimeridian, the equator, +-89.9 degrees and heights -1 km..10 km "
            "(France for Lambert-93): geographic and Earth-centred states must denote the original position to 1e-9 degree of arc "
            "and 1 mm, Earth-centred triples must equal the closed-form WGS84 values to 1 mm, the base's own local coordinates "
            "must be (0,0,0), Track.base and SRID must be the model's.",
            "TLC 1.8 cannot compute trigonometry: the concrete->abstract map (WGS84 forward / iterative inverse / ENU rotation) "
            "is a trusted reference in the harness; intermediate local frames are judged to 1e-7 degree / 1 cm only", "5/C14"),
    "C13": ("IOLayout", "TLA+ model of the file layer (relative column order of the writer vs absolute indices of the reader, "
            "class-level time formats with explicit save / install / restore steps, GPX forcing the ISO format, network rows "
            "and header skipping, the no-data rule of the reader) checked by TLC; every configuration, history and network printed by the model with its "
            "expected read-back is replayed through real files (spec->code)",
            "TLC: round-trip law on all 3192 column-permutation x separator x coordinate-system x time-format x near-no-data-datum configurations, "
            "formats restored on all histories of 4 (thorough 5) public calls, network round trip for header 0/1 (four refuted "
            "variants as self-tests). All 3192 configurations (two stress-value tracks each, WKT round trip), all histories "
            "(two CSV files, one GPX file, format changes in between) and all 23 760 small networks (comma, semicolon, tab and blank separators) are written and read "
            "back for real: count, order, coordinates at the written precision, timestamps to the second, global formats after "
            "each call, nodes / edges / end nodes / orientations / geometries.",
            "TLC 1.8; permutation ids and matching time format are preconditions; formatting fidelity on a finite lattice "
            "of stress values; writeToCsv(TrackFormat) is unfinished code and not claimed", "5/C13"),
    "C05": ("Resample", "TLA+ definition of temporal / spatial linear resampling (requested instants, kept instants, unique bracket, "
            "exact rational interpolant) + transcription of the forward-only running_id cursor with its continue / break, checked "
            "by TLC for every small track and chronologically ordered request; rows recorded from Track.resample and // judged "
            "by ResampleTrace.tla (code->spec)",
            "TLC: cursor loop = definition on all tracks of 2..3 (thorough 4) fixes x steps 0.5-4 s x all instant lists of length "
            "<= 3; spatial loop = definition, output times monotone. The real resample is run with numeric steps (int and float, "
            "dividing the duration or not, the duration and beyond), instant lists (before, at a fix, duplicated, at the end, "
            "after), reference tracks and //, on that family and on random tracks to 12 fixes; spatial resampling on "
            "integer-leg walks: one observation per kept instant, exact interpolated x, y, z, stamp = instant (spatial: within "
            "1 ms), samples at k ds on the polyline, times never decrease.",
            "TLC 1.8; multiples of 0.5 s / 0.5 units; chronological requests; npts / factor front ends not covered", "5/C05"),
    "C17": ("Kinematics", "TLA+ definitions of curvilinear abscissa (cumulated integer leg lengths) and squared speed (chord^2 / dt^2, "
            "NaN iff dt = 0) + transcription of ds / Integrator / speed(), checked by TLC on every small walk; columns recorded "
            "from computeAbsCurv and estimate_speed (computed twice) judged by KinematicsTrace.tla (code->spec)",
            "every walk of 1..3 (thorough 4) legs over {zero, unit, 3-4-5, 1000-long} x time gaps {0,1,2} and random tracks to 12 "
            "fixes: abs_curv starts at 0, grows by exactly each leg, ends at the length; speed is the centred / one-sided "
            "difference, NaN exactly on zero duration; repeated computation returns the same columns; positions and timestamps "
            "unchanged.",
            "TLC 1.8; integer-length legs and integer times; speeds compared through squares", "5/C17"),
    "C15": ("KernelFilter", "TLA+ definition of the renormalised weighted mean with NaN skipping and boundary copy + transcription "
            "of Filter.execute's temp/norm loop, checked by TLC together with the constant-signal and hull consequences; outputs "
            "recorded from Operator.FILTER / filter_seq / Track.smooth and windows from Kernel.toSlidingWindow judged by "
            "KernelFilterTrace.tla (code->spec)",
            "TLC: loop = definition, constants fixed, outputs within the hull of their window for every signal of length 3..5 "
            "(thorough 6) over {0,1,3,NaN} x every odd weight list over {1,2,5} up to length 5 x boundary flag. The real filter is "
            "run on those signals and lists, on random constant / monotone / NaN-holed signals through features and x, y, z, "
            "with integer kernels and with eight kernel classes (widths 1-5, both boundary flags): outputs must equal the "
            "model's fraction exactly (rational windows) or within 0.02 and inside the hull (Gaussian, exponential, cubic, "
            "spheric); every sliding window must be odd (2 floor(support) + 1), symmetric, non-negative and sum to 1.",
            "TLC 1.8; integer signals; calls with a 0/0 index are not judged; transcendental windows only to 1e-4", "5/C15"),
    "C19": ("RasterGrid", "TLA+ model of the raster grid: closed cell footprints, aggregate definitions on non-NaN values, "
            "transcriptions of Raster.getCell and of the cell operators checked by TLC (pinned operators refuted); summarize() "
            "calls (assignment recovered through unique tags, six aggregate grids) and getCell calls recorded from the real "
            "code judged by RasterGridTrace.tla (code->spec)",
            "TLC: getCell's cell lies in range and its closed footprint contains the point for every lattice point of every grid up "
            "to 12 x 8 fine units and 4 resolutions; operators = definition on all lists of length <= 3 with NaN. Real getCell on "
            "every quarter-unit point of boxes up to 4 x 3 (6 resolutions, margins 0 and 1/4); real summarize() on random "
            "collections: every observation in exactly one in-range cell whose footprint contains it, counts add up, every cell "
            "of count / sum / min / max / mean / median equals the aggregate of the non-NaN values assigned to it, empty cells "
            "hold 0 / no-data.",
            "TLC 1.8; 1/8-unit lattice so that floats are exact; border points may fall in either adjacent cell", "5/C19"),
    "C16": ("Simplify", "TLA+ acceptance predicate (subsequence, end points, exact distance-to-polyline bound) + transcriptions of "
            "the Douglas-Peucker recursion and the Visvalingam elimination loop checked by TLC on every lattice track (pinned "
            "variants refuted); outputs recorded from simplify() judged by SimplifyTrace.tla (code->spec)",
            "every track of 2..4 (thorough 5) fixes of a 3x3 lattice (collinear runs, consecutive duplicates, revisits, closed "
            "loops) x 5 tolerances and random tracks to 12 fixes x 10 tolerances are simplified for real in both modes: the "
            "kept fixes must be a subsequence in order holding the first and last fix, DP must keep every input fix within "
            "the tolerance of the simplified line (exact rational distances), and no call may raise.",
            "TLC 1.8; integer coordinates, rational tolerances; fixes identified by hidden z / timestamp tags", "5/C16"),
    "C18": ("DTW", "TLA+ model: explicit enumeration of all monotone couplings (definition), Bellman recursion and a transcription "
            "of the T/M tables with back-pointers, checked by TLC for all small track pairs and three norms (pinned back-pointer "
            "encoding refuted); scores and matchings recorded from match(DTW|FDTW|FRECHET) / compare(FRECHET) judged by "
            "DTWTrace.tla (code->spec)",
            "TLC: Bellman = minimum over all couplings, symmetry, transcription accepted on all pairs of 1-D tracks of sizes 1..4 "
            "over {0,1,2}, p in {1,2,inf}; the real functions are run on that family (both argument orders), on 2-D / 3-D lattice "
            "configurations and on random pairs to 12 x 12: recorded links must form a monotone coupling linking every "
            "observation, nb_links = number of links, cost of the links = score = optimum; FDTW and compare(FRECHET) scores = "
            "optimum.",
            "TLC 1.8; integer lattices, p = 1 / inf on configurations with integer distances, p = 2 via squared distances", "5/C18"),
    "C11": ("Split", "TLA+ definition of the pieces of a marker vector and of the threshold marker + transcriptions of split()'s "
            "begin/count loop and segmentation()'s comparison loop, checked by TLC on all 2^n markers and all value/threshold "
            "rows; pieces and marker columns recorded from the real functions judged by SplitTrace.tla (code->spec)",
            "all 2^n marker vectors for n = 1..12 (thorough 14) are split for real and the pieces (identified by observation) must "
            "concatenate to the track, each but the last ending at a mark with no interior mark, none when nothing is marked; "
            "segmentation() is run on tracks enumerating every row over {0,1,2,NaN}^k for every threshold vector {0,1,2}^k, "
            "k <= 3, both modes, plus random rational-valued ones, and every marker value is judged.",
            "TLC 1.8; limit = 0; all-NaN rows in OR mode left open", "5/C11"),
    "C12": ("OptPartition", "TLA+ model: brute-force optimum over all strictly increasing lists (definition) + transcription of the "
            "interval DP and backtracking, checked by TLC for every small matrix in both directions (pinned mode tests refuted); "
            "lists recorded from optimalPartition / optimalSegmentation / optimalSimplification judged by "
            "OptPartitionTrace.tla (code->spec)",
            "TLC: DP = brute force for every {0,1,2}-valued symmetric matrix with n <= 5 (thorough also {0,1}, n = 6, 7), both "
            "directions; the real functions are run on all those matrices and on random dyadic real-valued ones to n = 12 and "
            "every returned list must be strictly increasing from the first to the last candidate with cost equal to the "
            "optimum over all 2^(n-2) lists.",
            "TLC 1.8; (n+1)x(n+1) matrix addresses candidates 0..n-1; dyadic costs k/1024", "5/C12"),
    "C10": ("MapMatch", "TLA+ composition MapMatch.tla (Projection + curvilinear abscissa on integer-leg geometries + radius filter): "
            "TLC checks that every candidate state of the transcribed construction is accepted; one record per real "
            "mapOnNetwork call (states held by hmm_inference, observations before/after) is judged by MapMatchTrace.tla "
            "(code->spec trace validation)",
            "all edge subsets of the 2x2 / 2x3 lattice grids and random connected networks of 1-6 multi-vertex edges "
            "(horizontal, vertical, 3-4-5 oblique legs) x index resolutions x margins x radii 0.5-20 x noise x tracks on / near "
            "/ far / outside: every assigned state must name an existing edge, lie on its geometry within the radius, with end "
            "distances adding up to the edge length and the source distance equal to the abscissa; the track's observations "
            "(identity, order, position, timestamp) must be unchanged.",
            "TLC 1.8; integer-leg geometries so that abscissas are rational; ZeroDivisionError inherited from the vertical "
            "projection branch is a recorded known finding", "5/C10"),
    "C09": ("Viterbi", "TLA+ model of HMM decoding: brute-force optimum over the product of candidate lists (definition), Bellman "
            "recursion and a transcription of the TAB_VAL/TAB_MRK forward-backward algorithm, checked by TLC on every small "
            "model; decodings recorded from HMM.estimate (likelihood and log mode) are judged by ViterbiTrace.tla (code->spec)",
            "TLC checks Bellman = brute force and acceptance of the transcribed algorithm for all models with T <= 3, 1..2 states "
            "per epoch over likelihoods {0, 1/2, 1}; the real HMM is run in both modes on that family (largest size class "
            "strided) and on random models to T = 8, S = 5; each recorded decoding must use candidates of its epoch, attain "
            "the brute-force maximum likelihood and record that optimum as the last cost.",
            "TLC 1.8; likelihoods 0 or 2^-c so that costs are exact integers (unit ln 2, one zero = -ln 1e-300); sequences "
            "of likelihood 0 are all accepted when no sequence has positive likelihood", "5/C09"),
    "C20": ("Projection", "TLA+ exact nearest-point definition (Geo2D.tla fractions) + transcription of proj_segment / proj_polyligne "
            "case analysis checked by TLC (pinned vertical branch refuted = known finding); results recorded from proj_segment, "
            "proj_polyligne and mapOnTrack are judged by ProjectionTrace.tla (code->spec trace validation)",
            "TLC shows on every lattice segment / 3-vertex polyline x query that all non-vertical branches return a point of the "
            "claimed segment at the exact minimum distance; every non-degenerate segment of a 4x4 (thorough 5x5) lattice x 36 "
            "queries, every 3-vertex (4-vertex) polyline of a 3x3 lattice x 25 queries and random 2-6 vertex polylines with "
            "zero-length / horizontal / vertical / oblique segments are projected for real and each result is judged by TLC; "
            "a third of the calls use coordinates scaled by 2^-10 (exact) and a third coordinates in tenths (not exact in binary).",
            "TLC 1.8; integer coordinates -5..17; floats abstracted to the lattice of exact answers (denominator |AB|^2); "
            "vertical segments are a recorded known finding (pinned by test_geometry.testProjSegment)", "5/C20"),
    "C08": ("GridIndex", "TLA+ exact half-open crossing predicate + transcription of the cell enumeration and unit conversion, "
            "checked by TLC; registered grids and point/segment/track/neighbourhood queries recorded from SpatialIndex are "
            "judged by GridIndexTrace.tla (code->spec, extras allowed)",
            "TLC proves on every lattice segment of several grid shapes that the enumeration covers the exact crossing set and "
            "that the converted radius covers the disc; every single-segment feature of two small grids (all border/corner end "
            "points) and random multi-feature indices on 9 shapes (non-square, margin 0/0.25, default resolution) are built for "
            "real and every recorded call is judged by the three no-omission predicates.",
            "TLC 1.8; integer coordinates and power-of-two cell sizes so that the implementation's floats are exact", "5/C08"),
    "C06": ("Routing", "TLA+ model: Bellman-Ford definition + the implementation's Dijkstra/lazy-heap as a state machine (all pop "
            "orders) checked by TLC; distance tables of every enumerated multigraph replayed on Network (spec->code); random "
            "graphs judged by RoutingTrace.tla (code->spec)",
            "TLC shows algorithm = definition on all multigraphs with 3 nodes / <= 3 edges (weights 0-2, three orientations, "
            "loops, parallel edges) for every source and pop order; the same 91 881 graphs are built through Network.addEdge and "
            "pair / list / all-pairs (5 cut-offs) / prepared distances compared with the model's table, key sets included; "
            "random graphs to 12 nodes / 40 edges with cut-offs are validated by TLC.",
            "TLC 1.8; integer weights; A* mode not covered", "5/C06"),
    "C07": ("Routing", "acceptance predicate AcceptPath (Routing.tla) evaluated by TLC on every path recorded from "
            "Network.shortest_path (code->spec trace validation); graph family enumerated by TLC",
            "every ordered pair of every multigraph with 3 nodes / <= 3 edges (551 286 recorded calls) and of random graphs to 12 "
            "nodes / 40 edges: node list, per-hop edge identified through the returned geometry (orientation, junctions not "
            "repeated), summed weight = Bellman-Ford distance, None iff unreachable.",
            "TLC 1.8; each edge carries a 4-vertex geometry whose interior vertices identify it", "5/C06, C07"),
    "C04": ("TrackSeq", "TLA+ definitions of the sequence operators + transcription of the insertion binary search, enumerated by "
            "TLC; designated positions replayed on real tracks (spec->code), sort/insert judged by TrackSeqTrace.tla (code->spec)",
            "TLC enumerates every timestamp sequence of length 0..5 (thorough 6) over a 5-value domain and, for each, every "
            "argument of extract / extractSpanTime / % / > / < / removeObsList / +; the positions designated by the "
            "specification are compared with the observations the real operators return (identity, order, feature table, source "
            "untouched). sort() and chronological insertion are recorded on all those tracks, on all sorted tracks to size 12 "
            "(18) and on random ones to size 40 and judged by acceptance predicates (any order among equal timestamps). Growth (reported, not "
            "fatal): Selection.tla (constraints / selectors state machine) and TrackColl.tla (collection of track objects with aliasing), "
            "every state replayed on the real classes.",
            "TLC 1.8; identity by unique coordinate/feature tags", "5/C04"),
    "C01": ("FeatureTable", "TLA+ state machine of the feature table (implementation-shaped: name->index order + per-observation "
            "lists) checked by TLC; every transition replayed with a real history (spec->code) and random histories "
            "over the whole operator catalogue validated by FeatureTableTrace.tla (code->spec)",
            "TLC checks Aligned/Bijective/NoTemps and the Frame action property on all histories to depth 3 (N=2,3); every "
            "transition of the graph is replayed on a real Track together with a history reaching its source; 3000+ recorded "
            "calls of random 40-step histories (1..12 observations, all Operator.* objects, random expressions) are judged "
            "step by step by the trace specification.",
            "TLC 1.8; values are opaque tokens in traces (arithmetic is C02); listing order not compared; arithmetic-undefined "
            "calls end a random history", "5/C01"),
    "C02": ("ExprEval", "TLA+ specification of the expression language (trees, Denote on exact rationals, Render, transcription "
            "of the rewriting passes and of makeRPN) enumerated by TLC; strings and expected vectors printed by the model are "
            "replayed on Track.operate / operator objects (spec->code)",
            "TLC enumerates all 431 465 trees with <= 2 nested operators (+ unary minus, 15 functions) and checks that the "
            "implementation's splitter reads every rendering back as the same tree; the model's value of every tree on 5 "
            "environments (sizes 1-4, zeros, negatives, ties, NaN) is compared with operate()/bracket/assignment/coordinate "
            "assignment/reflexive assignment (a op= rhs)/operator objects; random shapes to depth 6 go through the same model. Growth "
            "(reported, not fatal): Query.tla (Track.query) and Operators.tla (the operator objects outside the expression grammar).",
            "TLC 1.8; exact rationals with Undef at arithmetic-undefined points; transcendental functions not claimed; quick "
            "tier replays a seeded 1/40 sample of the enumerated trees (thorough: all)", "5/C02"),
    "C03": ("Calendar", "TLA+ clock model (day chain 1970-2099 x time-of-day lattice) checked exhaustively by TLC; every "
            "state/transition replayed on ObsTime (spec->code conformance)",
            "TLC enumerates every calendar day of 1970-2099 and checks the calendar invariants on the model; every "
            "enumerated state and every one-unit transition is replayed on the real ObsTime (toAbsTime, readUnixTime, "
            "add*, six comparison operators) and compared with the specification's values. Exhaustive over days, "
            "lattice over intra-day instants.",
            "TLC 1.8; abstraction ObsTime fields -> (dayNo, ms of day); three epoch anchor constants ASSUMEd in the spec; "
            "float seconds compared with 2 microsecond tolerance", "5/C03"),
}

# growth modules: model-checked and bound inside the check of the property they support
EXTRA_ENGINES = [
    ("PrioDict", ["C06", "C10"], "TLA+ state machine of priority_dict (dictionary + lazy heap); stateful trace validation of direct histories and of "
                                 "histories recorded by runtime wrappers inside the real Dijkstra / Network.prepare"),
    ("NetTopo", ["C06"], "TLA+ model of Network.addNode / addEdge and the adjacency tables; stateful trace validation of random histories"),
    ("TimeFormat", ["C13"], "TLA+ model of the ObsTime format-code grammar (print / fixed-offset read); 440 formats x 6 instants replayed"),
    ("Compare", ["C18"], "TLA+ acceptance of nearest-neighbour matching and pointwise comparison; recorded results judged by CompareTrace.tla"),
    ("Query", ["C02"], "TLA+ semantics of Track.query (WHERE as OR of ANDs, field lists, aggregators); every enumerated query replayed"),
    ("Selection", ["C04"], "TLA+ model of constraints, selectors and global selectors (mutable combination state machine), cut-and-select, toll gates; "
                           "every mutation history replayed on real objects"),
    ("TrackColl", ["C04"], "TLA+ model of TrackCollection as a mutable sequence of track objects (aliasing, removal by identity, filter, copies); "
                           "every operation history replayed"),
    ("Operators", ["C02"], "TLA+ definitions of the operator objects the expression grammar does not reach (exact rationals with NaN); every call "
                           "over short vectors replayed"),
    ("StDbscan", ["C11"], "TLA+ state machine of segmentation.stdbscan as coded (scan / expand / close); final columns replayed for every small input"),
    ("TrackShare", ["C04"], "TLA+ heap model of which tracks share which list / Obs objects (constructor keeps the list, slices share observations, copy is deep); "
                            "every call history replayed"),
    ("Dedup", ["C04"], "TLA+ definition of Track.cleanDuplicates (runs of equal neighbours collapse to the first); every sequence x code replayed"),
    ("LikeMatch", ["C02"], "TLA+ model of compLike (LIKE of Track.query / getTracks) as coded; greedy = existential placement; every pair replayed"),
    ("EvenSplit", ["C11"], "TLA+ model of track / n as coded (equal consecutive blocks, remainder dropped: CoversAll refuted); every (size, n) replayed"),
    ("AStar", ["C06"], "TLA+ state machine of the A* routing mode as coded (heuristic added into the propagated weights; ReportsALength refuted); every "
                       "(graph, source, target) outcome set replayed"),
    ("CellOps", ["C19"], "TLA+ definitions of co_count_distinct and co_dominant as coded (first among ties); every short list replayed"),
    ("BoundingBox", ["C19"], "TLA+ model of the mutable Bbox over shared corner objects; every operation history replayed"),
    ("TrackEdit", ["C01"], "TLA+ model of the feature table under edits of the observation list, partial effects of failing calls included; every "
                           "history replayed"),
    ("Elevation", ["C17"], "TLA+ definitions of climb / descent / net height difference over index ranges; every profile x range replayed"),
    ("Geo2D", ["C10", "C16", "C17", "C20"], "shared exact plane geometry (fractions, point-segment distance, integer-leg abscissas)"),
    ("Rat", ["C02"], "shared exact rationals with NaN / Undef"),
    ("Batch", ["C04", "C05", "C07", "C08", "C09", "C10", "C11", "C12", "C15", "C16", "C17", "C18", "C19", "C20"],
     "batch trace-validation step shared by the *Trace modules (REJECT id clause / DONE n nbad)"),
]
ALL = ["C%02d" % i for i in range(1, 21)]


def main():
    checks = []
    for pid in ALL:
        if pid not in CHECKS or not os.path.exists(os.path.join(HERE, "drivers", pid.lower() + ".py")):
            continue
        mod, tech, text, note, ref = CHECKS[pid]
        checks.append({
            "property_id": pid,
            "quick_cmd": "/venv/bin/python harness/vcheck.py --property %s --tier quick" % pid,
            "thorough_cmd": "/venv/bin/python harness/vcheck.py --property %s --tier thorough" % pid,
            "evidence_file": "/verif/evidence/%s.json" % pid,
            "engine": "tlc-" + mod,
            "level_claimed": {"category": "model_checking", "text": text, "design_ref": ref},
            "level_note": note,
            "technique": tech,
        })
    claimed = {c["property_id"] for c in checks}
    na = [{"property_id": p, "reason": "check not built yet in this session (planned: see DESIGN.md section 5); "
           "nothing is claimed for it"} for p in ALL if p not in claimed]
    man = {
        "version": 1,
        "setup_cmd": "/venv/bin/python harness/setup_check.py",
        "hooks": {
            "guard": "TRACKLIB_VERIF_TRACE",
            "enable": "no in-source hooks: the harness installs runtime wrappers in its own process when "
                      "TRACKLIB_VERIF_TRACE=1 (set by harness/vcheck.py); /repo is imported from its working tree",
            "baseline_off_cmd": BASE,
            "source_commits": [],
            "add_only": True,
        },
        "engines": [{"name": "tlc-" + CHECKS[p][0], "path": "/verif/spec/%s.tla" % CHECKS[p][0],
                     "serves_properties": [p],
                     "kind_free_text": "TLA+ specification checked by TLC 1.8 and bound to the code by replay / trace validation"}
                    for p in ALL if p in claimed] +
                   [{"name": "tlc-" + m, "path": "/verif/spec/%s.tla" % m, "serves_properties": ps, "kind_free_text": txt}
                    for m, ps, txt in EXTRA_ENGINES],
        "checks": checks,
        "notes": "All checks: /venv/bin/python harness/vcheck.py --property <id> --tier quick|thorough; "
                 "exit 0 held / 1 VIOLATION / 2 machinery failure. See DESIGN.md.",
        "not_applicable": na,
    }
    with open(os.path.join(VERIF, "MANIFEST.json"), "w") as f:
        json.dump(man, f, indent=1)
    import jsonschema
    jsonschema.validate(man, json.load(open("/root/.vp/MANIFEST.schema.json")))
    print("MANIFEST.json: %d checks, %d not yet claimed" % (len(checks), len(na)))


if __name__ == "__main__":
    main()
