#!/venv/bin/python
"""Evaluate the registered checks against a seeded breaking change WITHOUT touching /repo:
   seed_eval.py <seeded dir | patch.diff> [--tier quick|thorough] [--props C01,C02 | all]
A scratch worktree of /repo's HEAD is created under /tmp, the patch applied there, the checks run with PYTHONPATH
pointing at it (tracklib then resolves to the worktree; verified by the check's own import), evidence and replay files
are redirected to a temporary directory, and the worktree is removed afterwards.
(The prescribed alternative - git -C /repo apply <patch>; run; git -C /repo checkout -- . - gives the same verdicts.)"""
import argparse
import json
import os
import shutil
import subprocess
import sys
import tempfile

VERIF = os.path.dirname(os.path.dirname(os.path.abspath(__file__)))


def main():
    ap = argparse.ArgumentParser()
    ap.add_argument("seed")
    ap.add_argument("--tier", default="quick")
    ap.add_argument("--props", default=None)
    a = ap.parse_args()
    patch = a.seed if a.seed.endswith(".diff") else os.path.join(a.seed, "patch.diff")
    props = a.props
    meta = os.path.join(os.path.dirname(patch), "meta.json")
    if props is None and os.path.exists(meta):
        props = json.load(open(meta))["property"]
    if props in (None, "all"):
        props = ",".join("C%02d" % i for i in range(1, 21))
    wt = tempfile.mkdtemp(prefix="seed-eval-", dir="/tmp")
    os.rmdir(wt)
    ev = tempfile.mkdtemp(prefix="seed-evid-", dir="/tmp")
    rc_all = 0
    try:
        subprocess.run(["git", "-C", "/repo", "worktree", "add", "-q", "--detach", wt, "HEAD"], check=True)
        subprocess.run(["git", "-C", wt, "apply", os.path.abspath(patch)], check=True)
        env = dict(os.environ, PYTHONPATH=wt, VERIF_EVIDENCE_DIR=ev, VERIF_OUT_DIR=ev)
        chk = subprocess.run(["/venv/bin/python", "-c", "import tracklib,sys; sys.stdout.write(tracklib.__file__)"], env=env, cwd=VERIF,
                             stdout=subprocess.PIPE, stderr=subprocess.DEVNULL, text=True)
        if not chk.stdout.startswith(wt):
            print("ERROR: tracklib resolves to %s, not to the patched worktree" % chk.stdout); return 2
        for p in props.split(","):
            r = subprocess.run(["/venv/bin/python", "harness/vcheck.py", "--property", p, "--tier", a.tier], env=env, cwd=VERIF,
                               stdout=subprocess.PIPE, stderr=subprocess.STDOUT, text=True)
            lines = [x for x in r.stdout.splitlines() if x.strip()]
            verdict = "DETECTED" if r.returncode == 1 else ("missed" if r.returncode == 0 else "MACHINERY(%d)" % r.returncode)
            print("%s %s %s :: %s" % (os.path.basename(os.path.dirname(os.path.abspath(patch))), p, verdict, (lines[-1] if lines else "")[:160]))
            for l in lines:
                if l.startswith("  violation class"):
                    print("    " + l.strip()[:300])
            if r.returncode == 2:
                print("\n".join(lines[-12:]))
            rc_all = max(rc_all, 0 if r.returncode == 1 else 1)
    finally:
        subprocess.run(["git", "-C", "/repo", "worktree", "remove", "--force", wt])
        shutil.rmtree(ev, ignore_errors=True)
    return rc_all


if __name__ == "__main__":
    sys.exit(main())
