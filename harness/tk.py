"""Small helpers shared by the drivers: building tracklib objects through the public API."""
import math


def _carrier(xs, ys, zs):
    """how the caller wrote the coordinates: a third of the tracks (chosen from the data, reproducibly) hand every coordinate
    that is a whole number over as a Python int (ENUCoords(3, 4, 0)), the others as floats - the values are the same"""
    try:
        return (len(xs) + int(sum(abs(v) for v in list(xs) + list(ys) + list(zs)) * 4)) % 3 == 2
    except Exception:
        return False


def _num(v, as_int):
    f = float(v)
    return int(f) if as_int and f == int(f) and abs(f) < 2 ** 53 else f


def mk_track(xs, ys=None, zs=None, ts=None, day=(2020, 6, 15)):
    """ENU track; ts = seconds after <day> 12:00:00 (may be fractional ms-exact)."""
    from tracklib.core.track import Track
    from tracklib.core.obs import Obs
    from tracklib.core.obs_coords import ENUCoords
    from tracklib.core.obs_time import ObsTime
    n = len(xs)
    ys = ys if ys is not None else [0.0] * n
    zs = zs if zs is not None else [0.0] * n
    ts = ts if ts is not None else list(range(n))
    base = ObsTime(day[0], day[1], day[2], 12, 0, 0).toAbsTime()
    obs = []
    ci = _carrier(xs, ys, zs)
    for i in range(n):
        obs.append(Obs(ENUCoords(_num(xs[i], ci), _num(ys[i], ci), _num(zs[i], ci)), ObsTime.readUnixTime(base + ts[i])))
    return Track(obs)


def mk_track_ms(xs, ys, zs, ts_ms, day=(2020, 6, 15)):
    """ENU track whose timestamps are <day> 12:00:00 + ts_ms[i] milliseconds, built from calendar FIELDS (no float round trip)."""
    from tracklib.core.track import Track
    from tracklib.core.obs import Obs
    from tracklib.core.obs_coords import ENUCoords
    from tracklib.core.obs_time import ObsTime
    obs = []
    ci = _carrier(xs, ys, zs)
    for i in range(len(xs)):
        ms = int(ts_ms[i])
        s, ms = divmod(ms, 1000)
        m, s = divmod(s, 60)
        h, m = divmod(m, 60)
        obs.append(Obs(ENUCoords(_num(xs[i], ci), _num(ys[i], ci), _num(zs[i], ci)), ObsTime(day[0], day[1], day[2], 12 + h, m, s, ms)))
    return Track(obs)


def isnan(v):
    return isinstance(v, float) and math.isnan(v)


def num_eq(a, b, tol=1e-9):
    """implementation number a equals model number b (ints / floats / bools)."""
    try:
        a = float(a); b = float(b)
    except Exception:
        return False
    if math.isnan(a) or math.isnan(b):
        return math.isnan(a) and math.isnan(b)
    return abs(a - b) <= tol * max(1.0, abs(b))


def list_eq(a, b, tol=1e-9):
    try:
        a = list(a)
    except Exception:
        return False
    return len(a) == len(b) and all(num_eq(u, v, tol) for u, v in zip(a, b))
