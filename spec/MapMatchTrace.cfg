SPECIFICATION TSpec
CONSTANTS
  LatMax = 1
  QPad = 0
  Mode = "none"
  R2x4 = {}
CHECK_DEADLOCK FALSE
