SPECIFICATION TSpec
CONSTANTS
  T = 1
  S = 5
  PCostIds = {0}
  QCostIds = {0}
  Mode = "none"
CHECK_DEADLOCK FALSE
