------------------------------- MODULE DTWTrace -------------------------------
(* code -> spec for C18: scores and matchings recorded from match(.., DTW | FDTW | FRECHET) and compare(.., FRECHET).
   e.a / e.b = the points of track1 / track2 (integer tuples of dimension 1, 2 or 3), e.p in {1, 2, 0 = infinity},
   e.links = the recorded pairs <<index in track2, index in track1>> (1-based) in listing order, e.nb = nb_links,
   e.score = the recorded score as an integer (e.lat = FALSE when it is not within tolerance of one). *)
EXTENDS DTW, IOUtils, Json
VARIABLES l, nbad

Pts(s) == [k \in DOMAIN s |-> s[k]]
Clause(e) ==
   IF e.raised THEN "raised"
   ELSE IF e.p # 2 /\ ~IntegerDistances(e.a, e.b) THEN "driver_error_non_integer_distance"
   ELSE IF ~e.lat THEN "score_not_an_exact_accumulated_cost"
   ELSE LET opt == IF e.brute THEN OptBrute(e.a, e.b, e.p) ELSE OptBellman(e.a, e.b, e.p) IN
        IF e.ev = "score" THEN (IF e.score = opt THEN "ok" ELSE "score_differs_from_optimum")
        ELSE AcceptMatching(e.a, e.b, e.p, opt, [k \in DOMAIN e.links |-> <<e.links[k][1], e.links[k][2]>>], e.nb, e.score)

Cases == ndJsonDeserialize(IOEnv.TRACE_FILE)
Bt == INSTANCE Batch WITH Clause <- Clause, Cases <- Cases
TSpec == Bt!TInit /\ a = <<>> /\ b = <<>> /\ p = 1 /\ ph = 2 /\ [][Bt!TNext /\ UNCHANGED vars]_<<l, nbad, vars>>
=============================================================================
