-------------------------------- MODULE Rat --------------------------------
(***************************************************************************)
(* Exact rationals for TLC (32-bit integers, no reals).                    *)
(* A value is <<n, d>> with d > 0 and gcd(n,d) = 1, or one of the tokens   *)
(*   NaN   == <<0, 0>>   (IEEE not-a-number: propagates, compares false)    *)
(*   Undef == <<1, 0>>   (ordinary arithmetic undefined: x/0, 0^-1, ...;    *)
(*                        the implementation may return anything or raise)  *)
(***************************************************************************)
EXTENDS Integers, Sequences

NaN   == <<0, 0>>
Undef == <<1, 0>>
IsNaN(p)   == p = NaN
IsUndef(p) == p = Undef
IsNum(p)   == p[2] > 0
R(n) == <<n, 1>>
Zero == R(0)
One  == R(1)

AbsI(n) == IF n < 0 THEN -n ELSE n
RECURSIVE Gcd(_, _)
Gcd(a, b) == IF b = 0 THEN a ELSE Gcd(b, a % b)
Norm(n, d) == LET g == Gcd(AbsI(n), AbsI(d))
                  s == IF d < 0 THEN -1 ELSE 1
              IN <<s * (n \div g), s * (d \div g)>>       \* d # 0

\* TLC integers are 32-bit: operands beyond this bound make the result Undef (nothing is claimed)
Big(p) == AbsI(p[1]) > 30000 \/ p[2] > 30000
\* strict propagation: Undef dominates, then NaN
Lift2(p, q, v) == IF IsUndef(p) \/ IsUndef(q) \/ Big(p) \/ Big(q) THEN Undef
                  ELSE IF IsNaN(p) \/ IsNaN(q) THEN NaN ELSE v
RAdd(p, q) == Lift2(p, q, Norm(p[1] * q[2] + q[1] * p[2], p[2] * q[2]))
RSub(p, q) == Lift2(p, q, Norm(p[1] * q[2] - q[1] * p[2], p[2] * q[2]))
RMul(p, q) == Lift2(p, q, Norm(p[1] * q[1], p[2] * q[2]))
RDiv(p, q) == IF IsUndef(p) \/ IsUndef(q) \/ Big(p) \/ Big(q) THEN Undef
              ELSE IF IsNum(q) /\ q[1] = 0 THEN Undef
              ELSE Lift2(p, q, Norm(p[1] * q[2], p[2] * q[1]))
RNeg(p) == IF IsNum(p) THEN <<-p[1], p[2]>> ELSE p
RAbs(p) == IF IsNum(p) THEN <<AbsI(p[1]), p[2]>> ELSE p

RLt(p, q) == p[1] * q[2] < q[1] * p[2]      \* both numbers, not Big
RLe(p, q) == p[1] * q[2] <= q[1] * p[2]
REq(p, q) == p = q
\* comparison operators of the expression language: 1 / 0, false on NaN
RBelow(p, q) == IF IsUndef(p) \/ IsUndef(q) \/ Big(p) \/ Big(q) THEN Undef ELSE IF IsNaN(p) \/ IsNaN(q) THEN Zero
                ELSE IF RLt(p, q) THEN One ELSE Zero
RAbove(p, q) == RBelow(q, p)

RECURSIVE IPow(_, _)
IPow(b, k) == IF k = 0 THEN 1 ELSE b * IPow(b, k - 1)
\* integer exponents of small magnitude only; everything else is Undef (irrational, overflow,
\* 0^negative, and Python's NaN**0 = 1**NaN = 1 quirks)
RPow(p, q) == IF ~IsNum(p) \/ ~IsNum(q) THEN Undef
              ELSE IF q[2] # 1 \/ AbsI(q[1]) > 3 \/ AbsI(p[1]) > 1000 \/ p[2] > 1000 THEN Undef
              ELSE IF q[1] >= 0 THEN Norm(IPow(p[1], q[1]), IPow(p[2], q[1]))
              ELSE IF p[1] = 0 THEN Undef
              ELSE Norm(IPow(p[2], -q[1]), IPow(p[1], -q[1]))

RMin2(p, q) == IF RLe(p, q) THEN p ELSE q
RMax2(p, q) == IF RLe(p, q) THEN q ELSE p

\* sequences of values
SeqAny(s, T(_)) == \E i \in DOMAIN s : T(s[i])
RECURSIVE SeqSum(_)
SeqSum(s) == IF s = <<>> THEN Zero ELSE RAdd(Head(s), SeqSum(Tail(s)))
RECURSIVE FilterNum(_)
FilterNum(s) == IF s = <<>> THEN <<>> ELSE IF IsNum(Head(s)) THEN <<Head(s)>> \o FilterNum(Tail(s)) ELSE FilterNum(Tail(s))
RECURSIVE InsertSorted(_, _)
InsertSorted(s, v) == IF s = <<>> THEN <<v>> ELSE IF RLe(v, Head(s)) THEN <<v>> \o s ELSE <<Head(s)>> \o InsertSorted(Tail(s), v)
RECURSIVE SortNum(_)
SortNum(s) == IF s = <<>> THEN <<>> ELSE InsertSorted(SortNum(Tail(s)), Head(s))
\* median of a sequence of numbers (mean of the two middle ones when even); Undef when empty
MedianNum(s) == LET t == SortNum(s)  n == Len(s) IN
                IF n = 0 THEN Undef
                ELSE IF n % 2 = 1 THEN t[(n + 1) \div 2]
                ELSE RDiv(RAdd(t[n \div 2], t[n \div 2 + 1]), R(2))
=============================================================================
