------------------------------ MODULE GridIndex ------------------------------
(***************************************************************************)
(* C08 - the grid spatial index never omits (tracklib SpatialIndex).       *)
(*                                                                         *)
(* Integer geometry in sub-cell units: the extent is [0, CS*CX] x          *)
(* [0, LS*CY], cell (i,j) is the half-open box [i*CX,(i+1)*CX) x           *)
(* [j*CY,(j+1)*CY) - the index's own floor convention - with the outer     *)
(* upper / right border closed (it belongs to the last row / column).      *)
(* Definition : Crosses(A,B,i,j) - the segment has a point in that box     *)
(*              (exact interval arithmetic on the segment parameter).      *)
(* Algorithm  : Enum(A,B) - transcription of __cellsCrossSegment (floor    *)
(*              bounding range clamped to the grid, strict inclusion test,  *)
(*              four straddle tests with <=); TLC checks Enum >= Crosses    *)
(*              for every lattice segment, and that the unit conversion of  *)
(*              a ground distance yields a window that covers the disc.     *)
(* Acceptance : the three no-omission predicates, evaluated by              *)
(*              GridIndexTrace on calls recorded from the real index.       *)
(***************************************************************************)
EXTENDS Integers, Sequences, FiniteSets, TLC

CONSTANTS CS, LS,     \* number of columns / rows
          CX, CY,     \* cell size in sub-cell units
          Step,       \* lattice step for the enumerated points
          Mode        \* "mc" | "none"

VARIABLES A, B, ph
vars == <<A, B, ph>>

W == CS * CX
H == LS * CY
Lattice == {<<x * Step, y * Step>> : x \in 0..(W \div Step), y \in 0..(H \div Step)}

(* ---- exact fractions <<n, d>>, d > 0 --------------------------------------- *)
FLt(p, q) == p[1] * q[2] < q[1] * p[2]
FEq(p, q) == p[1] * q[2] = q[1] * p[2]
FNorm(n, d) == IF d < 0 THEN <<-n, -d>> ELSE <<n, d>>
\* parameter interval { t : a + t(b-a) in [c0, c1) } ([c0, c1] when `last`): record ok, lo, loC, hi, hiC
AxisInt(a, b, c0, c1, last) ==
   LET d == b - a IN
   IF d = 0 THEN [ok |-> (c0 <= a /\ (a < c1 \/ (last /\ a = c1))), lo |-> <<0, 1>>, loC |-> TRUE, hi |-> <<1, 1>>, hiC |-> TRUE]
   ELSE LET t0 == FNorm(c0 - a, d)
            t1 == FNorm(c1 - a, d)
        IN IF d > 0 THEN [ok |-> TRUE, lo |-> t0, loC |-> TRUE, hi |-> t1, hiC |-> last]
           ELSE [ok |-> TRUE, lo |-> t1, loC |-> last, hi |-> t0, hiC |-> TRUE]
\* intersection of two lower bounds / upper bounds (value, closed?)
MaxLo(p, pc, q, qc) == IF FLt(p, q) THEN <<q, qc>> ELSE IF FLt(q, p) THEN <<p, pc>> ELSE <<p, pc /\ qc>>
MinHi(p, pc, q, qc) == IF FLt(p, q) THEN <<p, pc>> ELSE IF FLt(q, p) THEN <<q, qc>> ELSE <<p, pc /\ qc>>
\* does segment P-Q have a point in cell (i,j) of a cs x ls grid with cells cx x cy ?
CrossesG(P, Q, i, j, cx, cy, cs, ls) ==
   LET X == AxisInt(P[1], Q[1], i * cx, (i + 1) * cx, i = cs - 1)
       Y == AxisInt(P[2], Q[2], j * cy, (j + 1) * cy, j = ls - 1)
   IN X.ok /\ Y.ok /\
      LET l1 == MaxLo(<<0, 1>>, TRUE, X.lo, X.loC)
          l2 == MaxLo(l1[1], l1[2], Y.lo, Y.loC)
          h1 == MinHi(<<1, 1>>, TRUE, X.hi, X.hiC)
          h2 == MinHi(h1[1], h1[2], Y.hi, Y.hiC)
      IN FLt(l2[1], h2[1]) \/ (FEq(l2[1], h2[1]) /\ l2[2] /\ h2[2])
Crosses(P, Q, i, j) == CrossesG(P, Q, i, j, CX, CY, CS, LS)
\* cell of a point (outer border closed)
MinI(a, b) == IF a < b THEN a ELSE b
MaxI(a, b) == IF a < b THEN b ELSE a
CellOfG(P, cx, cy, cs, ls) == <<MinI(P[1] \div cx, cs - 1), MinI(P[2] \div cy, ls - 1)>>
CellOf(P) == CellOfG(P, CX, CY, CS, LS)

(* ---- squared distance point - segment (rational, compared with d^2) --------- *)
Dot(u, v) == u[1] * v[1] + u[2] * v[2]
Sub(u, v) == <<u[1] - v[1], u[2] - v[2]>>
\* dist(P, segment QR)^2 <= d2 ?   (all integers)
NearSeg(P, Q, R, d2) ==
   LET qr == Sub(R, Q)  qp == Sub(P, Q)  n2 == Dot(qr, qr)  t == Dot(qp, qr) IN
   IF n2 = 0 \/ t <= 0 THEN Dot(qp, qp) <= d2
   ELSE IF t >= n2 THEN Dot(Sub(P, R), Sub(P, R)) <= d2
   ELSE LET cr == qr[1] * qp[2] - qr[2] * qp[1] IN cr * cr <= d2 * n2

(* ---- transcription of SpatialIndex.__cellsCrossSegment ------------------------ *)
Cross(S, P) == (S[2][1] - S[1][1]) * (P[2] - S[1][2]) - (S[2][2] - S[1][2]) * (P[1] - S[1][1])
\* isSegmentIntersects: two straddle tests with <=
SegInt(S1, S2) == Cross(S1, S2[1]) * Cross(S1, S2[2]) <= 0 /\ Cross(S2, S1[1]) * Cross(S2, S1[2]) <= 0
EnumG(P, Q, cx, cy, cs, ls) ==
   LET fx(p) == p[1] \div cx
       fy(p) == p[2] \div cy
       imin == MinI(MinI(fx(P), fx(Q)), cs - 1)
       imax == MinI(MaxI(fx(P), fx(Q)), cs - 1)
       jmin == MinI(MinI(fy(P), fy(Q)), ls - 1)
       jmax == MinI(MaxI(fy(P), fy(Q)), ls - 1)
       Inside(p, i, j) == i * cx < p[1] /\ p[1] < (i + 1) * cx /\ j * cy < p[2] /\ p[2] < (j + 1) * cy
       Box(i, j) == << <<i * cx, j * cy>>, <<(i + 1) * cx, j * cy>>, <<i * cx, (j + 1) * cy>>, <<(i + 1) * cx, (j + 1) * cy>> >>
   IN {c \in (imin..imax) \X (jmin..jmax) :
         LET b == Box(c[1], c[2]) IN
         \/ Inside(P, c[1], c[2]) /\ Inside(Q, c[1], c[2])
         \/ SegInt(<<b[1], b[2]>>, <<P, Q>>) \/ SegInt(<<b[1], b[3]>>, <<P, Q>>)
         \/ SegInt(<<b[3], b[4]>>, <<P, Q>>) \/ SegInt(<<b[2], b[4]>>, <<P, Q>>)}
Enum(P, Q) == EnumG(P, Q, CX, CY, CS, LS)
\* groundDistanceToUnits: floor(d / min(dX, dY)) + 1
UnitsG(d, cx, cy) == (d \div MinI(cx, cy)) + 1
WindowG(c, u, cs, ls) == (MaxI(c[1] - u, 0)..MinI(c[1] + u, cs - 1)) \X (MaxI(c[2] - u, 0)..MinI(c[2] + u, ls - 1))

Cells == (0..(CS - 1)) \X (0..(LS - 1))

\* the second end point is chosen in Next so that TLC's workers share the segments
Init == Mode = "mc" /\ A \in Lattice /\ B = A /\ ph = 0
Next == ph = 0 /\ ph' = 1 /\ A' = A /\ B' \in Lattice
Spec == Init /\ [][Next]_vars

(* ---- properties of the design, checked for every lattice segment ---------------- *)
\* the enumeration registers / visits every cell the segment really crosses
EnumComplete == ph = 1 => \A c \in Cells : Crosses(A, B, c[1], c[2]) => c \in Enum(A, B)
\* both end points are in cells the segment crosses (so a point query in the cell of a vertex finds the feature)
EndsCovered == ph = 1 => Crosses(A, B, CellOf(A)[1], CellOf(A)[2]) /\ Crosses(A, B, CellOf(B)[1], CellOf(B)[2])
\* a ground distance converted to units gives a window holding a crossed cell of every segment within that distance
WindowComplete == ph = 1 => \A P \in Lattice : \A d \in 0..MaxI(W, H) :
                     NearSeg(P, A, B, d * d) =>
                        \E c \in WindowG(CellOf(P), UnitsG(d, CX, CY), CS, LS) : Crosses(A, B, c[1], c[2])
=============================================================================
