------------------------------ MODULE RasterGrid ------------------------------
(***************************************************************************)
(* C19 - grid summarising conserves observations and aggregates per cell    *)
(* (tracklib.algo.summarising.summarize, tracklib.core.raster.Raster).       *)
(*                                                                         *)
(* All lengths are integers in a fine unit (1/8 ground unit).  A grid g has  *)
(* xmin, ymin, rx, ry, ncol, nrow; rows are counted from the top.            *)
(* Definition : Footprint(g, col, row) - the closed rectangle                *)
(*              [xmin+col*rx, xmin+(col+1)*rx] x                              *)
(*              [ymin+(nrow-1-row)*ry, ymin+(nrow-row)*ry];                    *)
(*              AggDef(op, values) - the aggregate of the non-NaN values,      *)
(*              0 for count / sum and no-data otherwise when there is none.    *)
(* Acceptance : every observation sits in exactly one in-range cell whose      *)
(*              footprint contains it (border points may go to either side),   *)
(*              counts add up to the number of observations, every cell of     *)
(*              every aggregate grid equals AggDef of the values assigned.     *)
(* Algorithms : GetCellAlgo (floor for columns with the right-border case,     *)
(*              three-way case for rows) and the cell operators; with Legacy    *)
(*              = TRUE co_min / co_max start from the first element even if     *)
(*              NaN and co_median indexes an empty list (refuted by TLC).       *)
(***************************************************************************)
EXTENDS Integers, Sequences, FiniteSets, TLC

CONSTANTS GW, GH,        \* design check: bounding boxes up to GW x GH (fine units), all sub-extents
          Res,           \* ... resolutions (fine units)
          AVals,         \* ... feature values, NaNv = not-a-number
          Legacy,
          Mode           \* "cell" | "agg" | "none"
VARIABLES g, P, vals, ph
vars == <<g, P, vals, ph>>
NaNv == 9999

(* ---- footprint ------------------------------------------------------------------ *)
InRange(gr, col, row) == col \in 0..(gr.ncol - 1) /\ row \in 0..(gr.nrow - 1)
Footprint(gr, col, row, pt) ==
   /\ gr.xmin + col * gr.rx <= pt[1] /\ pt[1] <= gr.xmin + (col + 1) * gr.rx
   /\ gr.ymin + (gr.nrow - 1 - row) * gr.ry <= pt[2] /\ pt[2] <= gr.ymin + (gr.nrow - row) * gr.ry
CeilDiv(x, y) == (x + y - 1) \div y

(* ---- transcription of Raster.getCell ------------------------------------------------ *)
GetCellAlgo(gr, pt) ==
   LET ax == pt[1] - gr.xmin
       ay == pt[2] - gr.ymin
       column == IF ax = gr.ncol * gr.rx THEN gr.ncol - 1 ELSE ax \div gr.rx
       line == IF ay % gr.ry = 0
               THEN LET idy == gr.nrow - 1 - (ay \div gr.ry) IN IF idy > -1 THEN idy ELSE idy + 1
               ELSE (gr.nrow - 1 - (ay \div gr.ry) - 1) + 1
   IN <<column, line>>

(* ---- aggregates ------------------------------------------------------------------------- *)
\* a result is <<1, n, d>> (the number n/d, reduced, d > 0) or NoData
NoData == <<0, 0, 1>>
Num(n) == <<1, n, 1>>
AAbs(n) == IF n < 0 THEN -n ELSE n
RECURSIVE AGcd(_, _)
AGcd(x, y) == IF y = 0 THEN x ELSE AGcd(y, x % y)
NumF(n, d) == LET gg == AGcd(AAbs(n), d) IN <<1, n \div gg, d \div gg>>            \* d > 0
NonNaN(s) == SelectSeq(s, LAMBDA v : v # NaNv)
RECURSIVE ASum(_)
ASum(s) == IF s = <<>> THEN 0 ELSE Head(s) + ASum(Tail(s))
SeqMin(s) == CHOOSE v \in {s[k] : k \in DOMAIN s} : \A k \in DOMAIN s : v <= s[k]
SeqMax(s) == CHOOSE v \in {s[k] : k \in DOMAIN s} : \A k \in DOMAIN s : v >= s[k]
RECURSIVE ASort(_)
ASort(s) == IF s = <<>> THEN <<>>
            ELSE LET m == SeqMin(s)
                     k == CHOOSE i \in DOMAIN s : s[i] = m
                 IN <<m>> \o ASort(SubSeq(s, 1, k - 1) \o SubSeq(s, k + 1, Len(s)))
AggDef(op, s) ==
   LET nn == NonNaN(s)
       n == Len(nn)
   IN CASE op = "co_count" -> Num(n)
        [] op = "co_sum" -> Num(ASum(nn))
        [] op = "co_min" -> IF n = 0 THEN NoData ELSE Num(SeqMin(nn))
        [] op = "co_max" -> IF n = 0 THEN NoData ELSE Num(SeqMax(nn))
        [] op = "co_avg" -> IF n = 0 THEN NoData ELSE NumF(ASum(nn), n)
        [] op = "co_median" -> IF n = 0 THEN NoData
                               ELSE LET t == ASort(nn) IN
                                    IF n % 2 = 1 THEN Num(t[(n + 1) \div 2]) ELSE NumF(t[n \div 2] + t[n \div 2 + 1], 2)
Ops == {"co_count", "co_sum", "co_min", "co_max", "co_avg", "co_median"}

\* transcription of the cell operators followed by computeAggregates' NaN -> no-data.  Raises = <<2, 0, 1>>
Raises == <<2, 0, 1>>
RECURSIVE ScanMin(_, _, _)
ScanMin(s, k, m) == IF k > Len(s) THEN m ELSE IF s[k] = NaNv THEN ScanMin(s, k + 1, m)
                    ELSE IF m = NaNv THEN ScanMin(s, k + 1, IF Legacy THEN m ELSE s[k])      \* NaN never loses a comparison
                    ELSE ScanMin(s, k + 1, IF s[k] < m THEN s[k] ELSE m)
RECURSIVE ScanMax(_, _, _)
ScanMax(s, k, m) == IF k > Len(s) THEN m ELSE IF s[k] = NaNv THEN ScanMax(s, k + 1, m)
                    ELSE IF m = NaNv THEN ScanMax(s, k + 1, IF Legacy THEN m ELSE s[k])
                    ELSE ScanMax(s, k + 1, IF s[k] > m THEN s[k] ELSE m)
AggAlgo(op, s) ==
   CASE op \in {"co_count", "co_sum", "co_avg"} -> AggDef(op, s)
     [] op = "co_min" -> IF s = <<>> THEN NoData
                         ELSE LET m == IF Legacy THEN ScanMin(s, 2, s[1]) ELSE ScanMin(s, 1, NaNv) IN IF m = NaNv THEN NoData ELSE Num(m)
     [] op = "co_max" -> IF s = <<>> THEN NoData
                         ELSE LET m == IF Legacy THEN ScanMax(s, 2, s[1]) ELSE ScanMax(s, 1, NaNv) IN IF m = NaNv THEN NoData ELSE Num(m)
     [] op = "co_median" -> IF s = <<>> THEN NoData
                            ELSE IF NonNaN(s) = <<>> THEN (IF Legacy THEN Raises ELSE NoData)
                            ELSE AggDef(op, s)

(* ---- acceptance of a recorded summarize() --------------------------------------------------- *)
\* obs[k] = <<x, y, value>>; cells = sequence of <<row, col, tags>> (tags = 1-based observation numbers found in the cell)
TagsIn(cells, row, col) == UNION {{c[3][k] : k \in DOMAIN c[3]} : c \in {cells[j] : j \in {i \in DOMAIN cells : cells[i][1] = row /\ cells[i][2] = col}}}
CountOf(cells, t) == LET RECURSIVE F(_)
                         F(j) == IF j = 0 THEN 0 ELSE Cardinality({k \in DOMAIN cells[j][3] : cells[j][3][k] = t}) + F(j - 1)
                     IN F(Len(cells))
AcceptAssignment(gr, obs, cells) ==
   IF \E j \in DOMAIN cells : ~InRange(gr, cells[j][2], cells[j][1]) THEN "cell_out_of_range"
   ELSE IF \E t \in DOMAIN obs : CountOf(cells, t) # 1 THEN "observation_not_in_exactly_one_cell"
   ELSE IF \E j \in DOMAIN cells : \E k \in DOMAIN cells[j][3] : ~(cells[j][3][k] \in DOMAIN obs) THEN "foreign_value_in_a_cell"
   ELSE IF \E j \in DOMAIN cells : \E k \in DOMAIN cells[j][3] :
              ~Footprint(gr, cells[j][2], cells[j][1], <<obs[cells[j][3][k]][1], obs[cells[j][3][k]][2]>>) THEN "cell_footprint_does_not_contain_observation"
   ELSE "ok"
\* values of the observations assigned to (row, col), in observation order
ValuesIn(obs, cells, row, col) ==
   LET ts == TagsIn(cells, row, col)
       RECURSIVE F(_)
       F(k) == IF k > Len(obs) THEN <<>> ELSE (IF k \in ts THEN <<obs[k][3]>> ELSE <<>>) \o F(k + 1)
   IN F(1)

(* ---- design checks -------------------------------------------------------------------------------- *)
Grids == {[xmin |-> 0, ymin |-> 0, rx |-> rx, ry |-> ry, ncol |-> CeilDiv(w, rx), nrow |-> CeilDiv(h, ry), w |-> w, h |-> h] :
             rx \in Res, ry \in Res, w \in 1..GW, h \in 1..GH}
Seqs3 == UNION {[1..n -> AVals] : n \in 0..3}
\* Mode "req": computeAggregates serves a LIST of requests on one feature from ONE list of values per cell (the list is
\* shared by every map of the feature).  One action per request; vals is the shared list.  With Legacy = TRUE the median
\* sorts by removing from the list it was handed when that list holds no NaN (no copy was needed to drop them) - the
\* requests that follow then see an emptied cell.
Init == \/ Mode = "cell" /\ g \in Grids /\ P = <<0, 0>> /\ vals = <<>> /\ ph = 0
        \/ Mode = "agg" /\ g = 0 /\ P = <<0, 0>> /\ vals \in Seqs3 /\ ph = 1
        \/ Mode = "req" /\ P = <<0, 0>> /\ ph = 3 /\ \E s \in Seqs3, a \in Ops, b \in Ops, c \in Ops :
                               vals = s /\ g = [orig |-> s, asked |-> <<a, b, c>>, res |-> <<>>]
Serve == /\ Mode = "req" /\ Len(g.res) < Len(g.asked)
         /\ LET op == g.asked[Len(g.res) + 1] IN
               /\ g' = [g EXCEPT !.res = Append(@, AggAlgo(op, vals))]
               /\ vals' = IF Legacy /\ op = "co_median" /\ NonNaN(vals) = vals THEN <<>> ELSE vals
         /\ UNCHANGED <<P, ph>>
Next == \/ Mode = "cell" /\ ph = 0 /\ ph' = 1 /\ UNCHANGED <<g, vals>> /\ P' \in (0..g.w) \X (0..g.h)
        \/ Serve
Spec == Init /\ [][Next]_vars
GetCellInFootprint == (Mode = "cell" /\ ph = 1) =>
   LET c == GetCellAlgo(g, P) IN InRange(g, c[1], c[2]) /\ Footprint(g, c[1], c[2], P)
AggIsDefinition == (Mode = "agg" /\ ph = 1) => \A op \in Ops : AggAlgo(op, vals) = AggDef(op, vals)
\* whatever the order and repetition of the requests, each one is answered from the values located in the cell
RequestOrderIrrelevant == Mode = "req" => /\ vals = g.orig
                                          /\ \A k \in DOMAIN g.res : g.res[k] = AggDef(g.asked[k], g.orig)
=============================================================================
