------------------------------- MODULE IOLayout -------------------------------
(***************************************************************************)
(* C13 - files are read back unchanged (TrackWriter / TrackReader CSV and    *)
(* GPX, NetworkWriter / NetworkReader, Track.toWKT / TrackReader.parseWkt).   *)
(*                                                                         *)
(* Abstract track = observations 1..NObs, each with data E, N, U, T (the       *)
(* datum of observation k is the pair <<kind, k>>).  Abstract CSV file = rows   *)
(* of fields.  Global state: the class-level print / read time formats.         *)
(*                                                                         *)
(* WriteCsv(cfg) : the writer builds the list O of (column id, datum), sorts it  *)
(*                 by id and prints the data in THAT ORDER (relative order);      *)
(*                 the time field is printed with the current print format.        *)
(* ReadCsv(cfg)  : the reader takes fields by ABSOLUTE index id_E, id_N, id_U,      *)
(*                 id_T and parses the time with cfg.tf (saved / restored read       *)
(*                 format).                                                           *)
(* WriteGpx      : forces the ISO print format and restores the previous one;          *)
(* ReadGpx       : parses <time> with the CURRENT global read format.                   *)
(*                                                                         *)
(* Properties (TLC): Read(Write(tr, cfg), cfg) = tr (U -> 0 / T -> epoch when the        *)
(* column is absent) whenever the ids are a permutation of 0..k-1 and cfg.tf is the       *)
(* print format in force at write time; no Write or Read changes the global formats;      *)
(* a network survives Write / Read for both header options (Legacy: the reader eats a      *)
(* row when header = 0 - refuted); a coordinate whose integer part is the no-data value      *)
(* but which is not the no-data value is read back like any other (Legacy: the reader         *)
(* truncated before comparing - refuted).  The same model, run as a generator, prints the          *)
(* configurations / histories with the expectation the specification assigns; the            *)
(* driver replays them through real files (spec -> code).                                    *)
(***************************************************************************)
EXTENDS Integers, Sequences, FiniteSets, TLC, Json

CONSTANTS Mode,        \* "layout" | "history" | "network" | "none"
          NObs, Depth, Emit, Legacy
VARIABLES cfg, printFmt, readFmt, files, hist, net, ph,
          pc, saved, setP, setR      \* history mode: step inside a public call, saved format, formats last set by the user
vars == <<cfg, printFmt, readFmt, files, hist, net, ph, pc, saved, setP, setR>>

Fmts == {1, 2, 3, 4}         \* four time formats; GpxFmt is what the GPX writer forces, GpxRead the matching read format
GpxFmt == 2
Seps == {"c", "s", "t"}
Srids == {"ENU", "GEO", "ECEF"}

(* ---- CSV layout ------------------------------------------------------------------ *)
\* cfg = [e, n, u, t |-> column ids (-1 = absent), sep, srid, tf |-> time format of the TrackFormat]
Cols(c) == {<<c.e, "E">>, <<c.n, "N">>} \cup (IF c.u # -1 THEN {<<c.u, "U">>} ELSE {}) \cup (IF c.t # -1 THEN {<<c.t, "T">>} ELSE {})
RECURSIVE SortCols(_)
SortCols(S) == IF S = {} THEN <<>>
               ELSE LET m == CHOOSE x \in S : \A y \in S : x[1] <= y[1] IN <<m[2]>> \o SortCols(S \ {m})
IsPerm(c) == LET ids == {x[1] : x \in Cols(c)} IN Cardinality(ids) = Cardinality(Cols(c)) /\ ids = 0..(Cardinality(Cols(c)) - 1)
DistinctIds(c) == Cardinality({x[1] : x \in Cols(c)}) = Cardinality(Cols(c))
\* the writer: one row per observation, data in the sorted (relative) order; remembers the print format used
WriteCsv(c, pf) == [rows |-> [k \in 1..NObs |-> [j \in DOMAIN SortCols(Cols(c)) |-> <<SortCols(Cols(c))[j], k>>]], pf |-> pf]
\* the reader: absolute indices; "raise" when an index is out of the row
FieldAt(row, id) == IF id + 1 \in DOMAIN row THEN row[id + 1] ELSE <<"missing", 0>>
\* The no-data rule of the reader: a row whose E or N field IS the no-data value of the format (-999999) becomes a
\* no-data observation (all three coordinates replaced).  c.near names a datum of observation 1 that is a NEAR-SENTINEL
\* value: its integer part is the no-data value but it is not the no-data value (-999999.4 m is an ordinary ECEF / ENU
\* coordinate).  Exact no-data values are outside the domain.  Legacy: the pinned reader compared the INTEGER PART.
IsNear(c, f) == c.near # "-" /\ f = <<c.near, 1>>
NoDataHit(c, f) == Legacy /\ IsNear(c, f)
ReadObs(row, c, pf) ==
   LET tm == IF c.t = -1 THEN <<"epoch", 0>>
             ELSE LET f == FieldAt(row, c.t) IN IF f[1] = "T" /\ pf # c.tf THEN <<"garbled", f[2]>> ELSE f
   IN IF NoDataHit(c, FieldAt(row, c.e)) \/ NoDataHit(c, FieldAt(row, c.n))
      THEN [e |-> <<"nodata", 0>>, n |-> <<"nodata", 0>>, u |-> <<"nodata", 0>>, t |-> tm]
      ELSE [e |-> FieldAt(row, c.e), n |-> FieldAt(row, c.n),
            u |-> IF c.u = -1 THEN <<"zero", 0>> ELSE FieldAt(row, c.u), t |-> tm]
ReadCsv(file, c) == [k \in DOMAIN file.rows |-> ReadObs(file.rows[k], c, file.pf)]
\* what the property promises for observation k
Want(c, k) == [e |-> <<"E", k>>, n |-> <<"N", k>>, u |-> IF c.u = -1 THEN <<"zero", 0>> ELSE <<"U", k>>,
               t |-> IF c.t = -1 THEN <<"epoch", 0>> ELSE <<"T", k>>]
RoundTripOK(c, pf) == ReadCsv(WriteCsv(c, pf), c) = [k \in 1..NObs |-> Want(c, k)]

Nears == {"-", "E", "N"}        \* geographic coordinates cannot come near the no-data value
Cfgs == {c \in [e : 0..3, n : 0..3, u : -1..3, t : -1..3, sep : Seps, srid : Srids, tf : Fmts, near : Nears] :
            DistinctIds(c) /\ (c.srid = "GEO" => c.near = "-")}
PermCfgs == {c \in Cfgs : IsPerm(c)}

(* ---- networks ------------------------------------------------------------------------ *)
\* net = [edges |-> sequence of [s, t |-> node, o |-> orientation, g |-> number of geometry vertices], h |-> header lines, sep]
NetRows(nw) == (IF nw.h = 1 THEN << <<"header">> >> ELSE <<>>) \o [j \in DOMAIN nw.edges |-> <<"edge", j>>]
\* the reader skips the header, then one edge per remaining row
SkipCount(nw) == IF Legacy THEN (IF nw.h = 0 THEN 1 ELSE nw.h) ELSE nw.h       \* pinned loop consumed a row even for header = 0
ReadNet(nw) == LET rows == NetRows(nw) IN [j \in 1..(Len(rows) - SkipCount(nw)) |-> rows[j + SkipCount(nw)]]
NetRoundTripOK(nw) == ReadNet(nw) = [j \in DOMAIN nw.edges |-> <<"edge", j>>]
EdgeSet == [s : {"a", "b", "c"}, t : {"a", "b", "c"}, o : {-1, 0, 1}, g : {2, 3}]
\* the network format documents three separators: comma, blank and semicolon (a blank cannot separate track fields - the
\* printed timestamps contain one); the tab works too
NetSeps == Seps \cup {"b"}
Nets == {[edges |-> es, h |-> h, sep |-> sp] : es \in UNION {[1..m -> EdgeSet] : m \in 1..2}, h \in {0, 1}, sp \in NetSeps}

(* ---- histories over the global formats ---------------------------------------------------- *)
\* files: "A", "B" (csv written with cfgA / cfgB) and "G" (gpx); kind "none" = not written yet
CfgA == [e |-> 0, n |-> 1, u |-> 2, t |-> 3, sep |-> "c", srid |-> "ENU", tf |-> 1, near |-> "-"]
CfgB == [e |-> 2, n |-> 1, u |-> -1, t |-> 0, sep |-> "s", srid |-> "GEO", tf |-> 3, near |-> "-"]
\* A public call is one or several steps (pc): the CSV reader saves the read format, installs the TrackFormat's, parses,
\* restores; the GPX writer saves the print format, installs the ISO one, writes, restores.  The library is sequential:
\* a new public call starts only when pc = "idle".  Legacy = TRUE drops the two restore steps (self-test).
Log(a) == hist' = Append(hist, a)
Idle == pc = "idle" /\ Len(hist) < Depth
SetPrint(f) == Idle /\ printFmt' = f /\ setP' = f /\ UNCHANGED <<readFmt, files, pc, saved, setR>> /\ Log([a |-> "setprint", f |-> f, exp |-> "none", p |-> f, r |-> setR])
SetRead(f) == Idle /\ readFmt' = f /\ setR' = f /\ UNCHANGED <<printFmt, files, pc, saved, setP>> /\ Log([a |-> "setread", f |-> f, exp |-> "none", p |-> setP, r |-> f])
WriteCsvA(name, c) == /\ Idle /\ files' = [files EXCEPT ![name] = [kind |-> "csv", pf |-> printFmt]]
                      /\ UNCHANGED <<printFmt, readFmt, pc, saved, setP, setR>> /\ Log([a |-> "writecsv", f |-> name, exp |-> "none", p |-> setP, r |-> setR])
ReadCsvBegin(name, c) == /\ Idle /\ files[name].kind # "none"
                         /\ saved' = readFmt /\ readFmt' = c.tf /\ pc' = "rd_" \o name /\ UNCHANGED <<printFmt, files, setP, setR>>
                         /\ Log([a |-> "readcsv", f |-> name, exp |-> IF files[name].pf = c.tf THEN "same" ELSE "unspecified", p |-> setP, r |-> setR])
ReadCsvEnd == /\ pc \in {"rd_A", "rd_B"} /\ pc' = "idle" /\ readFmt' = (IF Legacy THEN readFmt ELSE saved)
              /\ UNCHANGED <<printFmt, files, saved, setP, setR, hist>>
WriteGpxBegin == /\ Idle /\ saved' = printFmt /\ printFmt' = GpxFmt /\ pc' = "gpx_body" /\ UNCHANGED <<readFmt, files, setP, setR>>
                 /\ Log([a |-> "writegpx", f |-> "G", exp |-> "none", p |-> setP, r |-> setR])
WriteGpxBody == /\ pc = "gpx_body" /\ files' = [files EXCEPT !["G"] = [kind |-> "gpx", pf |-> printFmt]] /\ pc' = "gpx_end"
                /\ UNCHANGED <<printFmt, readFmt, saved, setP, setR, hist>>
WriteGpxEnd == /\ pc = "gpx_end" /\ pc' = "idle" /\ printFmt' = (IF Legacy THEN printFmt ELSE saved)
               /\ UNCHANGED <<readFmt, files, saved, setP, setR, hist>>
ReadGpxA == /\ Idle /\ files["G"].kind # "none" /\ UNCHANGED <<printFmt, readFmt, files, pc, saved, setP, setR>>
            /\ Log([a |-> "readgpx", f |-> "G", exp |-> IF readFmt = files["G"].pf THEN "same" ELSE "unspecified", p |-> setP, r |-> setR])
HistNext == /\ UNCHANGED <<cfg, net, ph>>
            /\ \/ \E f \in {1, 3} : SetPrint(f)
               \/ \E f \in {1, GpxFmt} : SetRead(f)
               \/ WriteCsvA("A", CfgA) \/ WriteCsvA("B", CfgB) \/ ReadCsvBegin("A", CfgA) \/ ReadCsvBegin("B", CfgB) \/ ReadCsvEnd
               \/ WriteGpxBegin \/ WriteGpxBody \/ WriteGpxEnd \/ ReadGpxA

(* ---- specification ------------------------------------------------------------------------------ *)
Init == /\ printFmt = 1 /\ readFmt = 1 /\ hist = <<>> /\ pc = "idle" /\ saved = 0 /\ setP = 1 /\ setR = 1 /\ files = [x \in {"A", "B", "G"} |-> [kind |-> "none", pf |-> 0]]
        /\ \/ Mode = "layout" /\ cfg \in Cfgs /\ net = 0 /\ ph = 1
           \/ Mode = "history" /\ cfg = 0 /\ net = 0 /\ ph = 0
           \/ Mode = "network" /\ cfg = 0 /\ net \in Nets /\ ph = 1
Emitted == ~Emit \/
   CASE Mode = "layout" -> IsPerm(cfg) => PrintT(ToJson([cfg |-> cfg, want |-> [k \in 1..NObs |-> Want(cfg, k)]]))
     [] Mode = "network" -> PrintT(ToJson([net |-> net, want |-> Len(net.edges)]))
     [] OTHER -> TRUE
Next == Mode = "history" /\ HistNext /\ (~Emit \/ Len(hist') < Depth \/ pc' # "idle" \/ PrintT(ToJson([hist |-> hist'])))
Spec == Init /\ [][Next]_vars

\* ids forming a permutation of 0..k-1 and matching time format => exact round trip
PermutationRoundTrip == (Mode = "layout" /\ IsPerm(cfg)) => (RoundTripOK(cfg, cfg.tf) /\ Emitted)
\* self-test (REFUTED): without the permutation precondition the relative / absolute mismatch shows
AnyIdsRoundTrip == Mode = "layout" => RoundTripOK(cfg, cfg.tf)
\* a mismatching print format garbles exactly the time field
WrongFormatOnlyGarblesTime == (Mode = "layout" /\ IsPerm(cfg)) => \A pf \in Fmts \ {cfg.tf} :
   LET r == ReadCsv(WriteCsv(cfg, pf), cfg) IN
   \A k \in 1..NObs : r[k].e = <<"E", k>> /\ r[k].n = <<"N", k>> /\ (cfg.t # -1 => r[k].t = <<"garbled", k>>)
NetworkRoundTrip == Mode = "network" => (NetRoundTripOK(net) /\ Emitted)
\* between public calls the global formats are the ones the user set last: no read or write leaks a format change
FormatsRestored == pc = "idle" => (printFmt = setP /\ readFmt = setR)
\* the GPX file is always written with the ISO format, whatever the user's print format
GpxAlwaysIso == files["G"].kind = "gpx" => files["G"].pf = GpxFmt
=============================================================================
