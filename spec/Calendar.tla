------------------------------ MODULE Calendar ------------------------------
(***************************************************************************)
(* C03 - calendar timestamps <-> seconds since 1970 (tracklib ObsTime).    *)
(*                                                                         *)
(* The state is a clock: a Gregorian calendar date (y,m,d), the number of  *)
(* days elapsed since 1970-01-01 (dayNo) and a time of day in milliseconds *)
(* (tod).  The date and dayNo are advanced TOGETHER by NextDay, which is   *)
(* the definition of the proleptic Gregorian calendar; an instant is the   *)
(* pair <<dayNo, tod>> (seconds since 1970 do not fit TLC's 32-bit ints    *)
(* after 2038, so they never appear as one integer).                       *)
(*                                                                         *)
(* ToDays is the summation ObsTime.toAbsTime performs, FromDays the        *)
(* year-loop / month-loop decomposition readUnixTime is meant to perform.  *)
(* TLC checks both against the clock on every day of the range, checks     *)
(* that lexicographic comparison of the fields orders instants, and (Emit) *)
(* prints every state with its successors for replay into the real code.   *)
(***************************************************************************)
EXTENDS Integers, Sequences, TLC, Json

CONSTANTS Y0,      \* first year of the range (>= 1970)
          Y1,      \* last year of the range
          Tods,    \* set of times of day (ms) explored for every date
          Emit     \* TRUE: print every state as JSON (spec -> code replay)

VARIABLES y, m, d, dayNo, tod
vars == <<y, m, d, dayNo, tod>>

DayMs == 86400000

IsLeap(yy) == yy % 4 = 0 /\ (yy % 100 # 0 \/ yy % 400 = 0)
DaysIn(yy, mm) == IF mm = 2 THEN (IF IsLeap(yy) THEN 29 ELSE 28)
                  ELSE IF mm \in {4, 6, 9, 11} THEN 30 ELSE 31
YearLen(yy) == IF IsLeap(yy) THEN 366 ELSE 365

NextDate(dt) == IF dt[3] < DaysIn(dt[1], dt[2]) THEN <<dt[1], dt[2], dt[3] + 1>>
                ELSE IF dt[2] < 12 THEN <<dt[1], dt[2] + 1, 1>>
                ELSE <<dt[1] + 1, 1, 1>>
PrevDate(dt) == IF dt[3] > 1 THEN <<dt[1], dt[2], dt[3] - 1>>
                ELSE IF dt[2] > 1 THEN <<dt[1], dt[2] - 1, DaysIn(dt[1], dt[2] - 1)>>
                ELSE <<dt[1] - 1, 12, 31>>

(* ---- toAbsTime's summation ------------------------------------------- *)
RECURSIVE YearStart(_)
YearStart(yy) == IF yy = 1970 THEN 0 ELSE YearStart(yy - 1) + YearLen(yy - 1)
RECURSIVE MonthStart(_, _)
MonthStart(yy, mm) == IF mm = 1 THEN 0 ELSE MonthStart(yy, mm - 1) + DaysIn(yy, mm - 1)
ToDays(yy, mm, dd) == YearStart(yy) + MonthStart(yy, mm) + dd - 1

(* ---- readUnixTime's decomposition (year loop on the year's own length) *)
RECURSIVE FY(_, _)
FY(n, yy) == IF n < YearLen(yy) THEN <<yy, n>> ELSE FY(n - YearLen(yy), yy + 1)
RECURSIVE FM(_, _, _)
FM(yy, n, mm) == IF n < DaysIn(yy, mm) THEN <<mm, n + 1>> ELSE FM(yy, n - DaysIn(yy, mm), mm + 1)
FromDays(n) == LET a == FY(n, 1970)
                   b == FM(a[1], a[2], 1)
               IN <<a[1], b[1], b[2]>>

(* ---- time of day ------------------------------------------------------ *)
Fields(t) == <<t \div 3600000, (t \div 60000) % 60, (t \div 1000) % 60, t % 1000>>
TodOf(f) == ((f[1] * 60 + f[2]) * 60 + f[3]) * 1000 + f[4]

(* anchor points of the epoch count (independent, well-known values) *)
ASSUME ToDays(2000, 3, 1) = 11017
ASSUME ToDays(2038, 1, 19) = 24855
ASSUME ToDays(2100, 1, 1) = 47482
ASSUME ToDays(1972, 2, 29) = 789

(* ---- instants one unit apart ------------------------------------------ *)
\* A step kind: name, whole days, milliseconds (positive or negative)
Kinds == { <<"Z1", 0, 1>>, <<"S1", 0, 1000>>, <<"M1", 0, 60000>>, <<"H1", 0, 3600000>>,
           <<"D1", 1, 0>>, <<"D31", 31, 0>>, <<"D365", 365, 0>>,
           <<"B1", 0, -1000>>, <<"S3661", 0, 3661000>>,
           <<"MB45", 0, -2700000>>, <<"HB5", 0, -18000000>>,         \* 45 minutes / 5 hours BACK (addMin, addHour with negative arguments)
           <<"DM1", -1, 0>>, <<"DMD", 0, 0>> }       \* one day back; back by the day of the month (lands on the last day of the previous month)
KDays(k) == IF k[1] = "DMD" THEN 0 - d ELSE k[2]

\* Successor instant of the current state: <<date, dayNo, tod>>
Shift(k) ==
  LET t1 == tod + k[3]
      kd == KDays(k)
      dt0 == IF kd = 0 THEN <<y, m, d>> ELSE IF kd = 1 THEN NextDate(<<y, m, d>>)
             ELSE IF dayNo + kd < 0 THEN <<1969, 12, 31>>            \* before 1970: outside the domain (the driver skips it)
             ELSE FromDays(dayNo + kd)     \* FromDays is validated by LoopsInvert in the same run
      dn0 == dayNo + kd
  IN IF t1 >= DayMs THEN <<NextDate(dt0), dn0 + 1, t1 - DayMs>>
     ELSE IF t1 < 0 THEN <<PrevDate(dt0), dn0 - 1, t1 + DayMs>>
     ELSE <<dt0, dn0, t1>>

Sign(x) == IF x < 0 THEN -1 ELSE IF x > 0 THEN 1 ELSE 0
\* order of instants (the definition): by dayNo, then tod
InstCmp(d1, t1, d2, t2) == IF d1 # d2 THEN Sign(d1 - d2) ELSE Sign(t1 - t2)
\* lexicographic comparison of the seven calendar fields (what ObsTime implements)
RECURSIVE LexCmp(_, _)
LexCmp(a, b) == IF a = <<>> THEN 0
                ELSE IF Head(a) # Head(b) THEN Sign(Head(a) - Head(b))
                ELSE LexCmp(Tail(a), Tail(b))
AllFields(dt, t) == dt \o Fields(t)

(* ---- the clock ---------------------------------------------------------- *)
Init == /\ y \in Y0..Y1 /\ m = 1 /\ d = 1
        /\ dayNo = YearStart(y)
        /\ tod \in Tods

\* Same-day instants whose FIELDS differ in several places at once, with both signs (one minute later and 60 ms earlier, one
\* hour later and 3 s 600 ms earlier ...): an ordering or an equality that weighs the fields wrongly collides on some of
\* them.  Emitted for one day in 97.
XOffsets == {dh * 3600000 + dmi * 60000 + ds * 1000 + dz :
                dh \in {-1, 0, 1}, dmi \in {-1, 0, 1}, ds \in {-3, -1, 0, 1, 3}, dz \in {-600, -60, -1, 0, 1, 60, 600}}
XPairs == IF dayNo % 97 = 0 THEN {<<Fields(tod + o), Sign(0 - o)>> : o \in {x \in XOffsets : tod + x >= 0 /\ tod + x < DayMs}} ELSE {}

\* 1 January 1970 was a Thursday: index 3 of Mon..Sun (growth: ObsTime.getDayOfWeek)
DayNames == <<"Mon", "Tue", "Wed", "Thu", "Fri", "Sat", "Sun">>
DayOfWeek(n) == DayNames[((n + 3) % 7) + 1]
Record == [y |-> y, m |-> m, d |-> d, f |-> Fields(tod), day |-> dayNo, tod |-> tod, dow |-> DayOfWeek(dayNo), xp |-> XPairs,
           succ |-> [k \in {kk[1] : kk \in Kinds} |->
                       LET kk == CHOOSE q \in Kinds : q[1] = k
                           s == Shift(kk)
                       IN [dt |-> s[1], nx |-> NextDate(s[1]), f |-> Fields(s[3]), day |-> s[2], tod |-> s[3],
                           cmp |-> InstCmp(dayNo, tod, s[2], s[3])]]]

NextDay == /\ y <= Y1
           /\ LET n == NextDate(<<y, m, d>>) IN y' = n[1] /\ m' = n[2] /\ d' = n[3]
           /\ dayNo' = dayNo + 1
           /\ tod' = tod
           /\ (Emit => PrintT(ToJson(Record)))

Next == NextDay
Spec == Init /\ [][Next]_vars

(* ---- properties ---------------------------------------------------------- *)
WellFormed == /\ m \in 1..12 /\ d \in 1..DaysIn(y, m)
              /\ LET f == Fields(tod) IN f[1] \in 0..23 /\ f[2] \in 0..59 /\ f[3] \in 0..59 /\ f[4] \in 0..999
              /\ TodOf(Fields(tod)) = tod
\* toAbsTime's summation agrees with the calendar
SumAgrees == dayNo = ToDays(y, m, d)
\* the year/month loops invert it (checked once per date)
LoopsInvert == (tod = CHOOSE t \in Tods : \A u \in Tods : t <= u) => FromDays(dayNo) = <<y, m, d>>
\* field-wise comparison orders instants; a shift moves the instant by its amount
OrderAgrees == \A k \in Kinds :
                 LET s == Shift(k) IN
                 /\ LexCmp(AllFields(<<y, m, d>>, tod), AllFields(s[1], s[3])) = InstCmp(dayNo, tod, s[2], s[3])
                 /\ (s[2] - dayNo - KDays(k)) * DayMs + (s[3] - tod) = k[3]
                 /\ ((KDays(k) > 1 \/ (KDays(k) < 0 /\ s[2] >= 0)) /\ s[1][1] <= Y1 + 1 => s[2] = ToDays(s[1][1], s[1][2], s[1][3]))
OrderAgreesX == \A o \in {x \in XOffsets : tod + x >= 0 /\ tod + x < DayMs} :
                   LexCmp(AllFields(<<y, m, d>>, tod), AllFields(<<y, m, d>>, tod + o)) = Sign(0 - o)
DayChain == [][dayNo' = dayNo + 1 /\ <<y', m', d'>> = NextDate(<<y, m, d>>)]_vars
=============================================================================
