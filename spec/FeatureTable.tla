---------------------------- MODULE FeatureTable ----------------------------
(***************************************************************************)
(* C01 - the analytical-feature table of a tracklib Track.                 *)
(*                                                                         *)
(* Implementation-shaped state: `order` is the inverse of the name->index  *)
(* dictionary (Track.__analyticalFeaturesDico), feat[i] is the value list  *)
(* of observation i (Obs.features), P the coordinate columns.  The         *)
(* abstract state the property talks about is the projection               *)
(*     Names == Range(order),  Col(n)[i] == feat[i][Idx(n)].               *)
(* One action per public call of the feature API; an operator object or an *)
(* expression is "some computation that writes column `out`" (OpWrite /    *)
(* Assign) - WHAT is written is C02's business (ExprEval.tla), WHERE it    *)
(* goes and what must not move is this module's.                           *)
(***************************************************************************)
EXTENDS Integers, Sequences, FiniteSets, TLC, Json

CONSTANTS N,          \* number of observations of the track (>= 1)
          Names,      \* user feature names, e.g. {"a","b","c"}
          MaxLevel,   \* depth bound on histories
          Emit,       \* print every transition as JSON (spec -> code replay)
          Ops1, Ops2, OpsS, OpsA, Forms     \* operator / expression alphabets of this run

VARIABLES order, feat, P, ret,
          hist        \* the calls made so far (hidden by VIEW; lets every printed transition carry a real history)
vars == <<order, feat, P, ret, hist>>

Obs      == 1..N
Coords   == {"x", "y", "z"}
Reserved == Coords \cup {"t", "timestamp", "idx"}
None     == -1000000          \* "no value returned"

Range(s) == {s[k] : k \in DOMAIN s}
Has(n)   == n \in Range(order)
Idx(n)   == CHOOSE k \in DOMAIN order : order[k] = n
Col(n)   == [i \in Obs |-> feat[i][Idx(n)]]
Listed   == Range(order)
Readable == Listed \cup Coords \cup {"idx"}
Read(n)  == IF n \in Coords THEN P[n] ELSE IF n = "idx" THEN [i \in Obs |-> i - 1] ELSE Col(n)
Bcast(v) == [i \in Obs |-> v]
RemoveAt(s, k) == SubSeq(s, 1, k - 1) \o SubSeq(s, k + 1, Len(s))

(* ---- the three primitive effects on the implementation-shaped state ---- *)
DoAppend(n, vals) == /\ order' = Append(order, n)
                     /\ feat' = [i \in Obs |-> Append(feat[i], vals[i])]
DoDrop(n) == LET k == Idx(n) IN
             /\ order' = RemoveAt(order, k)
             /\ feat' = [i \in Obs |-> RemoveAt(feat[i], k)]
DoWrite(n, vals) == /\ order' = order
                    /\ feat' = [i \in Obs |-> [feat[i] EXCEPT ![Idx(n)] = vals[i]]]
\* remove + create: the name moves to the last index (expression assignment to an existing name)
DoMoveLast(n, vals) == LET k == Idx(n) IN
             /\ order' = Append(RemoveAt(order, k), n)
             /\ feat' = [i \in Obs |-> Append(RemoveAt(feat[i], k), vals[i])]
Same == UNCHANGED <<order, feat>>

(* ---- public calls -------------------------------------------------------- *)
\* createAnalyticalFeature(n, v): silently returns when the name exists; reserved names raise
Create(n, vals) == /\ IF n \in Reserved \/ Has(n) THEN Same ELSE DoAppend(n, vals)
                   /\ UNCHANGED P /\ ret' = None
\* track[n] = v : update when listed, create otherwise
SetItem(n, vals) == /\ IF Has(n) THEN DoWrite(n, vals) ELSE DoAppend(n, vals)
                    /\ UNCHANGED P /\ ret' = None
\* updateAnalyticalFeature(n, v): raises (no change) when the name is not listed
Update(n, vals) == /\ IF Has(n) THEN DoWrite(n, vals) ELSE Same
                   /\ UNCHANGED P /\ ret' = None
\* removeAnalyticalFeature(n) / track[n] = "#DELETE": raises (no change) when not listed
Remove(n) == /\ IF Has(n) THEN DoDrop(n) ELSE Same
             /\ UNCHANGED P /\ ret' = None
\* track[n, i] = v  (coordinates are virtual features)
SetObs(n, i, v) == /\ IF n \in Coords THEN P' = [P EXCEPT ![n][i] = v] /\ Same
                      ELSE IF Has(n) THEN UNCHANGED P /\ DoWrite(n, [Col(n) EXCEPT ![i] = v])
                      ELSE UNCHANGED P /\ Same
                   /\ ret' = None
\* an operator object writes its output column (created when missing)
OpWrite(out, vals) == /\ IF Has(out) THEN DoWrite(out, vals) ELSE DoAppend(out, vals)
                      /\ UNCHANGED P
\* an expression "lhs = ..." stores its value: coordinate, moved-to-last, or new column
Assign(lhs, vals) == IF lhs \in Coords THEN P' = [P EXCEPT ![lhs] = vals] /\ Same
                     ELSE /\ UNCHANGED P
                          /\ IF Has(lhs) THEN DoMoveLast(lhs, vals) ELSE DoAppend(lhs, vals)
\* a call that only reads
Pure(v) == Same /\ UNCHANGED P /\ ret' = v

(* ---- the integer operator catalogue used by the bounded model ------------ *)
RECURSIVE SumTo(_, _)
SumTo(f, k) == IF k = 0 THEN 0 ELSE SumTo(f, k - 1) + f[k]
F1(op, u) == CASE op = "IDENTITY"   -> u
               [] op = "INTEGRATOR" -> [i \in Obs |-> SumTo(u, i) - u[1]]       \* first value 0, then running sum
               [] op = "REVERSER"   -> [i \in Obs |-> u[N + 1 - i]]
               [] op = "SHIFT_CIRCULAR_RIGHT" -> [i \in Obs |-> u[((i - 2) % N) + 1]]
               [] op = "INVERTER"   -> [i \in Obs |-> 0 - u[i]]
F2(op, u, v) == CASE op = "ADDER"       -> [i \in Obs |-> u[i] + v[i]]
                  [] op = "SUBSTRACTER" -> [i \in Obs |-> u[i] - v[i]]
                  [] op = "MULTIPLIER"  -> [i \in Obs |-> u[i] * v[i]]
FS(op, u, c) == CASE op = "SCALAR_ADDER"      -> [i \in Obs |-> u[i] + c]
                  [] op = "SCALAR_MULTIPLIER" -> [i \in Obs |-> u[i] * c]
                  [] op = "SCALAR_REV_SUBSTRACTER" -> [i \in Obs |-> c - u[i]]
                  [] op = "SHIFT_CIRCULAR"    -> [i \in Obs |-> u[((i - 1 - c) % N) + 1]]
MinOf(u) == CHOOSE m \in {u[i] : i \in Obs} : \A i \in Obs : m <= u[i]
MaxOf(u) == CHOOSE m \in {u[i] : i \in Obs} : \A i \in Obs : m >= u[i]
Agg(op, u) == CASE op = "SUM" -> SumTo(u, N)
                [] op = "MIN" -> MinOf(u)
                [] op = "MAX" -> MaxOf(u)
                [] op = "ARGMAX" -> (CHOOSE i \in Obs : u[i] = MaxOf(u) /\ \A j \in Obs : u[j] = MaxOf(u) => i <= j) - 1

AllOps1 == {"IDENTITY", "INTEGRATOR", "REVERSER", "SHIFT_CIRCULAR_RIGHT", "INVERTER"}
AllOps2 == {"ADDER", "SUBSTRACTER", "MULTIPLIER"}
AllOpsS == {"SCALAR_ADDER", "SCALAR_MULTIPLIER", "SCALAR_REV_SUBSTRACTER", "SHIFT_CIRCULAR"}
AllOpsA == {"SUM", "MIN", "MAX", "ARGMAX"}

\* expression forms (rendered to strings by the driver; their meaning is given here)
\*   form, value
ExprVal(form, A, B) ==
   CASE form = "copy" -> Read(A)                                     \* L=A
     [] form = "add"  -> F2("ADDER", Read(A), Read(B))               \* L=A+B
     [] form = "mul2" -> FS("SCALAR_MULTIPLIER", Read(A), 2)         \* L=A*2
     [] form = "rsub" -> FS("SCALAR_REV_SUBSTRACTER", Read(A), 3)    \* L=3-A
     [] form = "int"  -> F1("INTEGRATOR", Read(A))                   \* L=I{A}
     [] form = "sum"  -> Bcast(Agg("SUM", Read(A)))                  \* L=SUM{A}
     [] form = "nest" -> F2("SUBSTRACTER", F2("MULTIPLIER", Read(A), Read(B)), FS("SCALAR_ADDER", Read(A), 1))  \* L=A*B-(A+1)
     [] form = "lit"  -> Bcast(4)                                    \* L=4
     \* an aggregate evaluated AFTER a parenthesised sub-expression (its scratch column comes after the sub-expression's)
     [] form = "aggr" -> F2("ADDER", FS("SCALAR_MULTIPLIER", F2("ADDER", Read(A), Read(B)), 2), Bcast(Agg("MAX", Read(A))))   \* L=2*(A+B)+MAX{A}
AllForms == {"copy", "add", "mul2", "rsub", "int", "sum", "nest", "lit", "aggr"}
ASSUME Ops1 \subseteq AllOps1 /\ Ops2 \subseteq AllOps2 /\ OpsS \subseteq AllOpsS /\ OpsA \subseteq AllOpsA /\ Forms \subseteq AllForms

Scalars == {0, 7}
Lists   == {[i \in Obs |-> i], [i \in Obs |-> 5]}

Snap == [order |-> order, cols |-> [k \in DOMAIN order |-> Col(order[k])], lens |-> [i \in Obs |-> Len(feat[i])],
         x |-> P["x"], y |-> P["y"], z |-> P["z"], ret |-> ret]
Log(a) == /\ hist' = Append(hist, a)
          /\ (Emit => PrintT(ToJson([hist |-> hist, act |-> a, post |-> Snap'])))

Init == /\ order = <<>>
        /\ feat = [i \in Obs |-> <<>>]
        /\ P = [c \in Coords |-> [i \in Obs |-> CASE c = "x" -> 10 * i [] c = "y" -> 20 + i [] c = "z" -> 3]]
        /\ ret = None
        /\ hist = <<>>

Next ==
  \/ \E n \in Names \cup {"x"}, v \in Scalars : Create(n, Bcast(v)) /\ Log(<<"create", n, v>>)
  \/ \E n \in Names, v \in Lists : Create(n, v) /\ Log(<<"createl", n, v>>)
  \/ \E n \in Names, v \in Scalars : SetItem(n, Bcast(v)) /\ Log(<<"setitem", n, v>>)
  \/ \E n \in Names, v \in Lists : SetItem(n, v) /\ Log(<<"setiteml", n, v>>)
  \* a feature computed by a FUNCTION of (track, index): t[n] = f and t.addAnalyticalFeature(f, n); f(track, i) = 3 i + 2 (i from 0)
  \/ \E n \in Names : SetItem(n, [i \in Obs |-> 3 * i - 1]) /\ Log(<<"setitemf", n>>)
  \/ \E n \in Names : SetItem(n, [i \in Obs |-> 3 * i - 1]) /\ Log(<<"addaf", n>>)
  \/ \E n \in Names, v \in Scalars : Update(n, Bcast(v)) /\ Log(<<"update", n, v>>)
  \/ \E n \in Names : Remove(n) /\ Log(<<"remove", n>>)
  \/ \E n \in Names : Remove(n) /\ Log(<<"delitem", n>>)
  \/ \E n \in Names \cup Coords, i \in Obs : SetObs(n, i, 9) /\ Log(<<"setobs", n, i - 1, 9>>)
  \/ \E op \in Ops1, a \in Readable, out \in Names :
        OpWrite(out, F1(op, Read(a))) /\ ret' = None /\ Log(<<"op1", op, a, out>>)
  \/ \E op \in Ops2, a \in Readable, b \in Listed, out \in Names :
        OpWrite(out, F2(op, Read(a), Read(b))) /\ ret' = None /\ Log(<<"op2", op, a, b, out>>)
  \/ \E op \in OpsS, a \in Readable, c \in {1, 2}, out \in Names :
        OpWrite(out, FS(op, Read(a), c)) /\ ret' = None /\ Log(<<"ops", op, a, c, out>>)
  \/ \E op \in OpsA, a \in Readable : Pure(Agg(op, Read(a))) /\ Log(<<"agg", op, a>>)
  \/ \E f \in Forms, lhs \in Names \cup {"y"}, a \in Listed \cup {"x"}, b \in Listed :
        Assign(lhs, ExprVal(f, a, b)) /\ ret' = None /\ Log(<<"assign", f, lhs, a, b>>)
  \/ \E f \in Forms \ {"lit"}, a \in Listed \cup {"x"}, b \in Listed :
        Pure(None) /\ Log(<<"eval", f, a, b, ExprVal(f, a, b)>>)

Spec == Init /\ [][Next]_vars
Bounded == TLCGet("level") < MaxLevel
View == <<order, feat, P>>

(* ---- properties ------------------------------------------------------------ *)
Aligned   == \A i \in Obs : Len(feat[i]) = Len(order)
Bijective == \A j, k \in DOMAIN order : order[j] = order[k] => j = k
NoTemps   == \A n \in Listed : n \in Names
TypeOK    == Listed \subseteq Names /\ Aligned

\* frame condition: a step changes at most ONE column (or one coordinate column); removing a
\* feature never alters what is read under the remaining names
ColsOf(ord, ft) == [n \in Range(ord) |-> [i \in Obs |-> ft[i][CHOOSE k \in DOMAIN ord : ord[k] = n]]]
Frame == [][ LET c0 == ColsOf(order, feat)
                 c1 == ColsOf(order', feat')
                 changedCols == {n \in DOMAIN c0 \cap DOMAIN c1 : c0[n] # c1[n]}
                 changedP == {c \in Coords : P[c] # P'[c]}
             IN /\ Cardinality(changedCols) + Cardinality(changedP) <= 1
                /\ Cardinality((DOMAIN c0 \ DOMAIN c1) \cup (DOMAIN c1 \ DOMAIN c0)) <= 1
                /\ (DOMAIN c1 # DOMAIN c0 => changedCols = {} /\ changedP = {}) ]_vars
=============================================================================
