-------------------------------- MODULE Frames --------------------------------
(***************************************************************************)
(* C14 - coordinate conversions round-trip (GeoCoords / ECEFCoords /         *)
(* ENUCoords, Lambert-93, Track.to*Coords).                                   *)
(*                                                                         *)
(* TLC has neither reals nor trigonometry: the model is the state machine of   *)
(* FRAMES.  A track holds observations that denote fixed abstract positions;     *)
(* `real` is the frame in which the stored triples really express them,           *)
(* `srid` / `base` is what the Track object believes (class of the coordinates     *)
(* and recorded base).  Each conversion re-expresses the triples from the frame     *)
(* the library ASSUMES into the requested one, so the abstract positions are          *)
(* preserved exactly when the assumption is right:                                     *)
(*   Denotes == the assumed source frame of every step is the real one.                 *)
(* Properties: Denotes for every legal history; BaseRecorded (srid = ENU => the           *)
(* recorded base is the real base; Lambert-93 recorded as its SRID number);                *)
(* a conversion never changes the recorded base unless it projects.                          *)
(* Legacy = TRUE makes the ENU -> ENU re-basing forget to record the new base (refuted).       *)
(* Run as a generator the model prints every history with, per step, the frame and base         *)
(* the specification assigns; the driver replays it on real Tracks and coordinate objects        *)
(* over a lattice of positions / bases and maps each concrete triple back to the abstract         *)
(* position with an independent WGS84 reference (spec -> code).                                    *)
(***************************************************************************)
EXTENDS Integers, Sequences, FiniteSets, TLC, Json

CONSTANTS Depth, Emit, Legacy, Mode
VARIABLES srid, base, real, hist, ok
vars == <<srid, base, real, hist, ok>>

\* frames: <<"Geo">>, <<"ECEF">>, <<"ENU", b>> with b in Bases, <<"L93">>
Bases == {"B1", "B2", "first"}          \* "first" = the position of the first observation (default of Track.toENUCoords())
NoBase == "none"
L93 == "2154"
\* kind: how the base argument is handed over - "none" (omitted: the recorded base is used), "geo" / "ecef" (an explicit
\* GeoCoords / ECEFCoords object equal to the base; the caller's objects are constants: no conversion may modify them)
Kinds == {"none", "geo", "ecef"}
\* the default base ("first") exists only as the library derived it from the track: it can only be used implicitly
KindsFor(b) == IF b = "first" THEN {"none"} ELSE Kinds
Log(a, arg, kind) == hist' = Append(hist, [a |-> a, arg |-> arg, kind |-> kind, srid |-> srid', base |-> base', real |-> real'])

\* Track.toECEFCoords(base = None)
ToECEF ==
   \/ /\ srid = "Geo" /\ srid' = "ECEF" /\ real' = <<"ECEF">> /\ UNCHANGED base
      /\ ok' = (ok /\ real = <<"Geo">>) /\ Log("toECEF", NoBase, "none")
   \/ /\ srid = "ENU" /\ base \in Bases /\ srid' = "ECEF" /\ real' = <<"ECEF">> /\ UNCHANGED base      \* recorded base, or the same base given explicitly
      /\ ok' = (ok /\ real = <<"ENU", base>>) /\ \E kd \in KindsFor(base) : Log("toECEF", base, kd)
\* Track.toENUCoords(b)   (b = "first": no argument, the first observation is used)
ToENU(b) ==
   \/ /\ srid \in {"Geo", "ECEF"} /\ srid' = "ENU" /\ base' = b /\ real' = <<"ENU", b>>
      /\ ok' = (ok /\ real = <<srid>>) /\ \E kd \in (IF b = "first" THEN {"none"} ELSE {"geo", "ecef"}) : Log("toENU", b, kd)
   \/ /\ srid = "ENU" /\ base \in Bases /\ b # "first" /\ srid' = "ENU"
      /\ base' = (IF Legacy THEN base ELSE b) /\ real' = <<"ENU", b>>
      /\ ok' = (ok /\ real = <<"ENU", base>>) /\ \E kd \in {"geo", "ecef"} : Log("toENU", b, kd)
\* Track.toGeoCoords(base = None)
ToGeo ==
   \/ /\ srid = "ECEF" /\ srid' = "Geo" /\ real' = <<"Geo">> /\ UNCHANGED base
      /\ ok' = (ok /\ real = <<"ECEF">>) /\ Log("toGeo", NoBase, "none")
   \/ /\ srid = "ENU" /\ base \in Bases /\ srid' = "Geo" /\ real' = <<"Geo">> /\ UNCHANGED base
      /\ ok' = (ok /\ real = <<"ENU", base>>) /\ \E kd \in KindsFor(base) : Log("toGeo", base, kd)
   \/ /\ srid = "ENU" /\ base = L93 /\ srid' = "Geo" /\ real' = <<"Geo">> /\ UNCHANGED base       \* inverse projection
      /\ ok' = (ok /\ real = <<"L93">>) /\ Log("toGeo", NoBase, "none")
\* Track.toProjCoords(2154)
ToProj == /\ srid = "Geo" /\ srid' = "ENU" /\ base' = L93 /\ real' = <<"L93">>
          /\ ok' = (ok /\ real = <<"Geo">>) /\ Log("toProj", L93, "none")

Init == Mode = "mc" /\ srid = "Geo" /\ base = NoBase /\ real = <<"Geo">> /\ hist = <<>> /\ ok = TRUE
Next == /\ Len(hist) < Depth
        /\ (ToECEF \/ (\E b \in Bases : ToENU(b)) \/ ToGeo \/ ToProj)
        /\ (~Emit \/ Len(hist') < Depth \/ PrintT(ToJson([hist |-> hist'])))
Spec == Init /\ [][Next]_vars

Denotes == ok
BaseRecorded == /\ (srid = "ENU" /\ real[1] = "ENU") => base = real[2]
                /\ real = <<"L93">> => (srid = "ENU" /\ base = L93)
                /\ srid \in {"Geo", "ECEF"} => real = <<srid>>
\* only projections change the recorded base
BaseStable == [][base' # base => (srid' = "ENU" /\ (real'[1] = "L93" \/ base' = real'[2]))]_vars
=============================================================================
