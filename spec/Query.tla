-------------------------------- MODULE Query --------------------------------
(***************************************************************************)
(* Growth next to C01 / C02: Track.query, the SQL-like selector over the      *)
(* feature table ("SELECT ... WHERE ...").                                     *)
(*                                                                         *)
(* A query is [sel, where]:                                                   *)
(*   where = a disjunction of conjunctions of conditions <<field, op, thr>>     *)
(*           (no parentheses: AND binds tighter than OR), <<>> = no WHERE;       *)
(*   sel   = "*" | a list of fields | a list of <<aggregator, field>>.            *)
(* Meaning : Rows(q) = the observations, in order, satisfying the WHERE clause     *)
(*           (a comparison with NaN is false, except !=);                           *)
(*           "*" -> those observations with their whole feature table;               *)
(*           fields -> one list of values per field; aggregators -> one value per      *)
(*           aggregator over the selected values (a single aggregator yields the        *)
(*           bare value).  COUNT counts the selected rows.  An aggregate over an empty    *)
(*           selection is left open (Undef).                                              *)
(* The generator prints every enumerated query as the string the user would type and       *)
(* the result the specification assigns; the driver runs Track.query (spec -> code).         *)
(***************************************************************************)
EXTENDS Rat, TLC, Json, FiniteSets

CONSTANTS Mode, Emit, Family       \* Family: "where" | "select"
VARIABLES q, ph
vars == <<q, ph>>

N == 5
Col(f) == CASE f = "a" -> <<R(1), R(2), R(2), R(3), R(0)>>
            [] f = "b" -> <<R(0), NaN, R(2), R(-1), R(2)>>
            [] f = "x" -> <<R(5), R(4), R(3), R(2), R(1)>>
Fields == {"a", "b", "x"}
Ops == {"<", ">", "<=", ">=", "==", "!="}
Thr == {1, 2}
Conds == {<<f, o, t>> : f \in Fields, o \in Ops, t \in Thr}

Sat(c, i) == LET v == Col(c[1])[i]
                 t == R(c[3])
             IN IF IsNaN(v) THEN c[2] = "!="
                ELSE CASE c[2] = "<" -> RLt(v, t) [] c[2] = ">" -> RLt(t, v) [] c[2] = "<=" -> RLe(v, t)
                       [] c[2] = ">=" -> RLe(t, v) [] c[2] = "==" -> v = t [] c[2] = "!=" -> v # t
\* where: sequence (OR) of sequences (AND) of conditions
Holds(w, i) == w = <<>> \/ \E k \in DOMAIN w : \A j \in DOMAIN w[k] : Sat(w[k][j], i)
RowsOf(w) == SelectSeq([i \in 1..N |-> i], LAMBDA i : Holds(w, i))
Vals(f, rows) == [k \in DOMAIN rows |-> Col(f)[rows[k]]]

Nums(u) == FilterNum(u)
MinNum(s) == CHOOSE m \in {s[i] : i \in DOMAIN s} : \A i \in DOMAIN s : RLe(m, s[i])
MaxNum(s) == CHOOSE m \in {s[i] : i \in DOMAIN s} : \A i \in DOMAIN s : RLe(s[i], m)
FirstIdx(u, v) == CHOOSE i \in DOMAIN u : u[i] = v /\ \A j \in DOMAIN u : u[j] = v => i <= j
Aggs == {"SUM", "AVG", "COUNT", "MIN", "MAX", "MEDIAN", "ARGMIN", "ARGMAX"}
Agg(g, u) ==
   LET s == Nums(u) IN
   IF u = <<>> THEN Undef
   ELSE CASE g = "COUNT" -> R(Len(u))
          [] g = "SUM" -> SeqSum(s)
          [] g = "AVG" -> IF s = <<>> THEN Undef ELSE RDiv(SeqSum(s), R(Len(s)))
          [] g = "MIN" -> IF s = <<>> THEN Undef ELSE MinNum(s)
          [] g = "MAX" -> IF s = <<>> THEN Undef ELSE MaxNum(s)
          [] g = "MEDIAN" -> IF Len(s) # Len(u) THEN Undef ELSE MedianNum(s)
          [] g = "ARGMIN" -> IF s = <<>> THEN Undef ELSE R(FirstIdx(u, MinNum(s)) - 1)
          [] g = "ARGMAX" -> IF s = <<>> THEN Undef ELSE R(FirstIdx(u, MaxNum(s)) - 1)

\* result: [kind |-> "rows", rows] | [kind |-> "cols", cols] | [kind |-> "aggs", vals]
Result(qq) ==
   LET rows == RowsOf(qq.where) IN
   IF qq.sel[1][1] = "s" THEN [kind |-> "rows", rows |-> rows, cols |-> <<>>, vals |-> <<>>]
   ELSE IF qq.sel[1][1] = "f" THEN [kind |-> "cols", rows |-> rows, cols |-> [k \in DOMAIN qq.sel |-> Vals(qq.sel[k][2], rows)], vals |-> <<>>]
   ELSE [kind |-> "aggs", rows |-> rows, cols |-> <<>>, vals |-> [k \in DOMAIN qq.sel |-> Agg(qq.sel[k][2], Vals(qq.sel[k][3], rows))]]

(* ---- concrete syntax ------------------------------------------------------------------ *)
Str(n) == CASE n = 0 -> "0" [] n = 1 -> "1" [] n = 2 -> "2" [] n = 3 -> "3"
CondStr(c) == c[1] \o " " \o c[2] \o " " \o Str(c[3])
RECURSIVE JoinWith(_, _)
JoinWith(s, sep) == IF Len(s) = 1 THEN s[1] ELSE s[1] \o sep \o JoinWith(Tail(s), sep)
WhereStr(w) == JoinWith([k \in DOMAIN w |-> JoinWith([j \in DOMAIN w[k] |-> CondStr(w[k][j])], " AND ")], " OR ")
Star == << <<"s">> >>
SelStr(s) == IF s[1][1] = "s" THEN "*"
             ELSE JoinWith([k \in DOMAIN s |-> IF s[k][1] = "f" THEN s[k][2] ELSE s[k][2] \o "(" \o s[k][3] \o ")"], ", ")
QueryStr(qq) == "SELECT " \o SelStr(qq.sel) \o (IF qq.where = <<>> THEN "" ELSE " WHERE " \o WhereStr(qq.where))

(* ---- enumeration ------------------------------------------------------------------------- *)
SomeConds == {<<"a", ">=", 2>>, <<"b", "!=", 2>>, <<"x", "<", 2>>, <<"b", "<=", 1>>}
Wheres1 == {<<>>} \cup {<< <<c>> >> : c \in Conds}
Wheres2 == {<< <<c, d>> >> : c \in Conds, d \in Conds} \cup {<< <<c>>, <<d>> >> : c \in Conds, d \in Conds}
SelF(f) == <<"f", f>>
SelA(g, f) == <<"a", g, f>>
Init == Mode = "mc" /\ ph = 0 /\
        IF Family = "where" THEN q \in {[sel |-> s, where |-> w] : s \in {Star, << SelF("a") >>}, w \in Wheres1}
        ELSE q \in {[sel |-> s, where |-> <<>>] : s \in {Star} \cup {<<SelF(f)>> : f \in Fields} \cup {<<SelF(f), SelF(g)>> : f \in Fields, g \in Fields}
                                                          \cup {<<SelA(g, f)>> : g \in Aggs, f \in Fields}
                                                          \cup {<<SelA(g, "a"), SelA(h, "b")>> : g \in Aggs, h \in Aggs}}
Next == /\ ph = 0 /\ ph' = 1
        /\ IF Family = "where"
           THEN \E w \in Wheres2 \cup {<< <<c, d>>, <<e>> >> : c \in SomeConds, d \in Conds, e \in SomeConds}
                             \cup {<< <<e>>, <<c, d>> >> : c \in SomeConds, d \in Conds, e \in SomeConds} : q' = [q EXCEPT !.where = w]
           ELSE \E w \in Wheres1 \cup {<< <<c, d>> >> : c \in SomeConds, d \in SomeConds} \cup {<< <<c>>, <<d>> >> : c \in SomeConds, d \in SomeConds} :
                   q' = [q EXCEPT !.where = w]
Spec == Init /\ [][Next]_vars
Emitted == ~Emit \/ PrintT(ToJson([s |-> QueryStr(q), res |-> Result(q)]))
\* sanity of the definition: the selected rows are exactly those satisfying the clause, in order; AND binds tighter than OR
RowsSound == (LET r == RowsOf(q.where) IN
                 /\ \A k \in 1..(Len(r) - 1) : r[k] < r[k + 1]
                 /\ {r[k] : k \in DOMAIN r} = {i \in 1..N : Holds(q.where, i)}) /\ Emitted
=============================================================================
