------------------------------ MODULE ExprEval ------------------------------
(***************************************************************************)
(* C02 - algebraic feature expressions of tracklib (Track.operate(str)).   *)
(*                                                                         *)
(* Trees:  <<"L", name>>            leaf: feature name or literal          *)
(*         <<"B", op, l, r>>        op in + - * / ^ < >                    *)
(*         <<"N", t>>               unary minus                            *)
(*         <<"F", f, t>>            documented function / D, I shorthand   *)
(* Denote  = the documented meaning, ordinary arithmetic on exact          *)
(*           rationals (Rat.tla), pointwise on the observations.           *)
(* Render  = the concrete syntax (minimal or full parentheses), such that  *)
(*           the usual precedence / left associativity reads it back as    *)
(*           the same tree.                                                *)
(* RPN     = transcription of the implementation's splitter (makeRPN: the  *)
(*           right-most depth-0 operator of the lowest class) after the    *)
(*           implementation's rewriting passes; TLC checks                 *)
(*           TreeOf(RPN(Rewrite(Render(t)))) = t for every enumerated tree.*)
(* The generator prints, for every tree and environment, the string and    *)
(* the vector the specification assigns to it (spec -> code replay).       *)
(***************************************************************************)
EXTENDS Rat, TLC, Json, FiniteSets, IOUtils

CONSTANTS Mode,        \* "enum": enumerate trees;  "file": tree shapes proposed in TRACE_FILE
          Leaves,      \* leaf alphabet of the enumeration
          BinOps,      \* binary operators of the enumeration
          Funs,        \* functions added at the root / at one operand
          Emit,        \* print (string, env, value)
          SampleMod, SampleRes   \* emit only trees with Code(t) % SampleMod = SampleRes

VARIABLES tree, phase
vars == <<tree, phase>>

Lits == {"0", "1", "2", "3", "0.5"}
LitVal(s) == CASE s = "0" -> R(0) [] s = "1" -> R(1) [] s = "2" -> R(2) [] s = "3" -> R(3) [] s = "0.5" -> <<1, 2>>

(* ---- environments: tracks with features a, b and coordinates ------------- *)
Envs == <<
  [n |-> 1, a |-> <<R(2)>>,                  b |-> <<R(-1)>>,               x |-> <<R(3)>>],
  [n |-> 2, a |-> <<R(0), R(-2)>>,           b |-> <<R(3), R(3)>>,          x |-> <<R(1), R(4)>>],
  [n |-> 3, a |-> <<R(1), NaN, R(-2)>>,      b |-> <<R(0), R(2), R(2)>>,    x |-> <<R(2), R(2), R(5)>>],
  [n |-> 4, a |-> <<R(4), R(0), R(-1), R(0)>>, b |-> <<R(1), R(1), R(2), R(3)>>, x |-> <<R(0), R(1), R(2), R(3)>>],
  [n |-> 3, a |-> <<R(4), R(0), R(-1)>>,     b |-> <<R(2), R(-3), R(1)>>,   x |-> <<R(-1), R(0), R(2)>>] >>
Column(e, name) ==
   CASE name = "a" -> e.a [] name = "b" -> e.b [] name = "x" -> e.x
     [] name = "y" -> [i \in 1..e.n |-> R(10 + i)]
     [] name = "z" -> [i \in 1..e.n |-> R(-i)]
     [] name = "t" -> [i \in 1..e.n |-> R(5 * i)]
     [] name = "idx" -> [i \in 1..e.n |-> R(i - 1)]

(* ---- meaning ---------------------------------------------------------------- *)
Map2(f(_, _), u, v) == [i \in DOMAIN u |-> f(u[i], v[i])]
BinVal(op, p, q) == CASE op = "+" -> RAdd(p, q) [] op = "-" -> RSub(p, q) [] op = "*" -> RMul(p, q)
                      [] op = "/" -> RDiv(p, q) [] op = "^" -> RPow(p, q)
                      [] op = "<" -> RBelow(p, q) [] op = ">" -> RAbove(p, q)
Bc(n, v) == [i \in 1..n |-> v]
AnyUndef(u) == \E i \in DOMAIN u : IsUndef(u[i])
Nums(u) == FilterNum(u)
RECURSIVE RunSum(_, _)
\* Integrator: out[1] = 0, out[i] = out[i-1] + u[i]
RunSum(u, i) == IF i = 1 THEN Zero ELSE RAdd(RunSum(u, i - 1), u[i])
FirstIdx(u, v) == CHOOSE i \in DOMAIN u : u[i] = v /\ \A j \in DOMAIN u : u[j] = v => i <= j
MinNum(s) == CHOOSE m \in {s[i] : i \in DOMAIN s} : \A i \in DOMAIN s : RLe(m, s[i])
MaxNum(s) == CHOOSE m \in {s[i] : i \in DOMAIN s} : \A i \in DOMAIN s : RLe(s[i], m)
Mean(s) == RDiv(SeqSum(s), R(Len(s)))
FunVal(f, u) ==
  LET n == Len(u)  s == Nums(u) IN
  IF AnyUndef(u) \/ (\E i \in DOMAIN u : Big(u[i])) THEN Bc(n, Undef) ELSE
  CASE f = "D"     -> [i \in 1..n |-> IF i = 1 THEN NaN ELSE RSub(u[i], u[i - 1])]
    [] f = "D2"    -> [i \in 1..n |-> IF i = 1 \/ i = n THEN NaN ELSE RAdd(RSub(u[i + 1], RMul(R(2), u[i])), u[i - 1])]
    [] f = "I"     -> [i \in 1..n |-> RunSum(u, i)]
    [] f = "ABS"   -> [i \in 1..n |-> RAbs(u[i])]
    [] f = "SIGN"  -> [i \in 1..n |-> IF IsNaN(u[i]) THEN Undef ELSE IF u[i][1] >= 0 THEN One ELSE R(-1)]
    [] f = "DIODE" -> [i \in 1..n |-> IF IsNaN(u[i]) THEN NaN ELSE IF u[i][1] > 0 THEN u[i] ELSE Zero]
    [] f = "SUM"   -> Bc(n, SeqSum(s))
    [] f = "AVG"   -> Bc(n, IF s = <<>> THEN Undef ELSE Mean(s))
    [] f = "VAR"   -> Bc(n, IF s = <<>> THEN Undef ELSE
                            LET m == Mean(s) IN Mean([i \in DOMAIN s |-> RMul(RSub(s[i], m), RSub(s[i], m))]))
    [] f = "MSE"   -> Bc(n, IF s = <<>> THEN Undef ELSE Mean([i \in DOMAIN s |-> RMul(s[i], s[i])]))
    [] f = "MIN"   -> Bc(n, IF s = <<>> THEN Undef ELSE MinNum(s))
    [] f = "MAX"   -> Bc(n, IF s = <<>> THEN Undef ELSE MaxNum(s))
    [] f = "ARGMIN" -> Bc(n, IF s = <<>> THEN Undef ELSE R(FirstIdx(u, MinNum(s)) - 1))
    [] f = "ARGMAX" -> Bc(n, IF s = <<>> THEN Undef ELSE R(FirstIdx(u, MaxNum(s)) - 1))
    [] f = "MEDIAN" -> Bc(n, IF Len(s) # n THEN Undef ELSE MedianNum(s))
    [] f = "MAD"    -> Bc(n, MedianNum([i \in DOMAIN s |-> RAbs(s[i])]))

\* A sub-tree whose value passes through a division (/, ^ with a negative exponent, the means inside AVG / VAR / MSE) is
\* computed by the implementation in binary floating point with rounding: where the specification's exact value makes a
\* DISCRETE decision on an exact tie (a comparison of equal values, the sign of zero, the position of a repeated extremum)
\* the implementation's rounding noise may fall either way, so nothing is claimed there (Undef).  Values that differ, and
\* every continuous result, are still compared.
RECURSIVE Inexact(_)
Inexact(t) == CASE t[1] = "L" -> FALSE
                [] t[1] = "B" -> t[2] \in {"/", "^"} \/ Inexact(t[3]) \/ Inexact(t[4])
                [] t[1] = "N" -> Inexact(t[2])
                [] t[1] = "F" -> t[2] \in {"AVG", "VAR", "MSE"} \/ Inexact(t[3])
Repeated(u, v) == Cardinality({i \in DOMAIN u : u[i] = v}) > 1
RECURSIVE Denote(_, _)
Denote(t, e) ==
  CASE t[1] = "L" -> IF t[2] \in Lits THEN Bc(e.n, LitVal(t[2])) ELSE Column(e, t[2])
    [] t[1] = "B" -> LET u == Denote(t[3], e)  v == Denote(t[4], e)
                         noisy == t[2] \in {"<", ">"} /\ (Inexact(t[3]) \/ Inexact(t[4]))
                     IN [i \in 1..e.n |-> IF noisy /\ IsNum(u[i]) /\ u[i] = v[i] THEN Undef ELSE BinVal(t[2], u[i], v[i])]
    [] t[1] = "N" -> LET u == Denote(t[2], e) IN [i \in 1..e.n |-> RNeg(u[i])]
    [] t[1] = "F" -> LET u == Denote(t[3], e)
                         r == FunVal(t[2], u)
                         s == Nums(u)
                     IN IF ~Inexact(t[3]) \/ AnyUndef(u) THEN r
                        ELSE IF t[2] = "SIGN" THEN [i \in 1..e.n |-> IF u[i] = Zero THEN Undef ELSE r[i]]
                        ELSE IF t[2] = "ARGMIN" /\ s # <<>> /\ Repeated(u, MinNum(s)) THEN Bc(e.n, Undef)
                        ELSE IF t[2] = "ARGMAX" /\ s # <<>> /\ Repeated(u, MaxNum(s)) THEN Bc(e.n, Undef)
                        ELSE r

\* a sub-tree made of literals only is a scalar for the implementation; functions need a feature
RECURSIVE HasFeature(_)
HasFeature(t) == CASE t[1] = "L" -> t[2] \notin Lits
                   [] t[1] = "B" -> HasFeature(t[3]) \/ HasFeature(t[4])
                   [] t[1] = "N" -> HasFeature(t[2])
                   [] t[1] = "F" -> TRUE
RECURSIVE InDomain(_)
InDomain(t) == CASE t[1] = "L" -> TRUE
                 [] t[1] = "B" -> InDomain(t[3]) /\ InDomain(t[4])
                 [] t[1] = "N" -> InDomain(t[2])
                 [] t[1] = "F" -> HasFeature(t[3]) /\ InDomain(t[3])

(* ---- concrete syntax ---------------------------------------------------------- *)
Prec(op) == CASE op \in {"<", ">"} -> 1 [] op \in {"+", "-"} -> 2 [] op \in {"*", "/"} -> 3 [] op = "^" -> 4
Par(s) == <<"(">> \o s \o <<")">>
RECURSIVE Render(_, _)
\* style "min": minimal parentheses; "full": every compound operand parenthesised
Render(t, style) ==
  CASE t[1] = "L" -> <<t[2]>>
    [] t[1] = "F" -> <<t[2], "{">> \o Render(t[3], style) \o <<"}">>
    [] t[1] = "N" -> LET u == t[2]  r == Render(u, style) IN
                     <<"-">> \o (IF u[1] = "N" \/ (u[1] = "B" /\ (style = "full" \/ Prec(u[2]) <= 2)) THEN Par(r) ELSE r)
    [] t[1] = "B" ->
        LET l == t[3]  r == t[4]  sl == Render(l, style)  sr == Render(r, style)
            lp == IF l[1] = "N" \/ (l[1] = "B" /\ (style = "full" \/ Prec(l[2]) < Prec(t[2]))) THEN Par(sl) ELSE sl
            rp == IF r[1] = "N" \/ (r[1] = "B" /\ (style = "full" \/ Prec(r[2]) <= Prec(t[2]))) THEN Par(sr) ELSE sr
        IN lp \o <<t[2]>> \o rp
RECURSIVE Join(_)
Join(s) == IF s = <<>> THEN "" ELSE Head(s) \o Join(Tail(s))

(* ---- the implementation's pipeline on token sequences -------------------------- *)
\* rewriting: F{..} -> F@(..) ; leading '-' -> '0-' ; '(-' -> '(0-'
RECURSIVE Rewrite(_, _)
Rewrite(s, k) == IF k > Len(s) THEN <<>>
                 ELSE IF s[k] = "{" THEN <<"@", "(">> \o Rewrite(s, k + 1)
                 ELSE IF s[k] = "}" THEN <<")">> \o Rewrite(s, k + 1)
                 ELSE IF s[k] = "-" /\ (k = 1 \/ s[k - 1] = "(" \/ s[k - 1] = "{") THEN <<"0", "-">> \o Rewrite(s, k + 1)
                 ELSE <<s[k]>> \o Rewrite(s, k + 1)
Classes == << {"<", ">"}, {"+", "-"}, {"*", "/"}, {"^"}, {"@"} >>
RECURSIVE ScanF(_, _, _, _)
\* right-most depth-0 position holding a token of class cls, 0 if none (scan from the right)
ScanF(s, cls, p, depth) == IF p = 0 THEN 0 ELSE
      LET d1 == IF s[p] = ")" THEN depth + 1 ELSE IF s[p] = "(" THEN depth - 1 ELSE depth
      IN IF d1 = 0 /\ s[p] \in cls THEN p ELSE ScanF(s, cls, p - 1, d1)
RECURSIVE RPN(_)
RPN(s) == LET P == [k \in 1..Len(Classes) |-> ScanF(s, Classes[k], Len(s), 0)]
              hit == {k \in DOMAIN P : P[k] # 0} IN
          IF hit # {} THEN LET k == CHOOSE k \in hit : \A j \in hit : k <= j
                               p == P[k]
                           IN RPN(SubSeq(s, 1, p - 1)) \o RPN(SubSeq(s, p + 1, Len(s))) \o <<s[p]>>
          ELSE IF s[1] = "(" THEN RPN(SubSeq(s, 2, Len(s) - 1)) ELSE s
AllOps == {"<", ">", "+", "-", "*", "/", "^"}
RECURSIVE Stack(_, _)
Stack(rpn, st) == IF rpn = <<>> THEN st
                  ELSE LET h == Head(rpn)  n == Len(st) IN
                       IF h \in AllOps THEN Stack(Tail(rpn), SubSeq(st, 1, n - 2) \o << <<"B", h, st[n - 1], st[n]>> >>)
                       ELSE IF h = "@" THEN Stack(Tail(rpn), SubSeq(st, 1, n - 2) \o << <<"F", st[n - 1][2], st[n]>> >>)
                       ELSE Stack(Tail(rpn), Append(st, <<"L", h>>))
TreeOf(rpn) == Stack(rpn, <<>>)[1]
\* unary minus is implemented as 0 - t
RECURSIVE Desugar(_)
Desugar(t) == CASE t[1] = "L" -> t
                [] t[1] = "B" -> <<"B", t[2], Desugar(t[3]), Desugar(t[4])>>
                [] t[1] = "N" -> <<"B", "-", <<"L", "0">>, Desugar(t[2])>>
                [] t[1] = "F" -> <<"F", t[2], Desugar(t[3])>>
ParsesBack(t) == /\ TreeOf(RPN(Rewrite(Render(t, "min"), 1))) = Desugar(t)
                 /\ TreeOf(RPN(Rewrite(Render(t, "full"), 1))) = Desugar(t)

\* Reflexive assignment  name op= rhs : the implementation rewrites it to  name = name op (rhs)  before the pipeline above,
\* so it stores under `name' the value of the tree  name op rhs.
ReflexOps == {"+", "-", "*", "/", "^"}
IsReflexive(t) == t[1] = "B" /\ t[2] \in ReflexOps /\ t[3][1] = "L" /\ t[3][2] \in {"a", "b"}
ReflexString(t) == IF IsReflexive(t) THEN t[3][2] \o t[2] \o "=" \o Join(Render(t[4], "min")) ELSE ""
ReflexParsesBack(t) == IsReflexive(t) =>
   TreeOf(RPN(Rewrite(<<t[3][2], t[2], "(">> \o Render(t[4], "min") \o <<")">>, 1))) = Desugar(t)

(* ---- enumeration ---------------------------------------------------------------- *)
LeafT == {<<"L", x>> : x \in Leaves}
T2 == LeafT \cup {<<"B", o, l, r>> : o \in BinOps, l \in LeafT, r \in LeafT}
RECURSIVE Code(_)
Code(t) == CASE t[1] = "L" -> Len(t[2]) + (IF t[2] \in Lits THEN 3 ELSE 7)
             [] t[1] = "B" -> (31 * Code(t[3]) + 17 * Code(t[4]) + Prec(t[2]) + Len(t[2])) % 10007
             [] t[1] = "N" -> (Code(t[2]) * 3 + 1) % 10007
             [] t[1] = "F" -> (Code(t[3]) * 5 + Len(t[2])) % 10007

FileTrees == IF Mode = "file" THEN ndJsonDeserialize(IOEnv.TRACE_FILE) ELSE <<>>

Out(t) == [tree |-> t, s |-> Join(Render(t, "min")), sf |-> Join(Render(t, "full")), rs |-> ReflexString(t),
           vals |-> [k \in DOMAIN Envs |-> Denote(t, Envs[k])]]
\* one-node trees are never sampled away: they are the ones also applied as operator OBJECTS (separate output and in place)
OneNode(t) == (t[1] = "B" /\ t[3][1] = "L" /\ t[4][1] = "L") \/ (t[1] = "F" /\ t[3][1] = "L")
Show(t) == (Emit /\ InDomain(t) /\ (Code(t) % SampleMod = SampleRes \/ OneNode(t))) => PrintT(ToJson(Out(t)))

Init == IF Mode = "enum" THEN tree \in T2 /\ phase = "left"
        ELSE tree = <<"L", "0">> /\ phase = 0

\* from a left operand: the tree itself, with a function / negation at the root, and every
\* depth-3 tree having it as left operand (also with a function around the right operand)
Grow == /\ Mode = "enum" /\ phase = "left"
        /\ \/ tree' = tree
           \/ \E f \in Funs : tree' = <<"F", f, tree>>
           \/ tree' = <<"N", tree>>
           \/ \E o \in BinOps, r \in T2 : tree' = <<"B", o, tree, r>>
           \/ \E o \in BinOps, r \in LeafT, f \in Funs : tree' = <<"B", o, tree, <<"F", f, r>> >>
           \/ \E o \in BinOps, r \in LeafT, f \in Funs : tree' = <<"B", o, <<"F", f, tree>>, r>>
           \/ \E o \in BinOps, r \in LeafT : tree' = <<"B", o, <<"N", tree>>, r>>
           \/ \E o \in BinOps, r \in LeafT : tree' = <<"B", o, r, <<"N", tree>> >>
        /\ phase' = "done"
        /\ Show(tree')
FromFile == /\ Mode = "file" /\ phase < Len(FileTrees)
            /\ phase' = phase + 1
            /\ tree' = FileTrees[phase + 1].t
            /\ (Emit => PrintT(ToJson([id |-> FileTrees[phase + 1].id] @@ Out(tree'))))
Next == Grow \/ FromFile
Spec == Init /\ [][Next]_vars

(* ---- properties -------------------------------------------------------------------- *)
\* precedence, associativity and parentheses: the implementation's splitter reads every rendered
\* tree back as that tree
Precedence == (Mode = "enum" /\ phase = "done") => (ParsesBack(tree) /\ ReflexParsesBack(tree))
\* sanity of the meaning: values are well-formed rationals / tokens on every environment
WellFormedVals == (Mode = "enum" /\ phase = "done" /\ InDomain(tree)) =>
                     \A k \in DOMAIN Envs : LET v == Denote(tree, Envs[k]) IN
                         \A i \in DOMAIN v : v[i][2] >= 0 /\ (v[i][2] = 0 => v[i][1] \in {0, 1})
=============================================================================
