------------------------------- MODULE Simplify -------------------------------
(***************************************************************************)
(* C16 - Douglas-Peucker and Visvalingam simplification                     *)
(* (tracklib.algo.simplification.simplify).                                  *)
(*                                                                         *)
(* pts = the input fixes (integer points, repeats allowed); a result is the  *)
(* list of input positions (1-based) that were kept.                         *)
(* Acceptance : AcceptSimplification - the kept list is strictly increasing   *)
(*              (a subsequence in the original order), holds the first and    *)
(*              the last fix, and for Douglas-Peucker every input fix is      *)
(*              within the tolerance of the simplified polyline (exact         *)
(*              squared distances, Geo2D).  A call that raises is rejected.    *)
(* Algorithms : DP  - farthest fix from the chord (first maximum, strict >),   *)
(*              stop when dmax < eps, else recurse on L[0:imax] and L[imax:n]; *)
(*              Legacy: the chord length divides, so a zero-length chord       *)
(*              (first = last fix of a sub-run) raises.                        *)
(*              VIS - repeatedly drop the fix of least triangle area while      *)
(*              area <= eps^2, recomputing both neighbours; Legacy: the first   *)
(*              fix gets an area from the wrap-around triangle (last, first,    *)
(*              second) and is eligible.                                        *)
(* TLC checks both transcriptions against the acceptance predicate on every     *)
(* lattice track and refutes the Legacy variants.                               *)
(***************************************************************************)
EXTENDS Geo2D, FiniteSets, TLC

CONSTANTS MaxFix,       \* tracks of 2..MaxFix fixes
          LatS,         \* on the lattice (0..LatS)^2
          Tol2x100,     \* squared tolerances, in hundredths
          Legacy,
          Mode
VARIABLES pts, tol2, ph
vars == <<pts, tol2, ph>>

(* ---- acceptance --------------------------------------------------------------- *)
Sub(p, out) == [k \in DOMAIN out |-> p[out[k]]]
AcceptSimplification(p, t2, out, isDP) ==
   IF \E k \in DOMAIN out : ~(out[k] \in DOMAIN p) THEN "result_holds_a_foreign_observation"
   ELSE IF \E k \in 1..(Len(out) - 1) : out[k] >= out[k + 1] THEN "not_a_subsequence_in_original_order"
   ELSE IF out = <<>> \/ out[1] # 1 THEN "first_observation_missing"
   ELSE IF out[Len(out)] # Len(p) THEN "last_observation_missing"
   \* (farther than the tolerance from EVERY leg = farther than the tolerance from the nearest one; written leg by leg so that a
   \*  long track only compares each squared distance with the squared tolerance - no products of two large fractions)
   ELSE IF isDP /\ Len(out) >= 2 /\ \E i \in DOMAIN p : \A k \in 1..(Len(out) - 1) : FrLt(t2, D2PointSeg(p[i], p[out[k]], p[out[k + 1]]))
        THEN "observation_farther_than_tolerance_from_simplified_line"
   ELSE "ok"

(* ---- Douglas-Peucker ------------------------------------------------------------ *)
Raise == <<0>>
RECURSIVE DPAlgo(_, _, _)
DPAlgo(p, t2, idx) ==
   LET n == Len(idx) IN
   IF n <= 2 THEN idx
   ELSE LET A == p[idx[1]]
            B == p[idx[n]]
        IN IF Legacy /\ A = B THEN Raise
           ELSE LET d2 == [i \in 1..n |-> D2PointSeg(p[idx[i]], A, B)]
                    \* first index attaining the maximum, provided it is > 0 (dmax starts at 0, strict >)
                    pos == {i \in 1..n : d2[i][1] > 0 /\ \A j \in 1..n : FrLe(d2[j], d2[i])}
                IN IF pos = {} THEN <<idx[1], idx[n]>>
                   ELSE LET imax == CHOOSE i \in pos : \A j \in pos : i <= j IN
                        IF FrLt(d2[imax], t2) THEN <<idx[1], idx[n]>>
                        ELSE LET l == DPAlgo(p, t2, SubSeq(idx, 1, imax - 1))
                                 r == DPAlgo(p, t2, SubSeq(idx, imax, n))
                             IN IF l = Raise \/ r = Raise THEN Raise ELSE l \o r

(* ---- Visvalingam --------------------------------------------------------------------- *)
Inf == 1000000000
Tri2(P0, P1, P2) == GAbs((P1[1] - P0[1]) * (P2[2] - P1[2]) - (P2[1] - P1[1]) * (P1[2] - P0[2]))     \* twice the area
RemoveAt(s, k) == SubSeq(s, 1, k - 1) \o SubSeq(s, k + 1, Len(s))
\* twice the area attached to position k of the remaining index list
Area2(p, idx, k) ==
   LET n == Len(idx) IN
   IF k = n THEN Inf
   ELSE IF k = 1 THEN (IF Legacy THEN Tri2(p[idx[n]], p[idx[1]], p[idx[IF n >= 2 THEN 2 ELSE 1]]) ELSE Inf)
   ELSE Tri2(p[idx[k - 1]], p[idx[k]], p[idx[k + 1]])
RECURSIVE VisLoop(_, _, _, _)
VisLoop(p, t2, idx, ar) ==
   LET n == Len(idx)
       fin == {k \in 1..n : ar[k] < Inf}
   IN IF fin = {} \/ n < 2 THEN idx
      ELSE LET id == CHOOSE k \in fin : (\A j \in fin : ar[k] <= ar[j]) /\ (\A j \in fin : j < k => ar[j] > ar[k]) IN
           \* break when area > eps^2, i.e. ar/2 > t2
           IF ar[id] * t2[2] > 2 * t2[1] THEN idx
           ELSE LET idx2 == RemoveAt(idx, id)
                    ar1 == RemoveAt(ar, id)
                    ar2 == [k \in DOMAIN ar1 |->
                              IF (k = id - 1 /\ id - 1 > 1) \/ (k = id /\ id < Len(idx2)) THEN Area2(p, idx2, k) ELSE ar1[k]]
                IN VisLoop(p, t2, idx2, ar2)
VisAlgo(p, t2) == LET idx == [k \in DOMAIN p |-> k] IN VisLoop(p, t2, idx, [k \in DOMAIN p |-> Area2(p, idx, k)])

(* ---- design check ------------------------------------------------------------------------ *)
LatP == (0..LatS) \X (0..LatS)
Init == Mode = "mc" /\ ph = 0 /\ pts \in UNION {[1..n -> LatP] : n \in 2..(MaxFix - 1)} /\ tol2 = <<1, 1>>
Next == /\ ph = 0 /\ ph' = 1
        /\ \E q \in LatP \cup {<<-1, -1>>} : pts' = IF q = <<-1, -1>> THEN pts ELSE Append(pts, q)
        /\ \E t \in Tol2x100 : tol2' = Frac(t, 100)
Spec == Init /\ [][Next]_vars
DPAccepted == ph = 1 => LET r == DPAlgo(pts, tol2, [k \in DOMAIN pts |-> k]) IN
                        r # Raise /\ AcceptSimplification(pts, tol2, r, TRUE) = "ok"
VisAccepted == ph = 1 => AcceptSimplification(pts, tol2, VisAlgo(pts, tol2), FALSE) = "ok"
=============================================================================
