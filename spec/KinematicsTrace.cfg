SPECIFICATION TSpec
CONSTANTS
  MaxFixK = 2
  NLegs = 1
  Gaps = {}
  Mode = "none"
CHECK_DEADLOCK FALSE
