SPECIFICATION TSpec
CONSTANTS
  CS = 1
  LS = 1
  CX = 1
  CY = 1
  Step = 1
  Mode = "none"
CHECK_DEADLOCK FALSE
