-------------------------- MODULE KernelFilterTrace --------------------------
(* code -> spec for C15: filter outputs recorded from Operator.FILTER / filter_seq / Track.smooth and kernel windows
   recorded from Kernel.toSlidingWindow().  "filt": exact mode (integer weights, outputs as fractions);
   "filta": approximate mode (window * 10^4, outputs * 1000); "kwin": window * 10^6 and floor(support). *)
EXTENDS KernelFilter, IOUtils, Json
VARIABLES l, nbad

Clause(e) == CASE e.ev = "filt" -> AcceptFilter(e.x, e.w, e.bd, e.raised, e.out)
               [] e.ev = "filta" -> AcceptFilterApprox(e.x, e.W, e.bd, e.raised, e.o)
               [] e.ev = "kwin" -> (IF e.raised THEN "raised" ELSE WindowFacts(e.W, e.isup))
               [] OTHER -> "unknown_event"

Cases == ndJsonDeserialize(IOEnv.TRACE_FILE)
Bt == INSTANCE Batch WITH Clause <- Clause, Cases <- Cases
TSpec == Bt!TInit /\ x = <<>> /\ w = <<1>> /\ bd = FALSE /\ ph = 2 /\ [][Bt!TNext /\ UNCHANGED vars]_<<l, nbad, vars>>
=============================================================================
