---------------------------- MODULE KinematicsTrace ----------------------------
(* code -> spec for C17: abs_curv and speed columns recorded from computeAbsCurv / estimate_speed (twice each) and
   the observations' positions and timestamps before / after. *)
EXTENDS Kinematics, IOUtils, Json
VARIABLES l, nbad

Clause(e) ==
   LET p == [k \in DOMAIN e.pts |-> <<e.pts[k][1], e.pts[k][2]>>] IN
   IF e.raised THEN "raised"
   ELSE IF e.pre # e.post THEN "positions_or_timestamps_changed"
   ELSE LET a == AcceptAbsCurv(p, e.abs) IN
        IF a # "ok" THEN a
        ELSE IF e.abs2 # e.abs THEN "repeated_abscissa_computation_differs"
        ELSE IF e.abs3 # e.abs THEN "abscissa_recomputed_after_its_increments_were_stored_differs"
        ELSE LET s == IF e.coarse THEN AcceptSpeedPattern(p, e.ts, e.speed) ELSE AcceptSpeed(p, e.ts, e.speed) IN
             IF s # "ok" THEN s
             ELSE IF e.speed2 # e.speed THEN "repeated_speed_computation_differs"
             ELSE "ok"

Cases == ndJsonDeserialize(IOEnv.TRACE_FILE)
Bt == INSTANCE Batch WITH Clause <- Clause, Cases <- Cases
TSpec == Bt!TInit /\ pts = <<>> /\ ts = <<>> /\ ph = 2 /\ [][Bt!TNext /\ UNCHANGED vars]_<<l, nbad, vars>>
=============================================================================
