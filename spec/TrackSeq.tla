------------------------------ MODULE TrackSeq ------------------------------
(***************************************************************************)
(* C04 - sequence operations of a Track.                                   *)
(* A track is the sequence T of its timestamps; the identity of an         *)
(* observation is its position in the source (the driver tags every Obs    *)
(* with a unique coordinate and feature value).  Each operator is defined  *)
(* by the sequence of source positions it designates.  The hand-rolled     *)
(* binary search used for chronological insertion is transcribed           *)
(* (InsertionIndex) and TLC checks that it terminates with an index that   *)
(* keeps every sorted track sorted.                                        *)
(***************************************************************************)
EXTENDS Integers, Sequences, FiniteSets, TLC, Json

CONSTANTS MaxN,        \* tracks of 0..MaxN observations are enumerated
          Times,       \* timestamp domain (small, so that duplicates occur)
          SearchN,     \* sorted tracks up to this size for the insertion search
          Emit

VARIABLES T, kind
vars == <<T, kind>>

Pos(s) == 1..Len(s)
RECURSIVE AscFrom(_, _, _)
\* the elements of the set S of positions of 1..n, in ascending order
AscFrom(S, p, n) == IF p > n THEN <<>> ELSE (IF p \in S THEN <<p>> ELSE <<>>) \o AscFrom(S, p + 1, n)
Asc(S, n) == AscFrom(S, 1, n)

(* ---- definitions: designated positions ---------------------------------- *)
Extract(s, i, j)   == Asc({p \in Pos(s) : i + 1 <= p /\ p <= j + 1}, Len(s))          \* 0-based inclusive
Span(s, t1, t2)    == LET lo == IF t1 <= t2 THEN t1 ELSE t2
                          hi == IF t1 <= t2 THEN t2 ELSE t1
                      IN Asc({p \in Pos(s) : lo <= s[p] /\ s[p] <= hi}, Len(s))
Every(s, k)        == Asc({p \in Pos(s) : (p - 1) % k = 0}, Len(s))
Pattern(s, pat)    == Asc({p \in Pos(s) : pat[((p - 1) % Len(pat)) + 1] = 1}, Len(s))
DropFirst(s, k)    == Asc({p \in Pos(s) : p > k}, Len(s))
DropLast(s, k)     == Asc({p \in Pos(s) : p <= Len(s) - k}, Len(s))
RemoveIdx(s, S)    == Asc({p \in Pos(s) : (p - 1) \notin S}, Len(s))

IsSorted(s) == \A p \in 1..(Len(s) - 1) : s[p] <= s[p + 1]

(* ---- chronological insertion: transcription of __getInsertionIndex ------ *)
Log2Floor(n) == CHOOSE k \in 0..31 : 2 ^ k <= n /\ n < 2 ^ (k + 1)
AbsI(x) == IF x < 0 THEN -x ELSE x
Half(d) == AbsI(d) \div 2            \* abs(delta >> 1) with the sign chosen by the caller (delta > 0 or < 0 alike)
\* arithmetic shift of a negative number rounds towards -infinity: -1 >> 1 = -1
Shr(d) == IF d >= 0 THEN d \div 2 ELSE -((-d + 1) \div 2)
RECURSIVE Search(_, _, _, _, _)
Search(s, t, id, delta, fuel) ==
   IF delta = 0 \/ fuel = 0 THEN <<id, fuel>>
   ELSE LET id1 == id + delta IN
        IF id1 >= Len(s) THEN Search(s, t, id1, -AbsI(Shr(delta)), fuel - 1)
        ELSE IF id1 = 0 THEN <<id1, fuel>>
        ELSE IF id1 < 0 THEN <<id1, 0>>          \* would index from the end: reported as failure (fuel 0)
        ELSE IF s[id1 + 1] > t THEN Search(s, t, id1, -AbsI(Shr(delta)), fuel - 1)
        ELSE Search(s, t, id1, AbsI(Shr(delta)), fuel - 1)
RECURSIVE Down(_, _, _)
Down(s, t, id) == IF s[id + 1] > t /\ id # 0 THEN Down(s, t, id - 1) ELSE id
RECURSIVE Up(_, _, _)
Up(s, t, id) == IF id < Len(s) /\ s[id + 1] <= t THEN Up(s, t, id + 1) ELSE id
InsertionIndex(s, t) ==
   LET n == Len(s) IN
   IF n = 0 THEN 0
   ELSE IF n = 1 THEN (IF s[1] < t THEN 1 ELSE 0)
   ELSE LET r == Search(s, t, 0, 2 ^ (Log2Floor(n) - 1), 200)
            id == r[1]
        IN IF r[2] = 0 \/ id < 0 \/ id >= n THEN -1 ELSE Up(s, t, Down(s, t, id))
InsertAt(s, k, t) == SubSeq(s, 1, k) \o <<t>> \o SubSeq(s, k + 1, Len(s))

(* ---- acceptance predicates for the non-unique outputs (code -> spec) ----- *)
IsPermOf(r, n) == Len(r) = n /\ {r[p] : p \in Pos(r)} = 1..n
\* sort: result lists source positions; a permutation, non-decreasing in time
AcceptSort(s, r) == IF ~IsPermOf(r, Len(s)) THEN "not_a_permutation"
                    ELSE IF \E p \in 1..(Len(r) - 1) : s[r[p]] > s[r[p + 1]] THEN "not_sorted" ELSE "ok"
\* chronological insert of a new observation (position 0) into a sorted track
AcceptInsert(s, t, r) ==
   LET n == Len(s)
       tm(q) == IF q = 0 THEN t ELSE s[q] IN
   IF Len(r) # n + 1 \/ {r[p] : p \in Pos(r)} # 0..n THEN "not_exactly_one_added"
   ELSE IF \E p, q \in Pos(r) : p < q /\ r[p] # 0 /\ r[q] # 0 /\ r[p] > r[q] THEN "source_order_changed"
   ELSE IF \E p \in 1..n : tm(r[p]) > tm(r[p + 1]) THEN "not_sorted" ELSE "ok"

(* ---- enumeration ------------------------------------------------------------ *)
Seqs(n) == [1..n -> Times]
RECURSIVE SortedSeqs(_)
SortedSeqs(n) == IF n = 0 THEN {<<>>}
                 ELSE {Append(s, t) : s \in SortedSeqs(n - 1), t \in Times} \ {q \in {Append(s, t) : s \in SortedSeqs(n - 1), t \in Times} : n > 1 /\ q[n - 1] > q[n]}
Subsets0(n) == SUBSET (0..(n - 1))
Pats == {<<1>>, <<0>>, <<1, 0>>, <<0, 1>>, <<1, 1, 0>>, <<0, 0, 1>>, <<1, 0, 1>>}
OpCases(s) ==
   LET n == Len(s) IN
   {<<"extract", ij[1], ij[2], Extract(s, ij[1], ij[2])>> : ij \in {q \in (0..(n - 1)) \X (0..(n - 1)) : q[1] <= q[2]}}
   \cup {<<"span", t1, t2, Span(s, t1, t2)>> : t1 \in Times \cup {-1, 99}, t2 \in Times \cup {-1, 99}}
   \cup {<<"every", k, 0, Every(s, k)>> : k \in 1..(n + 1)}
   \cup {<<"pattern", p, 0, Pattern(s, p)>> : p \in Pats}
   \cup {<<"dropfirst", k, 0, DropFirst(s, k)>> : k \in 0..(n + 2)}
   \cup {<<"droplast", k, 0, DropLast(s, k)>> : k \in 0..(n + 2)}
   \cup {<<"remove", S, 0, RemoveIdx(s, S)>> : S \in Subsets0(n)}
   \cup {<<"concat", 0, 0, [p \in 1..(2 * n) |-> p]>>}       \* with a second track whose observations are n+1..2n

(* ---- concatenation and the feature tables of the operands ------------------------------ *)
\* A track lists its features in an ORDER (name -> column) and each of its observations carries its values in that order.
\* t1 + t2 shares the observation objects of both operands, so the result may carry a table only if reading a name through
\* it finds, in every observation, that observation's own value: the column of the name must be the same in both operands.
\* As coded: the table of t1 when both tables are EQUAL AS LISTS, no table otherwise.  LegacyTables = equal as SETS (refuted).
Names == {"f", "g", "h"}
Tables == UNION {{q \in [1..n -> Names] : \A i, j \in 1..n : i # j => q[i] # q[j]} : n \in 0..3}
Col(tab, name) == CHOOSE k \in DOMAIN tab : tab[k] = name
ConcatTable(t1, t2, legacy) ==
   IF legacy THEN (IF Len(t1) = Len(t2) /\ {t1[k] : k \in DOMAIN t1} = {t2[k] : k \in DOMAIN t2} THEN t1 ELSE <<>>)
   ELSE (IF t1 = t2 THEN t1 ELSE <<>>)
OwnValues(t1, t2, r) == \A k \in DOMAIN r : /\ r[k] \in {t1[j] : j \in DOMAIN t1} /\ Col(t1, r[k]) = k
                                             /\ r[k] \in {t2[j] : j \in DOMAIN t2} /\ Col(t2, r[k]) = k

Init == /\ kind \in {"ops", "search", "tables"}
        /\ IF kind = "ops" THEN \E n \in 0..MaxN : T \in Seqs(n)
           ELSE IF kind = "tables" THEN T \in Tables \X Tables
           ELSE \E n \in 0..SearchN : T \in SortedSeqs(n)
Next == /\ kind = "ops" /\ Emit
        /\ PrintT(ToJson([T |-> T, ops |-> OpCases(T)]))
        /\ kind' = "emitted" /\ T' = T
Spec == Init /\ [][Next]_vars

(* ---- properties checked on the model ---------------------------------------- *)
\* whatever the two feature tables, every name readable on t1 + t2 reads each observation's own value; equal tables are kept
ConcatReadsOwnValues == kind = "tables" => /\ OwnValues(T[1], T[2], ConcatTable(T[1], T[2], FALSE))
                                           /\ (T[1] = T[2] => ConcatTable(T[1], T[2], FALSE) = T[1])
ConcatLegacyTables == kind = "tables" => OwnValues(T[1], T[2], ConcatTable(T[1], T[2], TRUE))        \* self-test: REFUTED
\* every operator designates an ascending list of source positions (a sub-sequence in original order)
Ascending(r) == \A p \in 1..(Len(r) - 1) : r[p] < r[p + 1]
OpsAreSubsequences == kind = "ops" => \A c \in OpCases(T) : Ascending(c[4]) /\ (c[1] # "concat" => \A p \in Pos(c[4]) : c[4][p] \in Pos(T))
\* trimming and removal partition the track
Complement == kind = "ops" => \A k \in 0..(Len(T) + 2) :
                 Len(DropFirst(T, k)) = (IF k >= Len(T) THEN 0 ELSE Len(T) - k) /\ Len(DropLast(T, k)) = Len(DropFirst(T, k))
\* removal is by POSITION: whatever follows the designated part of the track (the track's own first observation closing a ring,
\* the track itself a second time) stays, even when it is the same observation as a removed one
Range(a, b) == [p \in 1..(b - a + 1) |-> a + p - 1]
RemoveByPosition == kind = "ops" => \A S \in Subsets0(Len(T)) :
                       /\ Len(T) >= 1 => RemoveIdx(T \o <<T[1]>>, S) = RemoveIdx(T, S) \o <<Len(T) + 1>>
                       /\ RemoveIdx(T \o T, S) = RemoveIdx(T, S) \o Range(Len(T) + 1, 2 * Len(T))
\* the binary search terminates with an index that keeps the track sorted, for every instant
SearchKeepsSorted == kind = "search" => \A t \in Times \cup {-1, 99} :
                        LET k == InsertionIndex(T, t) IN k \in 0..Len(T) /\ IsSorted(InsertAt(T, k, t))
=============================================================================
