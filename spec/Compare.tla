------------------------------- MODULE Compare -------------------------------
(***************************************************************************)
(* Growth next to C18: the other matching / comparison modes of              *)
(* tracklib.algo.comparison - nearest-neighbour matching match(.., NN) and    *)
(* the pointwise and nearest-neighbour comparisons compare(.., POINTWISE|NN). *)
(* Same lattice conventions as DTW.tla (integer tuples; squared distances).    *)
(*                                                                         *)
(* NN matching : every fix i of track1 is linked to a nearest fix of track2;    *)
(*               every fix of track2 that no fix of track1 chose is attached     *)
(*               to ITS nearest fix of track1; each pair list is sorted.          *)
(* Acceptance  : AcceptNN - every listed link is a nearest-neighbour link in one    *)
(*               of the two directions, every fix of track1 holds a link to one of   *)
(*               its nearest fixes with diff = that distance, every fix of track2     *)
(*               is linked at least once, lists strictly increasing.                  *)
(* Pointwise   : p = 0 number of non-zero distances; p = inf the maximum;              *)
(*               otherwise (sum d^p / N)^(1/p), compared as N * value^p = sum d^p.      *)
(* TLC checks the transcription of _nn / _nn_mono against AcceptNN on all small pairs.   *)
(***************************************************************************)
EXTENDS DTW

D2(aa, bb, i, j) == SumSq(bb[j], aa[i])            \* squared distance between fix i of track1 and fix j of track2
MinOver(S) == CHOOSE x \in S : \A y \in S : x <= y
Near12(aa, bb, i) == MinOver({D2(aa, bb, i, j) : j \in DOMAIN bb})
Near21(aa, bb, j) == MinOver({D2(aa, bb, i, j) : i \in DOMAIN aa})
StrictlyUp(s) == \A k \in 1..(Len(s) - 1) : s[k] < s[k + 1]

\* pairs[i] = sequence of 1-based indices of track2; diff2[i] = squared recorded distance
AcceptNN(aa, bb, pairs, diff2) ==
   IF Len(pairs) # Len(aa) \/ Len(diff2) # Len(aa) THEN "one_entry_per_fix_of_track1_expected"
   ELSE IF \E i \in DOMAIN aa : \E k \in DOMAIN pairs[i] : ~(pairs[i][k] \in DOMAIN bb) THEN "link_to_a_missing_observation"
   ELSE IF \E i \in DOMAIN aa : ~StrictlyUp(pairs[i]) THEN "pair_list_not_strictly_increasing"
   ELSE IF \E i \in DOMAIN aa : ~(\E k \in DOMAIN pairs[i] : D2(aa, bb, i, pairs[i][k]) = Near12(aa, bb, i)) THEN "fix_not_linked_to_a_nearest_neighbour"
   ELSE IF \E i \in DOMAIN aa : diff2[i] # Near12(aa, bb, i) THEN "diff_is_not_the_nearest_distance"
   ELSE IF \E j \in DOMAIN bb : ~(\E i \in DOMAIN aa : \E k \in DOMAIN pairs[i] : pairs[i][k] = j) THEN "fix_of_track2_without_homologue"
   ELSE IF \E i \in DOMAIN aa : \E k \in DOMAIN pairs[i] :
              D2(aa, bb, i, pairs[i][k]) # Near12(aa, bb, i) /\ D2(aa, bb, i, pairs[i][k]) # Near21(aa, bb, pairs[i][k]) THEN "link_is_not_a_nearest_neighbour_link"
   ELSE "ok"

(* ---- transcription of _nn_mono / _nn ----------------------------------------------- *)
FirstArg12(aa, bb, i) == CHOOSE j \in DOMAIN bb : D2(aa, bb, i, j) = Near12(aa, bb, i) /\ \A k \in DOMAIN bb : k < j => D2(aa, bb, i, k) > Near12(aa, bb, i)
FirstArg21(aa, bb, j) == CHOOSE i \in DOMAIN aa : D2(aa, bb, i, j) = Near21(aa, bb, j) /\ \A k \in DOMAIN aa : k < i => D2(aa, bb, k, j) > Near21(aa, bb, j)
RECURSIVE SortSet(_)
SortSet(S) == IF S = {} THEN <<>> ELSE LET m == MinOver(S) IN <<m>> \o SortSet(S \ {m})
NNAlgo(aa, bb) ==
   LET chosen == {FirstArg12(aa, bb, i) : i \in DOMAIN aa}
       extra(i) == {j \in DOMAIN bb : j \notin chosen /\ FirstArg21(aa, bb, j) = i}
   IN [i \in DOMAIN aa |-> SortSet({FirstArg12(aa, bb, i)} \cup extra(i))]
NNAccepted == ph = 1 => AcceptNN(a, b, NNAlgo(a, b), [i \in DOMAIN a |-> Near12(a, b, i)]) = "ok"

(* ---- pointwise comparison -------------------------------------------------------------- *)
\* recorded value v with pp = 0 / PInfC : integer; pp = 1 : n * v = sum d; pp = 2 : n * v^2 = sum d^2 (v^2 given as <<num, den>>)
PInfC == 99
RECURSIVE SumCells(_, _, _, _)
SumCells(aa, bb, pp, i) == IF i = 0 THEN 0 ELSE SumCells(aa, bb, pp, i - 1) + (IF pp = 2 THEN D2(aa, bb, i, i) ELSE DSqrt(D2(aa, bb, i, i)))
PointwiseWant(aa, bb, pp) ==
   CASE pp = 0 -> <<Cardinality({i \in DOMAIN aa : D2(aa, bb, i, i) > 0}), 1>>
     [] pp = PInfC -> <<MinOver({0 - DSqrt(D2(aa, bb, i, i)) : i \in DOMAIN aa}) * (0 - 1), 1>>
     [] OTHER -> <<SumCells(aa, bb, pp, Len(aa)), Len(aa)>>          \* mean of d (p = 1) or of d^2 (p = 2, to be compared with value^2)
=============================================================================
