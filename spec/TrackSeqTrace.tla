--------------------------- MODULE TrackSeqTrace ---------------------------
(* code -> spec for the operations of C04 whose result is not unique: sort (any order among
   equal timestamps) and chronological insertion (any position among equal timestamps). *)
EXTENDS TrackSeq, IOUtils
VARIABLES l, nbad

Clause(e) ==
   IF e.ev = "sort" THEN
        LET c == AcceptSort(e.T, e.r) IN
        IF c # "ok" THEN c
        ELSE IF \E p \in Pos(e.r) : e.rts[p] # e.T[e.r[p]] THEN "timestamp_not_carried"
        ELSE IF \E p \in Pos(e.r) : e.rf[p] # e.r[p] THEN "feature_not_carried"
        ELSE "ok"
   ELSE IF e.ev = "insert" THEN
        LET c == AcceptInsert(e.T, e.t, e.r) IN
        IF c # "ok" THEN c
        ELSE IF \E p \in Pos(e.r) : e.rts[p] # (IF e.r[p] = 0 THEN e.t ELSE e.T[e.r[p]]) THEN "timestamp_not_carried"
        ELSE "ok"
   ELSE "unknown_event"

Cases == ndJsonDeserialize(IOEnv.TRACE_FILE)
B == INSTANCE Batch WITH Clause <- Clause, Cases <- Cases
TSpec == B!TInit /\ T = <<>> /\ kind = "trace" /\ [][B!TNext /\ UNCHANGED vars]_<<l, nbad, T, kind>>
=============================================================================
