------------------------------ MODULE TrackShare ------------------------------
(***************************************************************************)
(* Growth next to C04: which tracks share WHAT.  A Track holds a Python list   *)
(* of Obs objects.  Some operations build a new list over the SAME Obs objects   *)
(* (extract, > n, +), one copies everything (copy), and the constructor keeps     *)
(* the very list it is given when that list is not empty - so                      *)
(* Track(t.getObsList()) and t.setObsList(u.getObsList()) make two tracks share    *)
(* one list, and addObs / removeObs on one of them shows in the other.              *)
(* The state is a small heap: lists (list id -> sequence of obs ids), the value of    *)
(* every Obs, and per track the id of its list.  Actions = public calls, one each.     *)
(* Every state prints its history and, per track, its list id, its obs ids and           *)
(* their values; the driver replays the history on real tracks and compares values,       *)
(* list identity and Obs identity (spec -> code).                                          *)
(*                                                                         *)
(* TLC: a copy shares nothing; extract / tail / concatenation return a list no other         *)
(* track holds, over Obs objects of their operands only; an edit of the list (addObs,         *)
(* removeObs) changes exactly the tracks holding that list, an edit of an Obs exactly          *)
(* the tracks whose list contains it.  Named deviation, refuted: ConstructorCopiesList.         *)
(***************************************************************************)
EXTENDS Integers, Sequences, FiniteSets, TLC, Json

CONSTANTS Emit, MaxOps
VARIABLES lists,     \* sequence: list id -> sequence of obs ids
          val,       \* sequence: obs id -> value (x coordinate)
          tracks,    \* sequence: track -> list id
          hist
vars == <<lists, val, tracks, hist>>
MaxTracks == 3
MaxLen == 4

Op(o, a, b) == [op |-> o, a |-> a, b |-> b]
Log(o) == hist' = Append(hist, o)
L(i) == lists[tracks[i]]
NewList(s) == lists' = Append(lists, s) /\ tracks' = Append(tracks, Len(lists) + 1)
Room == Len(tracks) < MaxTracks

\* Track([Obs(..), Obs(..)]) resp. Track(): n fresh observations in a fresh list
New(n) == Room /\ NewList([k \in 1..n |-> Len(val) + k]) /\ val' = val \o [k \in 1..n |-> 10 * (Len(val) + k)] /\ Log(Op("new", n, 0))
\* Track(t.getObsList()): the constructor keeps a non-empty list as it is; an empty one is replaced by a fresh empty list
Wrap(i) == /\ Room /\ val' = val /\ Log(Op("wrap", i, 0))
           /\ IF L(i) = <<>> THEN NewList(<<>>) ELSE lists' = lists /\ tracks' = Append(tracks, tracks[i])
\* t.extract(0, 0): a new list holding the same first observation
Extract(i) == Room /\ L(i) # <<>> /\ NewList(<<L(i)[1]>>) /\ val' = val /\ Log(Op("extract", i, 0))
\* t > 1: a new list (a slice) over the same observations
Tail1(i) == Room /\ NewList(IF L(i) = <<>> THEN <<>> ELSE Tail(L(i))) /\ val' = val /\ Log(Op("tail", i, 0))
\* t + u: a new list (the concatenation) over the same observations
Concat(i, j) == Room /\ Len(L(i)) + Len(L(j)) <= MaxLen /\ NewList(L(i) \o L(j)) /\ val' = val /\ Log(Op("concat", i, j))
\* t.copy(): a DEEP copy - every distinct observation is copied once, so an observation listed twice is listed twice in the
\* copy as ONE new object (ranks = order of first appearance)
FirstPos(s, o) == CHOOSE k \in DOMAIN s : s[k] = o /\ \A j \in 1..(k - 1) : s[j] # o
Rank(s, o) == Cardinality({p \in {s[k] : k \in DOMAIN s} : FirstPos(s, p) < FirstPos(s, o)}) + 1
Distinct(s) == Cardinality({s[k] : k \in DOMAIN s})
Copy(i) == /\ Room /\ Log(Op("copy", i, 0))
           /\ NewList([k \in 1..Len(L(i)) |-> Len(val) + Rank(L(i), L(i)[k])])
           /\ val' = val \o [r \in 1..Distinct(L(i)) |-> val[CHOOSE o \in {L(i)[k] : k \in DOMAIN L(i)} : Rank(L(i), o) = r]]
\* t.addObs(fresh): appended to t's list object
Add(i) == /\ Len(L(i)) < MaxLen /\ tracks' = tracks /\ Log(Op("add", i, 0))
          /\ lists' = [lists EXCEPT ![tracks[i]] = Append(@, Len(val) + 1)]
          /\ val' = Append(val, 10 * (Len(val) + 1))
\* t.removeObs(0): deleted from t's list object
RemoveFirst(i) == L(i) # <<>> /\ lists' = [lists EXCEPT ![tracks[i]] = Tail(@)] /\ UNCHANGED <<val, tracks>> /\ Log(Op("removefirst", i, 0))
\* t.getObs(0).position.setX(x + 1)
Move(i) == L(i) # <<>> /\ val' = [val EXCEPT ![L(i)[1]] = @ + 1] /\ UNCHANGED <<lists, tracks>> /\ Log(Op("move", i, 0))
\* t.setObsList(u.getObsList()): t now holds u's list object (empty or not)
SetList(i, j) == i # j /\ tracks' = [tracks EXCEPT ![i] = tracks[j]] /\ UNCHANGED <<lists, val>> /\ Log(Op("setlist", i, j))

Init == lists = <<>> /\ val = <<>> /\ tracks = <<>> /\ hist = <<>>
Next == /\ Len(hist) < MaxOps
        /\ \/ New(2) \/ New(0)
           \/ \E i \in DOMAIN tracks : Wrap(i) \/ Extract(i) \/ Tail1(i) \/ Copy(i) \/ Add(i) \/ RemoveFirst(i) \/ Move(i)
           \/ \E i, j \in DOMAIN tracks : Concat(i, j) \/ SetList(i, j)
Spec == Init /\ [][Next]_vars

(* ---- observations ------------------------------------------------------------------------ *)
Emitted == ~Emit \/ PrintT(ToJson([hist |-> hist, listid |-> tracks, obs |-> [i \in DOMAIN tracks |-> L(i)],
                                   vals |-> [i \in DOMAIN tracks |-> [k \in DOMAIN L(i) |-> val[L(i)[k]]]]]))

(* ---- checked -------------------------------------------------------------------------------- *)
TypeOK == /\ \A i \in DOMAIN tracks : tracks[i] \in DOMAIN lists
          /\ \A l \in DOMAIN lists : \A k \in DOMAIN lists[l] : lists[l][k] \in DOMAIN val
Inv == TypeOK /\ Emitted
Last == hist'[Len(hist')]
Did(o) == hist' # hist /\ Last.op = o
NewT == Len(tracks')                      \* the track an operation created
ObsOf(ls, l) == {ls[l][k] : k \in DOMAIN ls[l]}
ViewP(i) == [k \in DOMAIN lists'[tracks'[i]] |-> val'[lists'[tracks'[i]][k]]]
View(i) == [k \in DOMAIN L(i) |-> val[L(i)[k]]]
\* a copy shares neither its list nor any observation with another track
CopyIsolated == [][Did("copy") => \A i \in DOMAIN tracks : tracks'[NewT] # tracks'[i] /\ ObsOf(lists', tracks'[NewT]) \cap ObsOf(lists', tracks'[i]) = {}]_vars
\* extract / tail / concatenation: a list of their own, over observations of their operands
FreshListSharedObs == [][(Did("extract") \/ Did("tail") \/ Did("concat")) =>
                            /\ \A i \in DOMAIN tracks : tracks'[NewT] # tracks'[i]
                            /\ ObsOf(lists', tracks'[NewT]) \subseteq (ObsOf(lists, tracks[Last.a]) \cup (IF Last.op = "concat" THEN ObsOf(lists, tracks[Last.b]) ELSE {}))]_vars
\* creating a track never changes what another one reads
CreationIsPure == [][(Did("new") \/ Did("wrap") \/ Did("extract") \/ Did("tail") \/ Did("concat") \/ Did("copy")) =>
                        \A i \in DOMAIN tracks : ViewP(i) = View(i)]_vars
\* editing a list changes exactly its holders; editing an observation exactly the tracks whose list contains it
ListEditLocal == [][(Did("add") \/ Did("removefirst")) => \A i \in DOMAIN tracks : (tracks[i] # tracks[Last.a]) => ViewP(i) = View(i)]_vars
ObsEditLocal == [][Did("move") => \A i \in DOMAIN tracks : (L(Last.a)[1] \notin ObsOf(lists, tracks[i])) => ViewP(i) = View(i)]_vars
\* named deviation (REFUTED by TLC in the driver's self-test): a track built from a list holds a list of its own
ConstructorCopiesList == [][Did("wrap") => \A i \in DOMAIN tracks : tracks'[NewT] # tracks'[i]]_vars
=============================================================================
