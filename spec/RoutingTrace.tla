---------------------------- MODULE RoutingTrace ----------------------------
(* code -> spec for C06 / C07: recorded distances, all-pairs tables and returned paths of the real
   Network are judged by the definitions of Routing.tla (Bellman-Ford distance, AcceptPath). *)
EXTENDS Routing, IOUtils
VARIABLES l, nbad

V(e) == 0..(e.n - 1)
ClauseDist(e) ==
   LET d == DistFrom(e.g, V(e), e.s)[e.t] IN
   IF d = Inf THEN (IF e.d = -1 THEN "ok" ELSE "unreachable_without_sentinel")
   ELSE IF e.d = d THEN "ok" ELSE "distance"
\* list form: distances from s to every node (unreachable reported as "inf" = -1 on the wire)
ClauseList(e) ==
   LET d == DistFrom(e.g, V(e), e.s) IN
   IF \A v \in V(e) : e.ds[v + 1] = (IF d[v] = Inf THEN -1 ELSE d[v]) THEN "ok" ELSE "distance_list"
\* all-pairs table with cut-off: exactly the ordered pairs with Dist <= cut, each with its distance
ClauseTable(e) ==
   LET T == Table(e.g, V(e))
       want == {<<s, t, T[s][t]>> : s \in V(e), t \in V(e)} \ {x \in {<<s, t, T[s][t]>> : s \in V(e), t \in V(e)} : x[3] > e.cut}
       got == {<<e.pairs[k][1], e.pairs[k][2], e.pairs[k][3]>> : k \in DOMAIN e.pairs}
   IN IF \E x \in want : ~(\E y \in got : y[1] = x[1] /\ y[2] = x[2]) THEN "table_missing_pair"
      ELSE IF \E y \in got : ~(\E x \in want : y[1] = x[1] /\ y[2] = x[2]) THEN "table_extra_pair"
      ELSE IF got # want THEN "table_wrong_distance"
      ELSE IF Len(e.pairs) # Cardinality(got) THEN "table_duplicate_key" ELSE "ok"
Clause(e) ==
   CASE e.ev = "dist"  -> ClauseDist(e)
     [] e.ev = "list"  -> ClauseList(e)
     [] e.ev = "table" -> ClauseTable(e)
     [] e.ev = "path"  -> AcceptPath(e.g, V(e), e.s, e.t, e.has, e.path, e.geom)
     [] OTHER -> "unknown_event"

Cases == ndJsonDeserialize(IOEnv.TRACE_FILE)
B == INSTANCE Batch WITH Clause <- Clause, Cases <- Cases
TSpec == B!TInit /\ Init /\ [][B!TNext /\ UNCHANGED vars]_<<l, nbad, vars>>
=============================================================================
