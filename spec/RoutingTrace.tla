---------------------------- MODULE RoutingTrace ----------------------------
(* code -> spec for C06 / C07: recorded distances, all-pairs tables and returned paths of the real
   Network are judged by the definitions of Routing.tla (Bellman-Ford distance, AcceptPath). *)
EXTENDS Routing, IOUtils
VARIABLES l, nbad

V(e) == 0..(e.n - 1)
ClauseDist(e) ==
   LET d == DistFrom(e.g, V(e), e.s)[e.t] IN
   IF d = Inf THEN (IF e.d = -1 THEN "ok" ELSE "unreachable_without_sentinel")
   ELSE IF e.d = d THEN "ok" ELSE "distance"
\* list form: distances from s to every node (unreachable reported as "inf" = -1 on the wire)
ClauseList(e) ==
   LET d == DistFrom(e.g, V(e), e.s) IN
   IF \A v \in V(e) : e.ds[v + 1] = (IF d[v] = Inf THEN -1 ELSE d[v]) THEN "ok" ELSE "distance_list"
\* all-pairs table with cut-off: exactly the ordered pairs with Dist <= cut, each with its distance
ClauseTable(e) ==
   LET T == Table(e.g, V(e))
       want == {<<s, t, T[s][t]>> : s \in V(e), t \in V(e)} \ {x \in {<<s, t, T[s][t]>> : s \in V(e), t \in V(e)} : x[3] > e.cut}
       got == {<<e.pairs[k][1], e.pairs[k][2], e.pairs[k][3]>> : k \in DOMAIN e.pairs}
   IN IF \E x \in want : ~(\E y \in got : y[1] = x[1] /\ y[2] = x[2]) THEN "table_missing_pair"
      ELSE IF \E y \in got : ~(\E x \in want : y[1] = x[1] /\ y[2] = x[2]) THEN "table_extra_pair"
      ELSE IF got # want THEN "table_wrong_distance"
      ELSE IF Len(e.pairs) # Cardinality(got) THEN "table_duplicate_key" ELSE "ok"
\* growth: Network.sub_network(source, cut, "TOPOLOGIC") keeps exactly the edges whose two end nodes are within the cut
ClauseSubnet(e) ==
   LET d == DistFrom(e.g, V(e), e.s)
       want == {k \in DOMAIN e.g : d[e.g[k][1]] <= e.cut /\ d[e.g[k][2]] <= e.cut}
       got == {e.ids[k] : k \in DOMAIN e.ids}
   IN IF got = want /\ Len(e.ids) = Cardinality(got) THEN "ok"
      ELSE IF \E k \in want : k \notin got THEN "subnetwork_omits_an_edge_within_the_cut" ELSE "subnetwork_holds_an_edge_beyond_the_cut"
\* growth: Network.distanceBtwPts(edge1, abscissa1, edge2, abscissa2) on prepared distances (edge weights = lengths)
MinOf4(a, b, c, d) == LET m1 == IF a < b THEN a ELSE b  m2 == IF c < d THEN c ELSE d IN IF m1 < m2 THEN m1 ELSE m2
ClauseBtw(e) ==
   LET T == Table(e.g, V(e))
       e1 == e.g[e.e1]  e2 == e.g[e.e2]
       dd(u, v) == T[u][v]
       want == IF e.e1 = e.e2 THEN (IF e.a1 < e.a2 THEN e.a2 - e.a1 ELSE e.a1 - e.a2)
               ELSE MinOf4(e.a1 + dd(e1[1], e2[1]) + e.a2, (e1[3] - e.a1) + dd(e1[2], e2[2]) + (e2[3] - e.a2),
                           e.a1 + dd(e1[1], e2[2]) + (e2[3] - e.a2), (e1[3] - e.a1) + dd(e1[2], e2[1]) + e.a2)
   IN IF want >= Inf THEN (IF e.d = -1 THEN "ok" ELSE "distance_between_points_finite_but_unreachable")
      ELSE IF e.d = want THEN "ok" ELSE "distance_between_points"
Clause(e) ==
   CASE e.ev = "dist"  -> ClauseDist(e)
     [] e.ev = "subnet" -> ClauseSubnet(e)
     [] e.ev = "btw" -> ClauseBtw(e)
     [] e.ev = "list"  -> ClauseList(e)
     [] e.ev = "table" -> ClauseTable(e)
     [] e.ev = "path"  -> AcceptPath(e.g, V(e), e.s, e.t, e.has, e.path, e.geom)
     [] OTHER -> "unknown_event"

Cases == ndJsonDeserialize(IOEnv.TRACE_FILE)
B == INSTANCE Batch WITH Clause <- Clause, Cases <- Cases
TSpec == B!TInit /\ Init /\ [][B!TNext /\ UNCHANGED vars]_<<l, nbad, vars>>
=============================================================================
