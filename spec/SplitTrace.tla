------------------------------ MODULE SplitTrace ------------------------------
(* code -> spec for C11: pieces returned by split(track, marker) (observations identified by their position in the
   source track, 1-based; 0 = not an observation of the source) and marker columns written by segmentation(). *)
EXTENDS Split, IOUtils, Json
VARIABLES l, nbad

ClauseSplit(e) ==
   IF e.raised THEN "raised"
   ELSE IF \E k \in DOMAIN e.pieces : \E j \in DOMAIN e.pieces[k] : ~(e.pieces[k][j] \in 1..Len(e.m)) THEN "piece_holds_a_foreign_observation"
   ELSE AcceptSplit(e.m, e.pieces)
\* e.pre = the content of the marker feature BEFORE the call (<<>> when it did not exist): the marker definition does not depend on it
ClauseSeg(e) ==
   IF e.raised THEN "raised"
   ELSE IF Len(e.out) # Len(e.rows) THEN "marker_column_length"
   ELSE LET bad == {i \in DOMAIN e.rows : ~(e.out[i] \in Marker(e.rows[i], e.thr, e.mode))} IN
        IF bad = {} THEN "ok"
        ELSE LET i == CHOOSE x \in bad : \A y \in bad : x <= y IN
             IF e.out[i] \notin {0, 1} THEN "marker_not_0_or_1"
             ELSE IF e.out[i] = 0 THEN "marker_0_where_threshold_exceeded" ELSE "marker_1_where_threshold_not_exceeded"
Clause(e) == CASE e.ev = "split" -> ClauseSplit(e) [] e.ev = "seg" -> ClauseSeg(e) [] OTHER -> "unknown_event"

Cases == ndJsonDeserialize(IOEnv.TRACE_FILE)
Bt == INSTANCE Batch WITH Clause <- Clause, Cases <- Cases
TSpec == Bt!TInit /\ m = <<>> /\ row = <<>> /\ thr = <<>> /\ cmp = "and" /\ ph = 2 /\ [][Bt!TNext /\ UNCHANGED vars]_<<l, nbad, vars>>
=============================================================================
