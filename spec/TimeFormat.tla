------------------------------ MODULE TimeFormat ------------------------------
(***************************************************************************)
(* Growth behind C13 / C03: the format-code grammar of ObsTime               *)
(* (ObsTime.__str__, setPrintFormat / setReadFormat, __precompileReadFmt,     *)
(* readTimestamp).                                                            *)
(*                                                                         *)
(* A format is a sequence of tokens: a code "<w><F>" (w = printed width,       *)
(* F in D M Y h m s z) or a literal character.  Every code occupies two         *)
(* characters of the format string and prints as the field value zero-padded     *)
(* to w digits, so the position of a later field in the PRINTED string is its     *)
(* position in the format shifted by the sum of (w - 2) over the codes before     *)
(* it - which is what the reader precompiles.  "2Y" prints year mod 100 and       *)
(* reads back 2000 + value; "3z" is milliseconds ("2z", "1z" round and are         *)
(* outside the round-trip domain).                                                 *)
(* Definition : Show(t, f), Read(s, f) on character sequences.                     *)
(* Property   : Read(Show(t, f), f) = t on the fields f mentions (the others         *)
(*              take the epoch defaults), for every format of the family and           *)
(*              every instant of a lattice holding month / year ends, 29 Feb,            *)
(*              midnight, one-digit and two-digit values.                                *)
(* The generator prints, per format, the format string and for every instant the           *)
(* printed text and the fields read back; the driver compares str(ObsTime) and               *)
(* ObsTime.readTimestamp with them (spec -> code).                                           *)
(***************************************************************************)
EXTENDS Integers, Sequences, FiniteSets, TLC, Json

CONSTANTS Mode, Emit
VARIABLES fmt, ph
vars == <<fmt, ph>>

Digit(d) == CASE d = 0 -> "0" [] d = 1 -> "1" [] d = 2 -> "2" [] d = 3 -> "3" [] d = 4 -> "4"
              [] d = 5 -> "5" [] d = 6 -> "6" [] d = 7 -> "7" [] d = 8 -> "8" [] d = 9 -> "9"
DVal(c) == CASE c = "0" -> 0 [] c = "1" -> 1 [] c = "2" -> 2 [] c = "3" -> 3 [] c = "4" -> 4
             [] c = "5" -> 5 [] c = "6" -> 6 [] c = "7" -> 7 [] c = "8" -> 8 [] c = "9" -> 9 [] OTHER -> -1
RECURSIVE Digits(_)
Digits(v) == IF v < 10 THEN <<Digit(v)>> ELSE Append(Digits(v \div 10), Digit(v % 10))
RECURSIVE Zeros(_)
Zeros(k) == IF k <= 0 THEN <<>> ELSE <<"0">> \o Zeros(k - 1)
Pad(v, w) == LET d == Digits(v) IN Zeros(w - Len(d)) \o d           \* Python "{:0wd}": at least w digits
RECURSIVE Num(_)
Num(s) == IF s = <<>> THEN 0 ELSE 10 * Num(SubSeq(s, 1, Len(s) - 1)) + DVal(s[Len(s)])

\* an instant: record y, mo, d, h, mi, s, ms
Epoch == [y |-> 1970, mo |-> 1, d |-> 1, h |-> 0, mi |-> 0, s |-> 0, ms |-> 0]
\* token <<"c", width, field>> or <<"l", char>>
FieldVal(t, tok) == CASE tok[3] = "D" -> t.d [] tok[3] = "M" -> t.mo [] tok[3] = "h" -> t.h [] tok[3] = "m" -> t.mi
                      [] tok[3] = "s" -> t.s [] tok[3] = "z" -> t.ms
                      [] tok[3] = "Y" -> IF tok[2] = 2 THEN t.y % 100 ELSE t.y
RECURSIVE Show(_, _)
Show(t, f) == IF f = <<>> THEN <<>>
               ELSE (IF f[1][1] = "c" THEN Pad(FieldVal(t, f[1]), f[1][2]) ELSE <<f[1][2]>>) \o Show(t, Tail(f))
\* format string as written by the user: every code is two characters
RECURSIVE FmtString(_)
FmtString(f) == IF f = <<>> THEN <<>>
                ELSE (IF f[1][1] = "c" THEN <<Digit(f[1][2]), f[1][3]>> ELSE <<f[1][2]>>) \o FmtString(Tail(f))
\* the reader: fixed-width fields at the cumulated offsets (transcription of the precompiled list + readTimestamp)
RECURSIVE ReadFrom(_, _, _, _)
ReadFrom(s, f, pos, acc) ==
   IF f = <<>> THEN acc
   ELSE IF f[1][1] = "l" THEN ReadFrom(s, Tail(f), pos + 1, acc)
   ELSE LET w == f[1][2]
            v == Num(SubSeq(s, pos, pos + w - 1))
            F == f[1][3]
            acc2 == CASE F = "D" -> [acc EXCEPT !.d = v] [] F = "M" -> [acc EXCEPT !.mo = v] [] F = "h" -> [acc EXCEPT !.h = v]
                      [] F = "m" -> [acc EXCEPT !.mi = v] [] F = "s" -> [acc EXCEPT !.s = v] [] F = "z" -> [acc EXCEPT !.ms = v]
                      [] F = "Y" -> [acc EXCEPT !.y = IF w = 2 THEN 2000 + v ELSE v]
        IN ReadFrom(s, Tail(f), pos + w, acc2)
Read(s, f) == ReadFrom(s, f, 1, Epoch)
Mentions(f, F) == \E k \in DOMAIN f : f[k][1] = "c" /\ f[k][3] = F
\* what a round trip must give back: the fields the format mentions, epoch defaults elsewhere
Restrict(t, f) == [y |-> IF Mentions(f, "Y") THEN t.y ELSE 1970, mo |-> IF Mentions(f, "M") THEN t.mo ELSE 1,
                   d |-> IF Mentions(f, "D") THEN t.d ELSE 1, h |-> IF Mentions(f, "h") THEN t.h ELSE 0,
                   mi |-> IF Mentions(f, "m") THEN t.mi ELSE 0, s |-> IF Mentions(f, "s") THEN t.s ELSE 0,
                   ms |-> IF Mentions(f, "z") THEN t.ms ELSE 0]

(* ---- the family of formats and the lattice of instants ------------------------------------------ *)
C(w, F) == <<"c", w, F>>
L(ch) == <<"l", ch>>
Perms3 == { <<"D", "M", "Y">>, <<"D", "Y", "M">>, <<"M", "D", "Y">>, <<"M", "Y", "D">>, <<"Y", "M", "D">>, <<"Y", "D", "M">> }
DateTok(F, yw) == IF F = "Y" THEN C(yw, "Y") ELSE C(2, F)
DatePart(p, yw, sep) == IF sep = "" THEN <<DateTok(p[1], yw), DateTok(p[2], yw), DateTok(p[3], yw)>>
                        ELSE <<DateTok(p[1], yw), L(sep), DateTok(p[2], yw), L(sep), DateTok(p[3], yw)>>
TimePart(z) == <<C(2, "h"), L(":"), C(2, "m"), L(":"), C(2, "s")>> \o (IF z THEN <<L("."), C(3, "z")>> ELSE <<>>)
Formats == { (IF df THEN DatePart(p, yw, sep) \o <<L(j)>> \o TimePart(z) ELSE TimePart(z) \o <<L(j)>> \o DatePart(p, yw, sep)) :
                p \in Perms3, yw \in {2, 4}, sep \in {"/", "-", ""}, z \in BOOLEAN, df \in BOOLEAN, j \in {" ", "T", "-"} }
               \cup { TimePart(z) : z \in BOOLEAN } \cup { DatePart(p, 4, "-") : p \in Perms3 }
Instants == { [y |-> 2021, mo |-> 3, d |-> 1, h |-> 0, mi |-> 0, s |-> 0, ms |-> 0],
              [y |-> 2020, mo |-> 2, d |-> 29, h |-> 23, mi |-> 59, s |-> 59, ms |-> 999],
              [y |-> 2019, mo |-> 12, d |-> 31, h |-> 23, mi |-> 59, s |-> 59, ms |-> 5],
              [y |-> 2000, mo |-> 1, d |-> 1, h |-> 1, mi |-> 2, s |-> 3, ms |-> 40],
              [y |-> 2099, mo |-> 11, d |-> 9, h |-> 10, mi |-> 10, s |-> 10, ms |-> 100],
              [y |-> 2008, mo |-> 10, d |-> 20, h |-> 12, mi |-> 0, s |-> 9, ms |-> 0] }
InstSeq == CHOOSE q \in [1..Cardinality(Instants) -> Instants] : \A i, j \in DOMAIN q : i # j => q[i] # q[j]

Init == Mode = "mc" /\ fmt \in Formats /\ ph = 1
Next == FALSE /\ UNCHANGED vars
Spec == Init /\ [][Next]_vars
Emitted == ~Emit \/ PrintT(ToJson([fmt |-> FmtString(fmt),
              cases |-> [k \in DOMAIN InstSeq |-> [t |-> InstSeq[k], txt |-> Show(InstSeq[k], fmt), back |-> Read(Show(InstSeq[k], fmt), fmt)]]]))
RoundTrip == (\A t \in Instants : Read(Show(t, fmt), fmt) = Restrict(t, fmt)) /\ Emitted
\* the printed width of every code is its declared width on this lattice (so the reader's fixed offsets are right)
FixedWidth == \A t \in Instants : Len(Show(t, fmt)) = Len(Show(Epoch, fmt))
=============================================================================
