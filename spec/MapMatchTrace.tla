---------------------------- MODULE MapMatchTrace ----------------------------
(* code -> spec for C10: one record per mapOnNetwork call.  e.edges = edge geometries by edge number, e.obs = the
   observed positions, e.r2 = squared search radius (fraction), e.states = what track['hmm_inference', k] holds after
   the call (abstracted to the rational lattice), e.pre / e.post = identities, positions and timestamps of the
   track's observations before / after the call. *)
EXTENDS MapMatch, IOUtils, Json
VARIABLES l, nbad

Pt(p) == <<p[1], p[2]>>
Geom(g) == [k \in DOMAIN g |-> Pt(g[k])]
St(s) == [e |-> s.e, lat |-> s.lat, p |-> <<s.p[1], s.p[2], s.p[3]>>, ds |-> <<s.ds[1], s.ds[2]>>, dt |-> <<s.dt[1], s.dt[2]>>]
Clause(e) ==
   LET edges == [j \in DOMAIN e.edges |-> Geom(e.edges[j])]
       obs == [k \in DOMAIN e.obs |-> Pt(e.obs[k])]
       r2 == <<e.r2[1], e.r2[2]>>
   IN IF e.raised THEN (IF e.zerodiv /\ CouldRaiseLegacy(edges, obs) THEN "legacy_vertical" ELSE "raised")
      ELSE IF Len(e.states) # Len(e.obs) THEN "number_of_states_differs_from_number_of_observations"
      ELSE IF e.pre # e.post THEN "track_observations_changed"
      ELSE LET bad == {k \in DOMAIN e.obs : AcceptState(edges, obs[k], r2, St(e.states[k])) # "ok"} IN
           IF bad # {} THEN LET k == CHOOSE k \in bad : \A j \in bad : k <= j IN AcceptState(edges, obs[k], r2, St(e.states[k]))
           \* beyond the listed property (growth): the decoder must have picked each state from that epoch's candidate list
           ELSE IF Len(e.cands) # Len(e.obs) THEN "growth_number_of_candidate_lists_differs_from_number_of_observations"
           ELSE IF \E k \in DOMAIN e.obs : ~(\E j \in DOMAIN e.cands[k] : St(e.cands[k][j]) = St(e.states[k])) THEN "growth_assigned_state_is_not_one_of_the_candidates"
           ELSE "ok"

Cases == ndJsonDeserialize(IOEnv.TRACE_FILE)
Bt == INSTANCE Batch WITH Clause <- Clause, Cases <- Cases
TSpec == Bt!TInit /\ A = <<0, 0>> /\ B = <<0, 0>> /\ C = <<0, 0>> /\ Q = <<0, 0>> /\ ph = 2
         /\ [][Bt!TNext /\ UNCHANGED vars]_<<l, nbad, vars>>
=============================================================================
