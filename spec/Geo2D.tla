------------------------------- MODULE Geo2D -------------------------------
(***************************************************************************)
(* Exact plane geometry on integer points for TLC (32-bit integers).       *)
(* A point is <<x, y>> of integers.  A fraction is <<n, d>> with d > 0.    *)
(* A rational point with a common denominator is <<xn, yn, den>>, den > 0  *)
(* (the point (xn/den, yn/den)).  Products stay below 2^31 for coordinates *)
(* up to about 20 (TLC raises an error on overflow, it never wraps).       *)
(***************************************************************************)
EXTENDS Integers, Sequences

GAbs(n) == IF n < 0 THEN -n ELSE n
GMin(a, b) == IF a < b THEN a ELSE b
GMax(a, b) == IF a < b THEN b ELSE a
RECURSIVE GGcd(_, _)
GGcd(a, b) == IF b = 0 THEN a ELSE GGcd(b, a % b)
\* reduced fraction, d # 0
Frac(n, d) == LET g == GGcd(GAbs(n), GAbs(d))
                  s == IF d < 0 THEN -1 ELSE 1
              IN IF g = 0 THEN <<0, 1>> ELSE <<s * (n \div g), s * (d \div g)>>
FrLt(p, q) == p[1] * q[2] < q[1] * p[2]
FrLe(p, q) == p[1] * q[2] <= q[1] * p[2]
FrEq(p, q) == Frac(p[1], p[2]) = Frac(q[1], q[2])
FrAdd(p, q) == Frac(p[1] * q[2] + q[1] * p[2], p[2] * q[2])
FrSub(p, q) == Frac(p[1] * q[2] - q[1] * p[2], p[2] * q[2])

VSub(u, v) == <<u[1] - v[1], u[2] - v[2]>>
VDot(u, v) == u[1] * v[1] + u[2] * v[2]
VCross(u, v) == u[1] * v[2] - u[2] * v[1]
Norm2(u) == VDot(u, u)
Dist2(P, Q) == Norm2(VSub(P, Q))

\* squared distance from integer point P to segment AB (fraction)
D2PointSeg(P, A, B) ==
   LET ab == VSub(B, A)  ap == VSub(P, A)  n2 == Norm2(ab)  t == VDot(ap, ab) IN
   IF n2 = 0 \/ t <= 0 THEN <<Norm2(ap), 1>>
   ELSE IF t >= n2 THEN <<Dist2(P, B), 1>>
   ELSE LET c == VCross(ab, ap) IN Frac(c * c, n2)
\* nearest point of segment AB to P as a rational point <<xn, yn, den>>
NearestOnSeg(P, A, B) ==
   LET ab == VSub(B, A)  ap == VSub(P, A)  n2 == Norm2(ab)  t == VDot(ap, ab) IN
   IF n2 = 0 \/ t <= 0 THEN <<A[1], A[2], 1>>
   ELSE IF t >= n2 THEN <<B[1], B[2], 1>>
   ELSE <<A[1] * n2 + t * ab[1], A[2] * n2 + t * ab[2], n2>>
\* foot of the perpendicular from P on the LINE AB (n2 > 0)
FootOnLine(P, A, B) ==
   LET ab == VSub(B, A)  ap == VSub(P, A)  n2 == Norm2(ab)  t == VDot(ap, ab) IN
   <<A[1] * n2 + t * ab[1], A[2] * n2 + t * ab[2], n2>>
\* squared distance from P to the LINE AB
D2PointLine(P, A, B) == LET ab == VSub(B, A)  c == VCross(ab, VSub(P, A)) IN Frac(c * c, Norm2(ab))

\* rational point R = <<xn, yn, den>> : equality, membership in segment AB (integer end points)
RPtEq(R, S) == R[1] * S[3] = S[1] * R[3] /\ R[2] * S[3] = S[2] * R[3]
RPtOnSeg(R, A, B) ==
   LET den == R[3]
       rx == R[1] - A[1] * den      \* (R - A) * den
       ry == R[2] - A[2] * den
       ab == VSub(B, A)
   IN /\ ab[1] * ry - ab[2] * rx = 0
      /\ GMin(A[1], B[1]) * den <= R[1] /\ R[1] <= GMax(A[1], B[1]) * den
      /\ GMin(A[2], B[2]) * den <= R[2] /\ R[2] <= GMax(A[2], B[2]) * den
\* squared distance between integer point P and rational point R (fraction)
D2PointRPt(P, R) ==
   LET dx == P[1] * R[3] - R[1]  dy == P[2] * R[3] - R[2] IN Frac(dx * dx + dy * dy, R[3] * R[3])

\* polylines: sequences of integer points
RECURSIVE MinFrac(_)
MinFrac(S) == LET x == CHOOSE x \in S : TRUE IN
              IF S = {x} THEN x ELSE LET m == MinFrac(S \ {x}) IN IF FrLe(x, m) THEN x ELSE m
D2PointPoly(P, poly) == MinFrac({D2PointSeg(P, poly[k], poly[k + 1]) : k \in 1..(Len(poly) - 1)})

\* polylines whose legs have integer length (axis-aligned, 3-4-5 ...): curvilinear abscissa is rational
\* integer square root by bisection (floor), n >= 0
RECURSIVE SqrtBis(_, _, _)
SqrtBis(n, lo, hi) == IF lo >= hi THEN lo
                      ELSE LET mid == (lo + hi + 1) \div 2 IN IF mid * mid <= n THEN SqrtBis(n, mid, hi) ELSE SqrtBis(n, lo, mid - 1)
FloorSqrt(n) == SqrtBis(n, 0, IF n < 46340 THEN n ELSE 46340)
IsSquare(n) == LET r == FloorSqrt(n) IN r * r = n
ISqrt(n) == FloorSqrt(n)
LegLen(poly, i) == ISqrt(Dist2(poly[i], poly[i + 1]))
IntLegs(poly) == \A i \in 1..(Len(poly) - 1) : IsSquare(Dist2(poly[i], poly[i + 1]))
RECURSIVE CumLen(_, _)
CumLen(poly, i) == IF i = 1 THEN 0 ELSE CumLen(poly, i - 1) + LegLen(poly, i - 1)      \* abscissa of vertex i
PolyLength(poly) == CumLen(poly, Len(poly))
\* distance (fraction) from vertex i to the rational point R lying on segment i (1-based)
AlongSeg(poly, i, R) ==
   LET A == poly[i]
       ab == VSub(poly[i + 1], A)
       L == LegLen(poly, i)
       dot == (R[1] - A[1] * R[3]) * ab[1] + (R[2] - A[2] * R[3]) * ab[2]
   IN IF L = 0 THEN <<0, 1>> ELSE Frac(dot, R[3] * L)
\* curvilinear abscissa of R on segment i
AbscOn(poly, i, R) == FrAdd(<<CumLen(poly, i), 1>>, AlongSeg(poly, i, R))
=============================================================================
