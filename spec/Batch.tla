------------------------------- MODULE Batch -------------------------------
(***************************************************************************)
(* Batch trace validation (code -> spec).  TRACE_FILE holds one recorded   *)
(* call of the implementation per line; Clause(e) is the instantiating     *)
(* specification's acceptance predicate, returning "ok" or the name of the *)
(* first violated clause.  A rejected line is reported and the run goes    *)
(* on, so one defect does not hide the rest of the trace; the harness      *)
(* checks that DONE reports every line consumed.                           *)
(***************************************************************************)
EXTENDS Naturals, Sequences, TLC, Json, IOUtils
CONSTANT Clause(_),
         Cases       \* the deserialised trace, defined ONCE in the instantiating module (a zero-arity
                     \* constant definition there is evaluated a single time by TLC)
VARIABLES l, nbad
TInit == l = 1 /\ nbad = 0
TNext == \/ /\ l <= Len(Cases) /\ l' = l + 1
            /\ LET c == Clause(Cases[l]) IN
               IF c = "ok" THEN nbad' = nbad
               ELSE nbad' = nbad + 1 /\ PrintT(<<"REJECT", Cases[l].id, c>>)
         \/ /\ l = Len(Cases) + 1 /\ l' = l + 1 /\ UNCHANGED nbad
            /\ PrintT(<<"DONE", Len(Cases), nbad>>)
=============================================================================
