SPECIFICATION TSpec
CONSTANTS
  NN = 1
  MaxE = 0
  Weights = {0}
  Mode = "none"
  Emit = FALSE
CHECK_DEADLOCK FALSE
