------------------------------ MODULE TrackColl ------------------------------
(***************************************************************************)
(* Growth next to C04: tracklib.core.track_collection.TrackCollection - a     *)
(* MUTABLE sequence of track OBJECTS.  Some operations share the track         *)
(* objects between collections (+, slicing), others deep-copy them (copy, >,     *)
(* <), and removal is by object identity (list.remove on objects without           *)
(* __eq__): the state therefore carries an object id per position, and the            *)
(* aliasing pattern is part of what the driver observes on the real object.            *)
(*                                                                         *)
(* Actions = the public operations, one per call; every state prints its history,        *)
(* the fixes of every track, the aliasing pattern and the bounding box; the driver          *)
(* replays the history on a real TrackCollection (spec -> code).                              *)
(*                                                                         *)
(* Modelled as the code behaves, deviations from the ideal named and refuted by TLC:            *)
(*   RemoveEmptyComplete - removeEmptyTrack removes while iterating over the same list,           *)
(*                         so the track that follows a removed one is skipped.                      *)
(***************************************************************************)
EXTENDS Integers, Sequences, FiniteSets, TLC, Json

CONSTANTS Emit, MaxOps
VARIABLES coll, nxt, hist
vars == <<coll, nxt, hist>>

Pts == << <<1, 1>>, <<2, 2>>, <<3, 3>>, <<5, 1>> >>
Cat == << <<>>, <<1>>, <<1, 2, 3>>, <<2, 4>>, <<>> >>       \* the tracks that can be added (fix ids); two of them empty
Boxes == << <<0, 4, 0, 4>>, <<1, 6, 0, 6>> >>               \* xmin, xmax, ymin, ymax (the filter is strict)
MaxLen == 4

Op(o, a, b) == [op |-> o, a |-> a, b |-> b]
Pos(L, o) == CHOOSE k \in DOMAIN L : L[k].oid = o /\ \A j \in 1..(k - 1) : L[j].oid # o
RemoveFirst(L, o) == LET k == Pos(L, o) IN SubSeq(L, 1, k - 1) \o SubSeq(L, k + 1, Len(L))
Map(kind, m, p) == CASE kind = "id" -> p
                     [] kind = "drop" -> IF m >= Len(p) THEN <<>> ELSE SubSeq(p, m + 1, Len(p))       \* track > m
                     [] kind = "chop" -> IF m >= Len(p) THEN <<>> ELSE SubSeq(p, 1, Len(p) - m)         \* track < m
Renew(L, n, kind, m) == [k \in DOMAIN L |-> [oid |-> n + k - 1, pts |-> Map(kind, m, L[k].pts)]]       \* deep copies: fresh objects

\* removeEmptyTrack: `for track in L: if empty(track): L.remove(track)' - Python's list iterator is an index
RECURSIVE RmEmpty(_, _)
RmEmpty(L, i) == IF i > Len(L) THEN L
                 ELSE IF L[i].pts = <<>> THEN RmEmpty(RemoveFirst(L, L[i].oid), i + 1) ELSE RmEmpty(L, i + 1)

\* filterOnBBox: `for i in range(len - 1, -1, -1): track = L[i]; if some fix is not strictly inside: L.remove(track)'
InBox(b, p) == p[1] > b[1] /\ p[1] < b[2] /\ p[2] > b[3] /\ p[2] < b[4]
AllIn(b, t) == \A k \in DOMAIN t.pts : InBox(b, Pts[t.pts[k]])
RECURSIVE Filter(_, _, _)
Filter(L, b, i) == IF i < 1 THEN [ok |-> TRUE, L |-> L]
                   ELSE IF i > Len(L) THEN [ok |-> FALSE, L |-> L]             \* IndexError (aliased tracks removed earlier)
                   ELSE IF AllIn(b, L[i]) THEN Filter(L, b, i - 1) ELSE Filter(RemoveFirst(L, L[i].oid), b, i - 1)

Log(o) == hist' = Append(hist, o)
Add(c)     == Len(coll) < MaxLen /\ coll' = Append(coll, [oid |-> nxt, pts |-> Cat[c]]) /\ nxt' = nxt + 1 /\ Log(Op("add", c, 0))
Rm(i)      == coll' = RemoveFirst(coll, coll[i].oid) /\ nxt' = nxt /\ Log(Op("rm", i, 0))
RmE        == coll' = RmEmpty(coll, 1) /\ nxt' = nxt /\ Log(Op("rmempty", 0, 0))
Flt(b)     == LET r == Filter(coll, Boxes[b], Len(coll)) IN r.ok /\ coll' = r.L /\ nxt' = nxt /\ Log(Op("filter", b, 0))
Gt(n)      == coll' = Renew(coll, nxt, "drop", n) /\ nxt' = nxt + Len(coll) /\ Log(Op("gt", n, 0))
Lt(n)      == coll' = Renew(coll, nxt, "chop", n) /\ nxt' = nxt + Len(coll) /\ Log(Op("lt", n, 0))
Cp         == coll' = Renew(coll, nxt, "id", 0) /\ nxt' = nxt + Len(coll) /\ Log(Op("copy", 0, 0))
Dup        == 2 * Len(coll) <= MaxLen /\ coll' = coll \o coll /\ nxt' = nxt /\ Log(Op("dup", 0, 0))          \* c + c shares the objects
Slice(a, b) == coll' = SubSeq(coll, a + 1, IF b < Len(coll) THEN b ELSE Len(coll)) /\ nxt' = nxt /\ Log(Op("slice", a, b))

Init == coll = <<>> /\ nxt = 1 /\ hist = <<>>
Next == /\ Len(hist) < MaxOps
        /\ \/ \E c \in DOMAIN Cat : Add(c)
           \/ /\ coll # <<>>
              /\ \/ \E i \in DOMAIN coll : Rm(i)
                 \/ RmE \/ Cp \/ Dup
                 \/ \E b \in DOMAIN Boxes : Flt(b)
                 \/ \E n \in {1, 2} : Gt(n)
                 \/ Lt(1)
                 \/ Slice(0, 2) \/ Slice(1, 3)
Spec == Init /\ [][Next]_vars

(* ---- observations ---------------------------------------------------------------------- *)
Alias(L) == [k \in DOMAIN L |-> Pos(L, L[k].oid)]
AllPts(L) == UNION {{Pts[L[k].pts[j]] : j \in DOMAIN L[k].pts} : k \in DOMAIN L}
Min(S) == CHOOSE m \in S : \A x \in S : m <= x
Max(S) == CHOOSE m \in S : \A x \in S : m >= x
BBoxOf(L) == IF L = <<>> \/ \E k \in DOMAIN L : L[k].pts = <<>> THEN <<>>
             ELSE LET P == AllPts(L) IN <<Min({p[1] : p \in P}), Max({p[1] : p \in P}), Min({p[2] : p \in P}), Max({p[2] : p \in P})>>
Emitted == ~Emit \/ PrintT(ToJson([hist |-> hist, pts |-> [k \in DOMAIN coll |-> coll[k].pts], alias |-> Alias(coll), bbox |-> BBoxOf(coll)]))

(* ---- checked in every state ---------------------------------------------------------------- *)
\* object ids are never invented twice: positions with the same id hold the same fixes
AliasConsistent == \A i, j \in DOMAIN coll : coll[i].oid = coll[j].oid => coll[i].pts = coll[j].pts
FreshBelowNext == \A i \in DOMAIN coll : coll[i].oid < nxt
\* every fix of every track is inside the bounding box of the collection (closed)
BBoxCovers == LET b == BBoxOf(coll) IN b # <<>> => \A p \in AllPts(coll) : b[1] <= p[1] /\ p[1] <= b[2] /\ b[3] <= p[2] /\ p[2] <= b[4]
Inv == AliasConsistent /\ FreshBelowNext /\ BBoxCovers /\ Emitted
\* step properties: the filter and the removals only remove, keeping the order of what stays
IsSubseq(a, b) == \E f \in [DOMAIN a -> DOMAIN b] : (\A i, j \in DOMAIN a : i < j => f[i] < f[j]) /\ \A i \in DOMAIN a : a[i] = b[f[i]]
OnlyRemoves == [][(hist' # hist /\ hist'[Len(hist')].op \in {"rm", "rmempty", "filter", "slice"}) => IsSubseq(coll', coll)]_vars
FilterKeepsInside == [][(hist' # hist /\ hist'[Len(hist')].op = "filter") =>
                           \A k \in DOMAIN coll' : AllIn(Boxes[hist'[Len(hist')].a], coll'[k])]_vars
\* named deviation (REFUTED by TLC in the driver's self-test)
RemoveEmptyComplete == [][(hist' # hist /\ hist'[Len(hist')].op = "rmempty") => \A k \in DOMAIN coll' : coll'[k].pts # <<>>]_vars
=============================================================================
