--------------------------- MODULE ProjectionTrace ---------------------------
(* code -> spec for C20: results recorded from proj_segment / proj_polyligne / mapOnTrack are judged by
   AcceptClause.  A rejected result on a polyline with a vertical segment that coincides with what the
   transcribed pinned branch (LegacyVertical) yields is reported under the clause "legacy_vertical"
   (known finding); any other rejected result keeps its own clause. *)
EXTENDS Projection, IOUtils, Json
VARIABLES l, nbad

Pt(p) == <<p[1], p[2]>>
Poly(e) == [k \in DOMAIN e.poly |-> Pt(e.poly[k])]
Clause(e) ==
   LET poly == Poly(e)
       q == Pt(e.q)
       acc == AcceptClause(poly, q, e)
   IN IF acc = "ok" THEN "ok"
      ELSE IF HasVertical(poly) /\ (\E r \in PolyAlgoSet(poly, q) : SameResult(e, r)) THEN "legacy_vertical"
      ELSE acc

Cases == ndJsonDeserialize(IOEnv.TRACE_FILE)
Bt == INSTANCE Batch WITH Clause <- Clause, Cases <- Cases
TSpec == Bt!TInit /\ A = <<0, 0>> /\ B = <<0, 0>> /\ C = <<0, 0>> /\ Q = <<0, 0>> /\ ph = 2
         /\ [][Bt!TNext /\ UNCHANGED vars]_<<l, nbad, vars>>
=============================================================================
