SPECIFICATION TSpec
CONSTANTS
  NodeIds = {1}
  MaxOps = 0
  Mode = "none"
CHECK_DEADLOCK FALSE
