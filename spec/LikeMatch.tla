------------------------------ MODULE LikeMatch ------------------------------
(***************************************************************************)
(* Growth next to C02 (Track.query's LIKE, TrackCollection.getTracks by uid /   *)
(* tid pattern, the time pattern of a selection constraint):                      *)
(* tracklib.core.utils.compLike(s, pattern), modelled as coded.                    *)
(*   pattern without '%' : TRUE iff s occurs INSIDE THE PATTERN (s in pattern -       *)
(*                         "'in' ('equal' yet to be decided)" says the source)          *)
(*   pattern with '%'    : the pieces between the '%' must occur in s in that order,      *)
(*                         without overlap; searched greedily (leftmost occurrence of       *)
(*                         each piece after the previous one); nothing anchors the first      *)
(*                         piece at the start or the last piece at the end of s                 *)
(* TLC (every string over {a, b} to MaxS characters x every pattern over {a, b, %} to MaxP):       *)
(*   GreedyIsComplete - the greedy search succeeds exactly when SOME placement of the pieces          *)
(*                      in order without overlap exists                                                *)
(*   MorePercentMoreMatches - inserting a '%' between two characters of a pattern that already           *)
(*                      holds one never loses a match                                                      *)
(* Named deviations from SQL's LIKE, refuted: NoWildcardMeansEqual, Anchored.                                *)
(* Every state prints (s, pattern, verdict); the driver replays them (spec -> code).                          *)
(***************************************************************************)
EXTENDS Integers, Sequences, FiniteSets, TLC, Json

CONSTANTS Emit, MaxS, MaxP
VARIABLES s, p
vars == <<s, p>>

Chars == {"a", "b"}
RECURSIVE Split(_, _)
\* pieces of q between the '%' characters; cur = the piece being read
Split(q, cur) == IF q = <<>> THEN <<cur>>
                 ELSE IF Head(q) = "%" THEN <<cur>> \o Split(Tail(q), <<>>) ELSE Split(Tail(q), Append(cur, Head(q)))
Pieces(q) == Split(q, <<>>)
At(str, tok, i) == i + Len(tok) <= Len(str) /\ \A k \in 1..Len(tok) : str[i + k] = tok[k]          \* tok occurs in str at offset i (0-based)
Find(str, tok) == IF \E i \in 0..Len(str) : At(str, tok, i) THEN CHOOSE i \in 0..Len(str) : At(str, tok, i) /\ \A j \in 0..(i - 1) : ~At(str, tok, j) ELSE -1
Drop(str, n) == SubSeq(str, n + 1, Len(str))
RECURSIVE Greedy(_, _)
Greedy(str, toks) == IF toks = <<>> THEN TRUE
                     ELSE LET i == Find(str, Head(toks)) IN IF i < 0 THEN FALSE ELSE Greedy(Drop(str, i + Len(Head(toks))), Tail(toks))
Inside(a, b) == \E i \in 0..Len(b) : At(b, a, i)
HasPercent(q) == \E k \in DOMAIN q : q[k] = "%"
Like(str, q) == IF HasPercent(q) THEN Greedy(str, Pieces(q)) ELSE Inside(str, q)

\* declarative: some placement of the pieces in order, without overlap
RECURSIVE Placeable(_, _, _)
Placeable(str, toks, from) == IF toks = <<>> THEN TRUE
                              ELSE \E i \in from..Len(str) : At(str, Head(toks), i) /\ Placeable(str, Tail(toks), i + Len(Head(toks)))

Strs(n, A) == UNION {[1..k -> A] : k \in 0..n}
Init == s \in Strs(MaxS, Chars) /\ p \in Strs(MaxP, Chars \cup {"%"})
Next == UNCHANGED vars
Spec == Init /\ [][Next]_vars

GreedyIsComplete == HasPercent(p) => (Greedy(s, Pieces(p)) <=> Placeable(s, Pieces(p), 0))
MorePercentMoreMatches == (HasPercent(p) /\ Like(s, p)) =>
                             \A k \in 1..(Len(p) - 1) : Like(s, SubSeq(p, 1, k) \o <<"%">> \o SubSeq(p, k + 1, Len(p)))
Emitted == ~Emit \/ PrintT(ToJson([s |-> s, p |-> p, like |-> Like(s, p)]))
Inv == GreedyIsComplete /\ MorePercentMoreMatches /\ Emitted
\* named deviations (REFUTED by TLC in the driver's self-test)
NoWildcardMeansEqual == ~HasPercent(p) => (Like(s, p) <=> s = p)
Anchored == (HasPercent(p) /\ p[1] # "%" /\ Like(s, p)) => (s # <<>> /\ s[1] = p[1])
=============================================================================
