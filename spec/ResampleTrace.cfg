SPECIFICATION TSpec
CONSTANTS
  MaxFixR = 2
  GapSet = {1}
  XSet = {0}
  Mode = "none"
CHECK_DEADLOCK FALSE
