SPECIFICATION TSpec
CONSTANTS
  MaxFix = 2
  LatS = 0
  Tol2x100 = {}
  Legacy = FALSE
  Mode = "none"
CHECK_DEADLOCK FALSE
