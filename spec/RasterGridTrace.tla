---------------------------- MODULE RasterGridTrace ----------------------------
(* code -> spec for C19: one record per summarize() call (grid geometry read from the raster, observations with their
   feature value, the cell assignment recovered from collectionValuesGrid through unique tags, the per-cell count of
   tags and the six aggregate grids) and one record per Raster.getCell(point) call. *)
EXTENDS RasterGrid, IOUtils, Json
VARIABLES l, nbad

OpSeq == <<"co_count", "co_sum", "co_min", "co_max", "co_avg", "co_median">>
GridSum(t) == LET RECURSIVE R(_)
                  R(i) == IF i = 0 THEN 0 ELSE ASum(t[i]) + R(i - 1)
              IN R(Len(t))
\* Infinite feature values are ordinary values of the order: they are coded +-InfV, beyond every finite value, so that count,
\* minimum and maximum are judged by the same definition; sum, mean and median of a cell holding one are left open.
InfV == 9998
HasInf(e) == \E k \in DOMAIN e.obs : e.obs[k][3] \in {InfV, 0 - InfV}
Judged(e) == IF HasInf(e) THEN {1, 3, 4} ELSE 1..6
ClauseSum(e) ==
   IF e.raised THEN "raised"
   ELSE LET obs == [k \in DOMAIN e.obs |-> <<e.obs[k][1], e.obs[k][2], e.obs[k][3]>>]
            a == AcceptAssignment(e.g, obs, e.cells)
        IN IF a # "ok" THEN a
           ELSE IF GridSum(e.tagcount) # Len(e.obs) THEN "counts_do_not_add_up_to_number_of_observations"
           ELSE LET bad == {<<o, r, c>> \in Judged(e) \X (0..(e.g.nrow - 1)) \X (0..(e.g.ncol - 1)) :
                               LET got == e.grids[o][r + 1][c + 1] IN
                               <<got[1], got[2], got[3]>> # AggDef(OpSeq[o], ValuesIn(obs, e.cells, r, c))}
                IN IF bad = {} THEN "ok"
                   ELSE LET o == CHOOSE x \in {b[1] : b \in bad} : \A y \in {b[1] : b \in bad} : x <= y IN "aggregate_differs_" \o OpSeq[o]
ClauseCell(e) ==
   IF e.none THEN "getCell_returned_None_inside_the_grid"
   ELSE IF ~InRange(e.g, e.col, e.row) THEN "cell_out_of_range"
   ELSE IF ~Footprint(e.g, e.col, e.row, <<e.P[1], e.P[2]>>) THEN "cell_footprint_does_not_contain_point"
   ELSE "ok"
Clause(e) == CASE e.ev = "sum" -> ClauseSum(e) [] e.ev = "cell" -> ClauseCell(e) [] OTHER -> "unknown_event"

Cases == ndJsonDeserialize(IOEnv.TRACE_FILE)
Bt == INSTANCE Batch WITH Clause <- Clause, Cases <- Cases
TSpec == Bt!TInit /\ g = 0 /\ P = <<0, 0>> /\ vals = <<>> /\ ph = 2 /\ [][Bt!TNext /\ UNCHANGED vars]_<<l, nbad, vars>>
=============================================================================
