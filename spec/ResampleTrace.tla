----------------------------- MODULE ResampleTrace -----------------------------
(* code -> spec for C05: outputs of Track.resample (temporal: step / list of instants / reference track, and the //
   operator; spatial: step) recorded as rows <<t_ms, x, y, z>> with exact fractions, judged by AcceptTemporal /
   AcceptSpatial.  For a numeric step the requested instants are computed by the specification (Requested). *)
EXTENDS Resample, IOUtils, Json
VARIABLES l, nbad

Rows(o) == [k \in DOMAIN o |-> <<o[k][1], <<o[k][2][1], o[k][2][2]>>, <<o[k][3][1], o[k][3][2]>>, <<o[k][4][1], o[k][4][2]>>>>]
PP(e) == [k \in DOMAIN e.P |-> <<e.P[k][1], e.P[k][2], e.P[k][3]>>]
\* growth: synchronize(track1, track2) resamples both tracks at the union of their timestamps lying strictly inside the
\* common time range; both results carry the same stamps and each is the linear interpolant of its own track
SetOf(sq) == {sq[k] : k \in DOMAIN sq}
ClauseSync(e) ==
   LET p1 == [k \in DOMAIN e.P |-> <<e.P[k][1], e.P[k][2], e.P[k][3]>>]
       p2 == [k \in DOMAIN e.P2 |-> <<e.P2[k][1], e.P2[k][2], e.P2[k][3]>>]
       tini == IF e.T[1] > e.T2[1] THEN e.T[1] ELSE e.T2[1]
       tfin == IF e.T[Len(e.T)] < e.T2[Len(e.T2)] THEN e.T[Len(e.T)] ELSE e.T2[Len(e.T2)]
       want == {t \in SetOf(e.T) \cup SetOf(e.T2) : tini < t /\ t < tfin}
       o1 == Rows(e.out)
       o2 == Rows(e.out2)
       st1 == [k \in DOMAIN o1 |-> o1[k][1]]
       st2 == [k \in DOMAIN o2 |-> o2[k][1]]
   IN IF st1 # st2 THEN "synchronised_tracks_carry_different_timestamps"
      ELSE IF SetOf(st1) # {500 * t : t \in want} THEN "synchronised_timestamps_are_not_the_common_instants"
      ELSE IF \E k \in 1..(Len(st1) - 1) : st1[k] > st1[k + 1] THEN "synchronised_timestamps_decrease"
      ELSE LET ref == [k \in DOMAIN st1 |-> st1[k] \div 500] IN
           IF AcceptTemporal(e.T, p1, ref, o1) # "ok" THEN "first_track_" \o AcceptTemporal(e.T, p1, ref, o1)
           ELSE IF AcceptTemporal(e.T2, p2, ref, o2) # "ok" THEN "second_track_" \o AcceptTemporal(e.T2, p2, ref, o2)
           ELSE "ok"
\* The front ends that give a NUMBER OF POINTS instead of a step (resample(npts = n, mode), resample(factor = k, mode),
\* track ** n, track * k) are DEFINED by the step form: step = (1 + 1e-8) * extent / n, extent = duration (temporal mode,
\* also **) or length (spatial mode, also *).  That step is not on the model's lattice, so the event carries the verdict of
\* the comparison of the two real results (same number of observations, same stamps, same coordinates).
ClauseFront(e) == IF e.raised THEN "raised"
                  ELSE IF ~e.same THEN "front_end_result_differs_from_the_step_form_with_the_documented_step" ELSE "ok"
Clause(e) ==
   IF e.ev = "front" THEN ClauseFront(e)
   ELSE IF e.raised THEN "raised"
   ELSE IF ~e.lat THEN "output_not_on_the_lattice_of_exact_interpolants"
   ELSE IF e.ev = "sync" THEN ClauseSync(e)
   ELSE IF e.ev = "T" THEN AcceptTemporal(e.T, PP(e), IF e.kind = "step" THEN Requested(e.T, e.d) ELSE e.ref, Rows(e.out))
   ELSE AcceptSpatial(e.T, PP(e), e.d, Rows(e.out))

Cases == ndJsonDeserialize(IOEnv.TRACE_FILE)
Bt == INSTANCE Batch WITH Clause <- Clause, Cases <- Cases
TSpec == Bt!TInit /\ T = <<>> /\ X = <<>> /\ req = <<>> /\ ph = 2 /\ [][Bt!TNext /\ UNCHANGED vars]_<<l, nbad, vars>>
=============================================================================
