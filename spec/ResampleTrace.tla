----------------------------- MODULE ResampleTrace -----------------------------
(* code -> spec for C05: outputs of Track.resample (temporal: step / list of instants / reference track, and the //
   operator; spatial: step) recorded as rows <<t_ms, x, y, z>> with exact fractions, judged by AcceptTemporal /
   AcceptSpatial.  For a numeric step the requested instants are computed by the specification (Requested). *)
EXTENDS Resample, IOUtils, Json
VARIABLES l, nbad

Rows(o) == [k \in DOMAIN o |-> <<o[k][1], <<o[k][2][1], o[k][2][2]>>, <<o[k][3][1], o[k][3][2]>>, <<o[k][4][1], o[k][4][2]>>>>]
PP(e) == [k \in DOMAIN e.P |-> <<e.P[k][1], e.P[k][2], e.P[k][3]>>]
Clause(e) ==
   IF e.raised THEN "raised"
   ELSE IF ~e.lat THEN "output_not_on_the_lattice_of_exact_interpolants"
   ELSE IF e.ev = "T" THEN AcceptTemporal(e.T, PP(e), IF e.kind = "step" THEN Requested(e.T, e.d) ELSE e.ref, Rows(e.out))
   ELSE AcceptSpatial(e.T, PP(e), e.d, Rows(e.out))

Cases == ndJsonDeserialize(IOEnv.TRACE_FILE)
Bt == INSTANCE Batch WITH Clause <- Clause, Cases <- Cases
TSpec == Bt!TInit /\ T = <<>> /\ X = <<>> /\ req = <<>> /\ ph = 2 /\ [][Bt!TNext /\ UNCHANGED vars]_<<l, nbad, vars>>
=============================================================================
