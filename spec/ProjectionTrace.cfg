SPECIFICATION TSpec
CONSTANTS
  LatMax = 1
  QPad = 0
  Mode = "none"
CHECK_DEADLOCK FALSE
