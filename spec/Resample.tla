------------------------------- MODULE Resample -------------------------------
(***************************************************************************)
(* C05 - linear resampling is the piecewise-linear interpolant              *)
(* (Track.resample, algo.interpolation.__resampleTemporal / __resampleSpatial,*)
(* prepareTimeSampling, Track // reference).                                  *)
(*                                                                         *)
(* Times are integers in ticks of half a second (T strictly increasing),      *)
(* positions integer triples, lengths integers in half ground units (legs of   *)
(* integer length, Geo2D).                                                     *)
(* Temporal  : Requested(step) = tini, tini+d, ... <= tfin (prepareTimeSampling);*)
(*             Kept = requested instants t with T[1] < t <= T[n], in order, one   *)
(*             output each (duplicates included); Bracket(t) = the i with          *)
(*             T[i-1] < t <= T[i]; position = linear interpolation, stamp = t.     *)
(* Spatial   : first fix, then samples at abscissas k*ds, k = 1..floor(L/ds), on    *)
(*             the 2-D polyline with linearly interpolated height and time.         *)
(* Algorithm : the forward-only running_id cursor with `continue` before the range   *)
(*             and `break` after it, transcribed; TLC checks it against the           *)
(*             definition for every chronologically ordered request, and that          *)
(*             spatial output times never decrease.                                    *)
(***************************************************************************)
EXTENDS Geo2D, FiniteSets, TLC

CONSTANTS MaxFixR, GapSet, XSet, Mode
VARIABLES T, X, req, ph
vars == <<T, X, req, ph>>

(* ---- temporal: definition -------------------------------------------------------- *)
RECURSIVE StepFrom(_, _, _)
StepFrom(t, d, tfin) == IF t + d > tfin THEN <<t>> ELSE <<t>> \o StepFrom(t + d, d, tfin)
Requested(tt, d) == StepFrom(tt[1], d, tt[Len(tt)])              \* d >= 1 tick
Kept(tt, ref) == SelectSeq(ref, LAMBDA t : tt[1] < t /\ t <= tt[Len(tt)])
Bracket(tt, t) == CHOOSE i \in 2..Len(tt) : tt[i - 1] < t /\ t <= tt[i]
\* linear interpolation of column c (a sequence of integers) at t: fraction
Lin(tt, c, t) == LET i == Bracket(tt, t) IN Frac(c[i - 1] * (tt[i] - t) + c[i] * (t - tt[i - 1]), tt[i] - tt[i - 1])
\* pp[k] = <<x, y, z>>; output row = <<t, fx, fy, fz>>
Col(pp, k) == [i \in DOMAIN pp |-> pp[i][k]]
TemporalDef(tt, pp, ref) == LET kp == Kept(tt, ref) IN
   [k \in DOMAIN kp |-> <<kp[k], Lin(tt, Col(pp, 1), kp[k]), Lin(tt, Col(pp, 2), kp[k]), Lin(tt, Col(pp, 3), kp[k])>>]

(* ---- temporal: transcription of __resampleTemporal ------------------------------------ *)
RECURSIVE Cursor(_, _, _)
Cursor(tt, rid, t) == IF tt[rid] < t THEN Cursor(tt, rid + 1, t) ELSE rid
RECURSIVE TLoop(_, _, _, _, _)
TLoop(tt, pp, ref, k, rid) ==
   IF k > Len(ref) THEN <<>>
   ELSE LET t == ref[k] IN
        IF t <= tt[1] THEN TLoop(tt, pp, ref, k + 1, rid)                 \* continue
        ELSE IF t > tt[Len(tt)] THEN <<>>                                  \* break
        ELSE LET r == Cursor(tt, rid, t)
                 w(c) == Frac(c[r - 1] * (tt[r] - t) + c[r] * (t - tt[r - 1]), tt[r] - tt[r - 1])
             IN << <<t, w(Col(pp, 1)), w(Col(pp, 2)), w(Col(pp, 3))>> >> \o TLoop(tt, pp, ref, k + 1, r)
TemporalAlgo(tt, pp, ref) == TLoop(tt, pp, ref, 1, 1)
Chronological(ref) == \A k \in 1..(Len(ref) - 1) : ref[k] <= ref[k + 1]

(* ---- spatial ---------------------------------------------------------------------------- *)
\* pp = fixes <<x,y,z>>, 2-D legs of integer length; S2 = doubled abscissas; ds2 = step in half units
XY(pp) == [i \in DOMAIN pp |-> <<pp[i][1], pp[i][2]>>]
S2(pp) == [i \in DOMAIN pp |-> 2 * CumLen(XY(pp), i)]
NSamples(pp, ds2) == S2(pp)[Len(pp)] \div ds2
SBracket(ss, s) == CHOOSE i \in 2..Len(ss) : ss[i - 1] < s /\ s <= ss[i]
SLin(ss, c, s) == LET i == SBracket(ss, s) IN Frac(c[i - 1] * (ss[i] - s) + c[i] * (s - ss[i - 1]), ss[i] - ss[i - 1])
\* rows <<ftime, fx, fy, fz>> with ftime a fraction of ticks
SpatialDef(tt, pp, ds2) ==
   LET ss == S2(pp) IN
   << <<Frac(tt[1], 1), Frac(pp[1][1], 1), Frac(pp[1][2], 1), Frac(pp[1][3], 1)>> >> \o
   [k \in 1..NSamples(pp, ds2) |-> <<SLin(ss, tt, k * ds2), SLin(ss, Col(pp, 1), k * ds2), SLin(ss, Col(pp, 2), k * ds2), SLin(ss, Col(pp, 3), k * ds2)>>]
RECURSIVE SLoop(_, _, _, _, _, _)
SLoop(tt, pp, ss, ds2, k, rid) ==
   IF k > ss[Len(ss)] \div ds2 THEN <<>>
   ELSE LET s == k * ds2
            r == Cursor(ss, rid, s)
            w(c) == Frac(c[r - 1] * (ss[r] - s) + c[r] * (s - ss[r - 1]), ss[r] - ss[r - 1])
        IN << <<w(tt), w(Col(pp, 1)), w(Col(pp, 2)), w(Col(pp, 3))>> >> \o SLoop(tt, pp, ss, ds2, k + 1, r)
SpatialAlgo(tt, pp, ds2) ==
   << <<Frac(tt[1], 1), Frac(pp[1][1], 1), Frac(pp[1][2], 1), Frac(pp[1][3], 1)>> >> \o SLoop(tt, pp, S2(pp), ds2, 1, 1)

(* ---- acceptance of recorded outputs --------------------------------------------------------- *)
\* temporal rows: <<t_ms, <<xn,xd>>, <<yn,yd>>, <<zn,zd>>>> with t_ms relative to the epoch of tick 0 (1 tick = 500 ms)
AcceptTemporal(tt, pp, ref, out) ==
   LET want == TemporalDef(tt, pp, ref) IN
   IF Len(out) # Len(want) THEN (IF Len(out) < Len(want) THEN "requested_instant_inside_the_range_missing" ELSE "more_observations_than_requested_instants_inside_the_range")
   ELSE IF \E k \in DOMAIN want : out[k][1] # 500 * want[k][1] THEN "observation_not_stamped_with_the_requested_instant"
   ELSE IF \E k \in DOMAIN want : ~(FrEq(out[k][2], want[k][2]) /\ FrEq(out[k][3], want[k][3]) /\ FrEq(out[k][4], want[k][4])) THEN "position_is_not_the_linear_interpolation"
   ELSE "ok"
\* spatial rows: time in ms, accepted within 1 ms of the exact interpolated instant (the implementation truncates to the ms)
AcceptSpatial(tt, pp, ds2, out) ==
   LET want == SpatialDef(tt, pp, ds2) IN
   IF Len(out) # Len(want) THEN "number_of_samples_differs_from_1_plus_floor_L_over_ds"
   ELSE IF \E k \in DOMAIN want : ~(FrEq(out[k][2], want[k][2]) /\ FrEq(out[k][3], want[k][3])) THEN "sample_not_on_the_polyline_at_abscissa_k_ds"
   ELSE IF \E k \in DOMAIN want : ~FrEq(out[k][4], want[k][4]) THEN "height_is_not_the_linear_interpolation"
   ELSE IF \E k \in DOMAIN want : GAbs(out[k][1] * want[k][1][2] - 500 * want[k][1][1]) > want[k][1][2] THEN "timestamp_is_not_the_linear_interpolation"
   ELSE IF \E k \in 1..(Len(out) - 1) : out[k + 1][1] < out[k][1] THEN "timestamps_decrease"
   ELSE "ok"

(* ---- design check -------------------------------------------------------------------------------- *)
RECURSIVE CumT(_, _)
CumT(t0, gaps) == IF gaps = <<>> THEN <<t0>> ELSE <<t0>> \o CumT(t0 + gaps[1], Tail(gaps))
Tracks == UNION {[1..n -> XSet] : n \in 2..MaxFixR}
Pos(xs) == [i \in DOMAIN xs |-> <<xs[i], 2 - xs[i], i * i>>]
\* spatial design check uses the walk (x cumulated) so that legs are integer: P2(xs)[i] = <<sum of xs[1..i], 0, ...>>
RECURSIVE CumX(_, _)
CumX(x0, xs) == IF xs = <<>> THEN <<>> ELSE << <<x0 + xs[1], 0, Len(xs)>> >> \o CumX(x0 + xs[1], Tail(xs))
Init == Mode = "mc" /\ ph = 0 /\ X \in Tracks /\ T = <<>> /\ req = <<>>
Next == /\ ph = 0 /\ ph' = 1 /\ X' = X
        /\ \E gp \in [1..(Len(X) - 1) -> GapSet] : T' = CumT(2, gp)
        /\ \/ \E d \in 1..8 : req' = <<"step", d>>
           \/ \E a, b, c \in 0..14 : req' = <<"list", a, b, c>>
Spec == Init /\ [][Next]_vars
Ref == IF req[1] = "step" THEN Requested(T, req[2]) ELSE SubSeq(<<req[2], req[3], req[4]>>, 1, 1 + ((req[2] + req[3]) % 3))
TemporalIsDefinition == (ph = 1 /\ Chronological(Ref)) => TemporalAlgo(T, Pos(X), Ref) = TemporalDef(T, Pos(X), Ref)
SpatialIsDefinition == (ph = 1 /\ req[1] = "step") =>
   LET pp == CumX(0, X) IN SpatialAlgo(T, pp, req[2]) = SpatialDef(T, pp, req[2])
SpatialTimesMonotone == (ph = 1 /\ req[1] = "step") =>
   LET o == SpatialDef(T, CumX(0, X), req[2]) IN \A k \in 1..(Len(o) - 1) : FrLe(o[k][1], o[k + 1][1])
=============================================================================
