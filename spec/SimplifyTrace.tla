----------------------------- MODULE SimplifyTrace -----------------------------
(* code -> spec for C16: tracks returned by simplify(track, tolerance, DOUGLAS_PEUCKER | VISVALINGAM), recorded as the
   list of input positions kept (1-based, 0 = an observation that is not one of the input's), judged by
   AcceptSimplification.  e.t2 = squared tolerance as a fraction. *)
EXTENDS Simplify, IOUtils, Json
VARIABLES l, nbad

Clause(e) ==
   IF e.raised THEN "raised"
   ELSE AcceptSimplification([k \in DOMAIN e.pts |-> <<e.pts[k][1], e.pts[k][2]>>], <<e.t2[1], e.t2[2]>>, e.out, e.ev = "dp")

Cases == ndJsonDeserialize(IOEnv.TRACE_FILE)
Bt == INSTANCE Batch WITH Clause <- Clause, Cases <- Cases
TSpec == Bt!TInit /\ pts = <<>> /\ tol2 = <<1, 1>> /\ ph = 2 /\ [][Bt!TNext /\ UNCHANGED vars]_<<l, nbad, vars>>
=============================================================================
