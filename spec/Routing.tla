------------------------------- MODULE Routing -------------------------------
(***************************************************************************)
(* C06 / C07 - shortest distances and shortest paths on a tracklib Network. *)
(*                                                                         *)
(* A graph is a sequence of edges <<s, t, w, o>>: stored source, stored     *)
(* target, non-negative weight, orientation (1 direct, -1 reverse, 0 both). *)
(* Definition  : Dist = Bellman-Ford fix-point = minimum total weight over  *)
(*               walks that take every edge in a permitted direction; Inf   *)
(*               when there is none.                                        *)
(* Algorithm   : the implementation's Dijkstra with a lazily updated        *)
(*               priority dictionary as a state machine (Start, Pop+Relax); *)
(*               every tie-breaking order is explored and TLC checks that   *)
(*               the settled weights equal Dist (mode "algo").              *)
(* Mode "table": every multigraph of the bounded family is printed with its *)
(*               distance table for replay into the real Network.          *)
(* AcceptPath  : acceptance predicate for a returned path (non-unique).     *)
(***************************************************************************)
EXTENDS Integers, Sequences, FiniteSets, TLC, Json

CONSTANTS NN,        \* nodes 0..NN-1
          MaxE,      \* at most MaxE edges
          Weights,   \* weight set
          Mode,      \* "table" | "algo" | "none"
          Emit

VARIABLES g, src, poids, visite, queue, pc
vars == <<g, src, poids, visite, queue, pc>>

Nodes == 0..(NN - 1)
Inf == 1000000
EdgeTypes == {<<s, t, w, o>> : s \in Nodes, t \in Nodes, w \in Weights, o \in {-1, 0, 1}}

\* permitted traversals <<from, to, weight, edge index>>
ArcsOf(G) == UNION { (IF G[j][4] >= 0 THEN {<<G[j][1], G[j][2], G[j][3], j>>} ELSE {})
                     \cup (IF G[j][4] <= 0 THEN {<<G[j][2], G[j][1], G[j][3], j>>} ELSE {}) : j \in DOMAIN G }
MinS(S) == CHOOSE m \in S : \A x \in S : m <= x
RECURSIVE BF(_, _, _, _)
\* TLCEval forces the (otherwise lazy) function of the previous round: without it every d[v] re-runs the recursion
BF(A, V, s, k) == IF k = 0 THEN [v \in V |-> IF v = s THEN 0 ELSE Inf]
                  ELSE LET d == TLCEval(BF(A, V, s, k - 1)) IN
                       TLCEval([v \in V |-> MinS({d[v]} \cup {d[a[1]] + a[3] : a \in {x \in A : x[2] = v /\ d[x[1]] < Inf}})])
\* distance table of graph G over node set V
DistFrom(G, V, s) == BF(ArcsOf(G), V, s, Cardinality(V))
Table(G, V) == [s \in V |-> DistFrom(G, V, s)]

(* ---- acceptance of a returned path ---------------------------------------- *)
\* geometry vertices: node v is vertex v; edge j has interior vertices 100+j then 200+j (source -> target)
HopGeom(G, j, from) == IF G[j][1] = from THEN <<100 + j, 200 + j>> ELSE <<200 + j, 100 + j>>
\* edges usable for the hop a -> b
HopEdges(G, a, b) == {x[4] : x \in {y \in ArcsOf(G) : y[1] = a /\ y[2] = b}}
AcceptPath(G, V, s, t, hasPath, path, geom) ==
   LET d == DistFrom(G, V, s)[t]
       h == Len(path) - 1
   IN IF ~hasPath THEN (IF d < Inf /\ s # t THEN "no_path_but_reachable" ELSE "ok")
      ELSE IF d = Inf THEN "path_but_unreachable"
      ELSE IF h < 1 \/ path[1] # s \/ path[h + 1] # t THEN "endpoints"
      ELSE IF Len(geom) # 3 * h + 1 THEN "geometry_length"
      ELSE IF \E k \in 1..(h + 1) : geom[3 * (k - 1) + 1] # path[k] THEN "geometry_junctions"
      ELSE IF \E k \in 1..h : ~(\E j \in HopEdges(G, path[k], path[k + 1]) :
                                   <<geom[3 * k - 1], geom[3 * k]>> = HopGeom(G, j, path[k])) THEN "hop_not_a_permitted_edge"
      ELSE LET used(k) == CHOOSE j \in HopEdges(G, path[k], path[k + 1]) : <<geom[3 * k - 1], geom[3 * k]>> = HopGeom(G, j, path[k])
               RECURSIVE W(_)
               W(k) == IF k = 0 THEN 0 ELSE W(k - 1) + G[used(k)][3]
           IN IF W(h) # d THEN "weight_not_optimal" ELSE "ok"

(* ---- the implementation's Dijkstra as a state machine ------------------------ *)
NextEdges(G, v) == {j \in DOMAIN G : (G[j][4] >= 0 /\ G[j][1] = v) \/ (G[j][4] <= 0 /\ G[j][2] = v)}
Other(G, j, v) == IF G[j][2] = v THEN G[j][1] ELSE G[j][2]      \* fils = target; if fils == pere: fils = source
\* relax the out-edges of p one after the other (the order does not change the weights)
RECURSIVE RelaxAll(_, _, _, _, _)
RelaxAll(G, p, js, w, q) ==
   IF js = {} THEN <<w, q>>
   ELSE LET j == CHOOSE x \in js : TRUE
            f == Other(G, j, p)
            better == ~visite[f] /\ f # p /\ (w[f] = -1 \/ w[p] + G[j][3] < w[f])
        IN RelaxAll(G, p, js \ {j},
                    IF better THEN [w EXCEPT ![f] = w[p] + G[j][3]] ELSE w,
                    IF better THEN q \cup {f} ELSE q)
\* canonical representative of a multiset of edges: non-decreasing sequence under a fixed total order
Rank(e) == ((e[1] * NN + e[2]) * 10 + e[3]) * 3 + e[4] + 1

Init == /\ g = <<>> /\ src = 0 /\ pc = "build"
        /\ poids = [v \in Nodes |-> -1]
        /\ visite = [v \in Nodes |-> FALSE]
        /\ queue = {}

\* graphs are built edge by edge (constructive, so that simulation can grow large ones too)
AddEdge(e) == /\ pc = "build" /\ Len(g) < MaxE
              /\ (IF g = <<>> THEN TRUE ELSE Rank(g[Len(g)]) <= Rank(e))
              /\ g' = Append(g, e)
              /\ UNCHANGED <<src, poids, visite, queue, pc>>
\* __resetFlags + source initialisation
Start(s) == /\ pc = "build" /\ Mode = "algo"
            /\ src' = s /\ poids' = [v \in Nodes |-> IF v = s THEN 0 ELSE -1]
            /\ visite' = [v \in Nodes |-> FALSE] /\ queue' = {s} /\ pc' = "run" /\ g' = g
ToEmit == /\ pc = "build" /\ Mode = "table" /\ pc' = "emit" /\ UNCHANGED <<g, src, poids, visite, queue>>

\* pop_smallest: any queued node of minimal tentative weight (ties are free)
Pop(p) == /\ Mode = "algo" /\ pc = "run" /\ p \in queue
          /\ \A q \in queue : poids[p] <= poids[q]
          /\ LET r == RelaxAll(g, p, NextEdges(g, p), poids, queue \ {p}) IN
             /\ visite' = [visite EXCEPT ![p] = TRUE]
             /\ poids' = r[1]
             /\ queue' = r[2]
          /\ UNCHANGED <<g, src, pc>>
Finish == /\ Mode = "algo" /\ pc = "run" /\ queue = {}
          /\ pc' = "done" /\ UNCHANGED <<g, src, poids, visite, queue>>
EmitTable == /\ Mode = "table" /\ pc = "emit"
             /\ (Emit => PrintT(ToJson([g |-> g, d |-> [s \in Nodes |-> [t \in Nodes |-> DistFrom(g, Nodes, s)[t]]]])))
             /\ pc' = "done" /\ UNCHANGED <<g, src, poids, visite, queue>>
Next == (\E e \in EdgeTypes : AddEdge(e)) \/ (\E s \in Nodes : Start(s)) \/ ToEmit
        \/ (\E p \in Nodes : Pop(p)) \/ Finish \/ EmitTable
Spec == Init /\ [][Next]_vars

(* ---- properties ------------------------------------------------------------------ *)
\* C06 on the model: when the search ends every node carries its true distance, -1 iff unreachable
AlgoCorrect == pc = "done" /\ Mode = "algo" =>
                  LET d == DistFrom(g, Nodes, src) IN
                  \A v \in Nodes : IF d[v] = Inf THEN poids[v] = -1 ELSE poids[v] = d[v]
\* a settled node already carries its final distance (what the early stop on the target relies on)
SettledFinal == Mode = "algo" =>
                  \A v \in Nodes : visite[v] => poids[v] = DistFrom(g, Nodes, src)[v]
\* the node about to be popped is final too (the implementation returns on popping the target)
PopFinal == Mode = "algo" /\ pc = "run" =>
              \A p \in queue : (\A q \in queue : poids[p] <= poids[q]) => poids[p] = DistFrom(g, Nodes, src)[p]
\* the definition itself: triangle inequality and symmetry on two-way graphs
DefSane == pc = "emit" => LET T == Table(g, Nodes) IN
           /\ \A s \in Nodes : T[s][s] = 0
           /\ \A a \in ArcsOf(g), s \in Nodes : T[s][a[1]] < Inf => T[s][a[2]] <= T[s][a[1]] + a[3]
=============================================================================
