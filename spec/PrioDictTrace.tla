----------------------------- MODULE PrioDictTrace -----------------------------
(* code -> spec: histories recorded from the real tracklib priority_dict.  One case = one history; every step logs
   the call, its result, the dictionary items and the internal heap list AFTER the call.  The specification's state is
   advanced by the functional form of the action the step names and must coincide with the logged dictionary and with
   the logged heap as a bag; pop / smallest must return the key the specification designates, or raise exactly when no
   live entry exists. *)
EXTENDS PrioDict, IOUtils, Json
VARIABLES l, nbad

ToD(items) == [k \in {items[j][1] : j \in DOMAIN items} |-> (CHOOSE j \in DOMAIN items : items[j][1] = k)]
DictOf(items) == LET idx == ToD(items) IN [k \in DOMAIN idx |-> items[idx[k]][2]]
BagOf(lst) == [x \in {<<lst[j][1], lst[j][2]>> : j \in DOMAIN lst} |-> Cardinality({j \in DOMAIN lst : <<lst[j][1], lst[j][2]>> = x})]
RECURSIVE Run(_, _, _, _)
Run(steps, i, dd, h) ==
   IF i > Len(steps) THEN "ok"
   ELSE LET e == steps[i]
            empty == LiveIn(dd, h) = {}
            nxt == CASE e.op = "set" -> SetF(dd, h, e.k, e.v)
                     [] e.op = "pop" -> IF empty THEN <<dd, EmptyF>> ELSE PopF(dd, h)
                     [] e.op = "smallest" -> IF empty THEN <<dd, EmptyF>> ELSE SmallestF(dd, h)
                     [] e.op = "del" -> DelF(dd, h, e.k)
                     [] e.op = "setdefault" -> SetDefaultF(dd, h, e.k, e.v)
                     [] e.op = "update" -> UpdateF(dd, h, e.k, e.v)
            want == IF e.op \in {"pop", "smallest"} /\ ~empty THEN FirstLiveIn(dd, h)[2] ELSE -1
        IN IF e.op \in {"pop", "smallest"} /\ empty /\ ~e.raised THEN "no_error_on_empty_queue"
           ELSE IF ~(e.op \in {"pop", "smallest"} /\ empty) /\ e.raised THEN "raised"
           ELSE IF e.op \in {"pop", "smallest"} /\ ~empty /\ e.res # want THEN "returned_key_is_not_the_smallest"
           ELSE IF DictOf(e.d) # nxt[1] THEN "dictionary_differs_after_" \o e.op
           ELSE IF BagOf(e.heap) # nxt[2] THEN "heap_differs_after_" \o e.op
           ELSE Run(steps, i + 1, nxt[1], nxt[2])
Clause(c) == Run(c.steps, 1, EmptyF, EmptyF)

Cases == ndJsonDeserialize(IOEnv.TRACE_FILE)
Bt == INSTANCE Batch WITH Clause <- Clause, Cases <- Cases
TSpec == Bt!TInit /\ d = EmptyF /\ heap = EmptyF /\ res = <<"init", 0, 0>> /\ n = 0 /\ [][Bt!TNext /\ UNCHANGED vars]_<<l, nbad, vars>>
=============================================================================
