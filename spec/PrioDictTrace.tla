----------------------------- MODULE PrioDictTrace -----------------------------
(* code -> spec: histories recorded from the real tracklib priority_dict.  One case = one history; every step logs
   the call, its result, the dictionary items and the internal heap list AFTER the call.  The specification's state is
   advanced by the functional form of the action the step names and must coincide with the logged dictionary and with
   the logged heap as a bag; pop / smallest must return the key the specification designates, or raise exactly when no
   live entry exists. *)
EXTENDS PrioDict, IOUtils, Json
VARIABLES l, nbad

ToD(items) == [k \in {items[j][1] : j \in DOMAIN items} |-> (CHOOSE j \in DOMAIN items : items[j][1] = k)]
DictOf(items) == LET idx == ToD(items) IN [k \in DOMAIN idx |-> items[idx[k]][2]]
BagOf(lst) == [x \in {<<lst[j][1], lst[j][2]>> : j \in DOMAIN lst} |-> Cardinality({j \in DOMAIN lst : <<lst[j][1], lst[j][2]>> = x})]
\* One history.  A FATAL clause (the queue hands out a key that is not of minimum priority, or fails) ends the run; a
\* divergence of the representation (which of several minima comes first, what the heap list holds) is remembered - the
\* first one is reported if nothing fatal follows - and the run goes on FROM THE OBSERVED STATE, so that later steps of
\* the same history are still judged.
RECURSIVE Run(_, _, _, _, _)
Run(steps, i, dd, h, note) ==
   IF i > Len(steps) THEN note
   ELSE LET e == steps[i]
            empty == LiveIn(dd, h) = {}
            nxt == CASE e.op = "set" -> SetF(dd, h, e.k, e.v)
                     [] e.op = "pop" -> IF empty THEN <<dd, EmptyF>> ELSE PopF(dd, h)
                     [] e.op = "smallest" -> IF empty THEN <<dd, EmptyF>> ELSE SmallestF(dd, h)
                     [] e.op = "del" -> DelF(dd, h, e.k)
                     [] e.op = "setdefault" -> SetDefaultF(dd, h, e.k, e.v)
                     [] e.op = "update" -> UpdateF(dd, h, e.k, e.v)
            want == IF e.op \in {"pop", "smallest"} /\ ~empty THEN FirstLiveIn(dd, h)[2] ELSE -1
            obs == <<DictOf(e.d), BagOf(e.heap)>>
            soft == IF e.op \in {"pop", "smallest"} /\ ~empty /\ e.res # want THEN "returned_key_is_not_the_smallest"
                    ELSE IF obs[1] # nxt[1] THEN "dictionary_differs_after_" \o e.op
                    ELSE IF obs[2] # nxt[2] THEN "heap_differs_after_" \o e.op
                    ELSE "ok"
        IN IF e.op \in {"pop", "smallest"} /\ empty /\ ~e.raised THEN "no_error_on_empty_queue"
           ELSE IF ~(e.op \in {"pop", "smallest"} /\ empty) /\ e.raised THEN "raised"
           \* the contract the routing relies on (fatal for C06 / C07): the key handed out has MINIMUM priority among the live keys
           ELSE IF e.op \in {"pop", "smallest"} /\ ~empty /\ (e.res \notin DOMAIN dd \/ \E k \in DOMAIN dd : dd[k] < dd[e.res])
                THEN "popped_key_not_of_minimum_priority"
           ELSE IF soft = "ok" THEN Run(steps, i + 1, nxt[1], nxt[2], note)
           ELSE Run(steps, i + 1, obs[1], obs[2], IF note = "ok" THEN soft ELSE note)
Clause(c) == Run(c.steps, 1, EmptyF, EmptyF, "ok")

Cases == ndJsonDeserialize(IOEnv.TRACE_FILE)
Bt == INSTANCE Batch WITH Clause <- Clause, Cases <- Cases
TSpec == Bt!TInit /\ d = EmptyF /\ heap = EmptyF /\ res = <<"init", 0, 0>> /\ n = 0 /\ [][Bt!TNext /\ UNCHANGED vars]_<<l, nbad, vars>>
=============================================================================
