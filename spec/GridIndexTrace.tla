--------------------------- MODULE GridIndexTrace ---------------------------
(* code -> spec for C08: calls recorded from the real SpatialIndex (integer sub-cell coordinates relative to the
   index origin) are judged by the no-omission predicates of GridIndex.tla.  Extra candidates are always accepted. *)
EXTENDS GridIndex, IOUtils, Json
VARIABLES l, nbad

ToSet(s) == {s[k] : k \in DOMAIN s}
Segs(poly) == {<<poly[k], poly[k + 1]>> : k \in 1..(Len(poly) - 1)}
RegAt(e, i, j) == UNION {ToSet(r[3]) : r \in {x \in ToSet(e.reg) : x[1] = i /\ x[2] = j}}
CellsOf(e) == (0..(e.cs - 1)) \X (0..(e.ls - 1))
Cr(e, P, Q, i, j) == CrossesG(P, Q, i, j, e.cx, e.cy, e.cs, e.ls)

\* (0) registration: every feature is registered in every cell one of its segments crosses
ClauseReg(e) ==
   IF \E f \in DOMAIN e.feats : \E sg \in Segs(e.feats[f]) : \E c \in CellsOf(e) :
         Cr(e, sg[1], sg[2], c[1], c[2]) /\ (f - 1) \notin RegAt(e, c[1], c[2])
   THEN "registration_omits_crossed_cell" ELSE "ok"
\* (1) point query: every feature having a segment through the cell of the point
ClausePoint(e) ==
   LET c == CellOfG(e.q, e.cx, e.cy, e.cs, e.ls) IN
   IF e.raised THEN "point_query_raised"
   ELSE IF \E f \in DOMAIN e.feats : \E sg \in Segs(e.feats[f]) :
         Cr(e, sg[1], sg[2], c[1], c[2]) /\ (f - 1) \notin ToSet(e.res)
   THEN "point_query_omits" ELSE "ok"
\* (2) segment / track query: every feature registered in a crossed cell
ClausePoly(e) ==
   IF e.raised THEN "segment_query_raised"
   ELSE IF \E sg \in Segs(e.q) : \E c \in CellsOf(e) :
         Cr(e, sg[1], sg[2], c[1], c[2]) /\ ~(RegAt(e, c[1], c[2]) \subseteq ToSet(e.res))
   THEN "segment_query_omits" ELSE "ok"
\* (3) neighbourhood with the radius converted from ground distance d
ClauseNbr(e) ==
   IF e.raised THEN "neighbourhood_raised"
   ELSE IF \E f \in DOMAIN e.feats : \E sg \in Segs(e.feats[f]) :
         NearSeg(e.q, sg[1], sg[2], e.d * e.d) /\ (f - 1) \notin ToSet(e.res)
   THEN "neighbourhood_omits" ELSE "ok"
\* (1') grids whose cell size is not a binary fraction (0.1 ...): coordinates and cell borders are then only approximately
\* where the integers of the model put them, so one thing only is claimed - a point query made AT A VERTEX of a feature
\* (identical floating-point coordinates) returns that feature
ClausePointVertex(e) ==
   IF e.raised THEN "point_query_raised"
   ELSE IF \E f \in DOMAIN e.feats : (\E k \in DOMAIN e.feats[f] : e.feats[f][k] = e.q) /\ (f - 1) \notin ToSet(e.res)
   THEN "point_query_at_a_vertex_omits_its_feature" ELSE "ok"
Clause(e) == CASE e.ev = "reg" -> ClauseReg(e)
               [] e.ev = "pointv" -> ClausePointVertex(e)
               [] e.ev = "point" -> ClausePoint(e)
               [] e.ev = "poly" -> ClausePoly(e)
               [] e.ev = "nbr" -> ClauseNbr(e)
               [] OTHER -> "unknown_event"

Cases == ndJsonDeserialize(IOEnv.TRACE_FILE)
Bt == INSTANCE Batch WITH Clause <- Clause, Cases <- Cases
TSpec == Bt!TInit /\ A = <<0, 0>> /\ B = <<0, 0>> /\ ph = 2 /\ [][Bt!TNext /\ UNCHANGED vars]_<<l, nbad, vars>>
=============================================================================
