SPECIFICATION TSpec
CONSTANTS
  NMax = 1
  KMax = 1
  SVals = {0}
  SThr = {0}
  Mode = "none"
CHECK_DEADLOCK FALSE
