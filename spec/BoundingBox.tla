---------------------------- MODULE BoundingBox ----------------------------
(***************************************************************************)
(* Growth next to C19 (the raster of a summary is laid over the bounding box  *)
(* of the collection, enlarged by a relative margin): tracklib.core.bbox.Bbox, *)
(* a MUTABLE rectangle that keeps REFERENCES to the two corner objects it was   *)
(* built from.  Boxes built from the corners of another box (getLowerLeft /      *)
(* getUpperRight hand out the objects) move together with it; `+' and copy()      *)
(* make fresh corners.  The state therefore is a store of corner objects and,     *)
(* per box, the ids of its two corners.                                            *)
(*                                                                         *)
(* Actions = public operations, one per call.  Every state prints its history and   *)
(* the four numbers of every box; the driver replays the history on real objects     *)
(* (spec -> code) and compares asTuple(), the index / name access, getDimensions()    *)
(* and which boxes share corner objects.                                               *)
(*                                                                         *)
(* Modelled as the code behaves; one deviation from the ideal is named and refuted:     *)
(*   TranslateMovesBy - a box whose two corners are ONE object (Bbox(p, p), a point)     *)
(*                      is translated twice by translate(dx, dy).                         *)
(***************************************************************************)
EXTENDS Integers, Sequences, FiniteSets, TLC, Json

CONSTANTS Emit, MaxOps
VARIABLES corner,     \* corner object id -> <<x, y>>
          box,        \* sequence of [ll |-> id, ur |-> id]
          hist
vars == <<corner, box, hist>>

Cat == << <<0, 0, 2, 1>>, <<1, -1, 3, 3>>, <<-2, 1, -1, 4>> >>      \* x0, y0, x1, y1 of the boxes that can be created
MaxBoxes == 3
Op(o, a, b, c) == [op |-> o, a |-> a, b |-> b, c |-> c]
Log(o) == hist' = Append(hist, o)
Fresh == Len(corner) + 1                                            \* corner is a sequence: ids 1..Len

Xmin(b) == corner[b.ll][1]
Ymin(b) == corner[b.ll][2]
Xmax(b) == corner[b.ur][1]
Ymax(b) == corner[b.ur][2]
Tuple(b) == <<Xmin(b), Xmax(b), Ymin(b), Ymax(b)>>                  \* asTuple(): xmin, xmax, ymin, ymax
Dims(b) == <<Xmax(b) - Xmin(b), Ymax(b) - Ymin(b)>>
Lo(a, b) == IF a < b THEN a ELSE b
Hi(a, b) == IF a > b THEN a ELSE b

\* two fresh corner objects holding p and q
WithBox(p, q) == /\ corner' = corner \o <<p, q>>
                 /\ box' = Append(box, [ll |-> Fresh, ur |-> Fresh + 1])

New(c)    == WithBox(<<Cat[c][1], Cat[c][2]>>, <<Cat[c][3], Cat[c][4]>>) /\ Log(Op("new", c, 0, 0))
\* Bbox(p, p): one object for both corners
Point(c)  == /\ corner' = Append(corner, <<Cat[c][1], Cat[c][2]>>)
             /\ box' = Append(box, [ll |-> Fresh, ur |-> Fresh])
             /\ Log(Op("point", c, 0, 0))
\* Bbox(b.getLowerLeft(), b.getUpperRight()): the corner OBJECTS are shared
Share(i)  == corner' = corner /\ box' = Append(box, box[i]) /\ Log(Op("share", i, 0, 0))
\* copy() is a deep copy: the copy of a one-object box is again a one-object box (on a fresh object)
Copy(i)   == /\ IF box[i].ll = box[i].ur
                THEN corner' = Append(corner, corner[box[i].ll]) /\ box' = Append(box, [ll |-> Fresh, ur |-> Fresh])
                ELSE WithBox(corner[box[i].ll], corner[box[i].ur])
             /\ Log(Op("copy", i, 0, 0))
\* b_i + b_j: copies of the corners of b_i, set to the extremes
Merge(i, j) == WithBox(<<Lo(Xmin(box[i]), Xmin(box[j])), Lo(Ymin(box[i]), Ymin(box[j]))>>,
                       <<Hi(Xmax(box[i]), Xmax(box[j])), Hi(Ymax(box[i]), Ymax(box[j]))>>) /\ Log(Op("merge", i, j, 0))

\* in-place operations: applied to the lower-left object, then to the upper-right object (the same object twice for a point box)
Apply2(i, F(_)) == LET c1 == [corner EXCEPT ![box[i].ll] = F(@)]
                   IN  corner' = [c1 EXCEPT ![box[i].ur] = F(@)] /\ box' = box
Translate(i, dx, dy) == LET T(p) == <<p[1] + dx, p[2] + dy>> IN Apply2(i, T) /\ Log(Op("translate", i, dx, dy))
Scale(i, h)          == LET S(p) == <<p[1] * h, p[2] * h>> IN Apply2(i, S) /\ Log(Op("scale", i, h, 0))
\* b[idx] = v, idx 0..3 = xmin, xmax, ymin, ymax
SetItem(i, idx, v) ==
   /\ corner' = CASE idx = 0 -> [corner EXCEPT ![box[i].ll] = <<v, @[2]>>]
                  [] idx = 1 -> [corner EXCEPT ![box[i].ur] = <<v, @[2]>>]
                  [] idx = 2 -> [corner EXCEPT ![box[i].ll] = <<@[1], v>>]
                  [] idx = 3 -> [corner EXCEPT ![box[i].ur] = <<@[1], v>>]
   /\ box' = box /\ Log(Op("setitem", i, idx, v))
\* addMargin(m), m a whole number: the dimensions are read ONCE, then the four setters are called in the order
\* xmin, xmax, ymin, ymax, each reading the current value of the side it moves
AddMargin(i, m) ==
   LET b  == box[i]
       d  == Dims(b)
       c1 == [corner EXCEPT ![b.ll] = <<@[1] - m * d[1], @[2]>>]
       c2 == [c1 EXCEPT ![b.ur] = <<@[1] + m * d[1], @[2]>>]
       c3 == [c2 EXCEPT ![b.ll] = <<@[1], @[2] - m * d[2]>>]
       c4 == [c3 EXCEPT ![b.ur] = <<@[1], @[2] + m * d[2]>>]
   IN  corner' = c4 /\ box' = box /\ Log(Op("margin", i, m, 0))

Init == corner = <<>> /\ box = <<>> /\ hist = <<>>
Next == /\ Len(hist) < MaxOps
        /\ \/ /\ Len(box) < MaxBoxes
              /\ \/ \E c \in DOMAIN Cat : New(c)
                 \/ Point(2)
                 \/ \E i \in DOMAIN box : Share(i) \/ Copy(i)
                 \/ \E i, j \in DOMAIN box : Merge(i, j)
           \/ \E i \in DOMAIN box :
                 \/ Translate(i, 1, -2)
                 \/ Scale(i, 2) \/ Scale(i, -1)
                 \/ AddMargin(i, 1)
                 \/ \E idx \in 0..3 : SetItem(i, idx, 5)
Spec == Init /\ [][Next]_vars

(* ---- observations ---------------------------------------------------------------------- *)
\* which boxes share a corner object with an earlier box (first such box, per position)
SharesWith(k) == CHOOSE j \in 1..k : {box[j].ll, box[j].ur} \cap {box[k].ll, box[k].ur} # {} /\
                                     \A m \in 1..(j - 1) : {box[m].ll, box[m].ur} \cap {box[k].ll, box[k].ur} = {}
Emitted == ~Emit \/ PrintT(ToJson([hist |-> hist, tuples |-> [k \in DOMAIN box |-> Tuple(box[k])],
                                   dims |-> [k \in DOMAIN box |-> Dims(box[k])], shares |-> [k \in DOMAIN box |-> SharesWith(k)]]))

(* ---- checked ------------------------------------------------------------------------------ *)
TypeOK == /\ \A k \in DOMAIN box : box[k].ll \in DOMAIN corner /\ box[k].ur \in DOMAIN corner
          /\ Len(box) <= MaxBoxes
Inv == TypeOK /\ Emitted
Last == hist'[Len(hist')]
Did(o) == hist' # hist /\ Last.op = o
New1 == box'[Len(box')]
Covers(t, u) == t[1] <= u[1] /\ u[2] <= t[2] /\ t[3] <= u[3] /\ u[4] <= t[4]        \* tuple t covers tuple u (closed rectangles)
TupleP(b) == <<corner'[b.ll][1], corner'[b.ur][1], corner'[b.ll][2], corner'[b.ur][2]>>
DimsP(b) == <<corner'[b.ur][1] - corner'[b.ll][1], corner'[b.ur][2] - corner'[b.ll][2]>>
\* creating a box never changes another one
CreationIsPure == [][(Did("new") \/ Did("point") \/ Did("share") \/ Did("copy") \/ Did("merge")) =>
                        \A k \in DOMAIN box : TupleP(box[k]) = Tuple(box[k])]_vars
\* `+' : least upper bound of its operands, on fresh corner objects
MergeIsLub == [][Did("merge") =>
                   LET t == TupleP(New1) a == Tuple(box[Last.a]) b == Tuple(box[Last.b])
                   IN  /\ Covers(t, a) /\ Covers(t, b)
                       /\ t[1] \in {a[1], b[1]} /\ t[2] \in {a[2], b[2]} /\ t[3] \in {a[3], b[3]} /\ t[4] \in {a[4], b[4]}
                       /\ \A k \in DOMAIN box : {box[k].ll, box[k].ur} \cap {New1.ll, New1.ur} = {}]_vars
CopyIsFresh == [][Did("copy") => /\ TupleP(New1) = Tuple(box[Last.a])
                                 /\ \A k \in DOMAIN box : {box[k].ll, box[k].ur} \cap {New1.ll, New1.ur} = {}]_vars
\* an in-place operation on box i changes exactly the boxes that share a corner object with it
InPlaceLocal == [][(Did("translate") \/ Did("scale") \/ Did("setitem") \/ Did("margin")) =>
                      \A k \in DOMAIN box : ({box[k].ll, box[k].ur} \cap {box[Last.a].ll, box[Last.a].ur} = {}) => TupleP(box[k]) = Tuple(box[k])]_vars
TranslateKeepsDims == [][Did("translate") => DimsP(box[Last.a]) = Dims(box[Last.a])]_vars
ScaleScalesDims == [][Did("scale") => DimsP(box[Last.a]) = <<Dims(box[Last.a])[1] * Last.b, Dims(box[Last.a])[2] * Last.b>>]_vars
\* a relative margin m on a box with two distinct corner objects multiplies both dimensions by 1 + 2m around the same centre
MarginGrows == [][(Did("margin") /\ box[Last.a].ll # box[Last.a].ur) =>
                     LET d == Dims(box[Last.a]) t == Tuple(box[Last.a]) u == TupleP(box[Last.a])
                     IN  /\ DimsP(box[Last.a]) = <<d[1] * (1 + 2 * Last.b), d[2] * (1 + 2 * Last.b)>>
                         /\ u[1] + u[2] = t[1] + t[2] /\ u[3] + u[4] = t[3] + t[4]]_vars
\* named deviation (REFUTED by TLC in the driver's self-test): translate(dx, dy) moves the box by (dx, dy)
TranslateMovesBy == [][Did("translate") =>
                         LET t == Tuple(box[Last.a]) u == TupleP(box[Last.a])
                         IN  u = <<t[1] + Last.b, t[2] + Last.b, t[3] + Last.c, t[4] + Last.c>>]_vars
=============================================================================
