----------------------------- MODULE CompareTrace -----------------------------
(* code -> spec: nearest-neighbour matchings recorded from match(.., NN) and values recorded from
   compare(.., POINTWISE, p) judged by Compare.tla. *)
EXTENDS Compare, IOUtils, Json
VARIABLES l, nbad

Clause(e) ==
   IF e.raised THEN "raised"
   ELSE IF e.ev = "nn" THEN AcceptNN(e.a, e.b, e.pairs, e.diff2)
   ELSE IF ~e.lat THEN "value_not_on_the_lattice"
   ELSE LET w == PointwiseWant(e.a, e.b, e.p) IN
        IF e.val[1] * w[2] = w[1] * e.val[2] THEN "ok" ELSE "pointwise_value_differs"

Cases == ndJsonDeserialize(IOEnv.TRACE_FILE)
Bt == INSTANCE Batch WITH Clause <- Clause, Cases <- Cases
TSpec == Bt!TInit /\ a = <<>> /\ b = <<>> /\ p = 1 /\ ph = 2 /\ [][Bt!TNext /\ UNCHANGED vars]_<<l, nbad, vars>>
=============================================================================
