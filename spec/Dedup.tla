-------------------------------- MODULE Dedup --------------------------------
(***************************************************************************)
(* Growth next to C04: Track.cleanDuplicates(code) - an observation is dropped   *)
(* when it equals its PREDECESSOR IN THE ORIGINAL TRACK on every component named   *)
(* by the code (X, Y, Z, T; here X, Y, T), so a run of equal observations            *)
(* collapses to its first one and equal observations that are not neighbours stay.    *)
(* TLC (every sequence of 0..MaxN observations over a 2 x 2 x 2 alphabet, every code):   *)
(*   KeepsFirst, Subsequence  - by construction of the designated positions            *)
(*   NoEqualNeighbours        - no two neighbours of the result are equal under the code  *)
(*   Idempotent               - cleaning the result again changes nothing                  *)
(*   CoarserKeepsLess         - the positions kept under a code are kept under every         *)
(*                              code that names more components                               *)
(* Every state prints the sequence and, per code, the positions kept; the driver replays        *)
(* them on a real track (spec -> code).                                                          *)
(***************************************************************************)
EXTENDS Integers, Sequences, FiniteSets, TLC, Json

CONSTANTS Emit, MaxN
VARIABLES s
vars == <<s>>

Alphabet == {<<x, y, t>> : x \in {0, 1}, y \in {0, 1}, t \in {0, 1}}
Codes == <<"X", "Y", "T", "XY", "XT", "XYT">>
Uses(code, c) == CASE c = 1 -> code \in {"X", "XY", "XT", "XYT"}
                   [] c = 2 -> code \in {"Y", "XY", "XYT"}
                   [] c = 3 -> code \in {"T", "XT", "XYT"}
Same(code, a, b) == \A c \in 1..3 : Uses(code, c) => a[c] = b[c]
Kept(q, code) == {k \in DOMAIN q : k = 1 \/ ~Same(code, q[k - 1], q[k])}
RECURSIVE AscFrom(_, _, _)
AscFrom(S, p, n) == IF p > n THEN <<>> ELSE (IF p \in S THEN <<p>> ELSE <<>>) \o AscFrom(S, p + 1, n)
KeptSeq(q, code) == AscFrom(Kept(q, code), 1, Len(q))
Clean(q, code) == LET ks == KeptSeq(q, code) IN [k \in DOMAIN ks |-> q[ks[k]]]

Init == s \in UNION {[1..n -> Alphabet] : n \in 0..MaxN}
Next == UNCHANGED s
Spec == Init /\ [][Next]_vars

NoEqualNeighbours == \A c \in DOMAIN Codes : LET r == Clean(s, Codes[c]) IN \A k \in 2..Len(r) : ~Same(Codes[c], r[k - 1], r[k])
Idempotent == \A c \in DOMAIN Codes : LET r == Clean(s, Codes[c]) IN Clean(r, Codes[c]) = r
Finer(a, b) == \A c \in 1..3 : Uses(a, c) => Uses(b, c)              \* b names at least the components of a
CoarserKeepsLess == \A a, b \in DOMAIN Codes : Finer(Codes[a], Codes[b]) => Kept(s, Codes[a]) \subseteq Kept(s, Codes[b])
KeepsFirst == \A c \in DOMAIN Codes : s # <<>> => 1 \in Kept(s, Codes[c])
Emitted == ~Emit \/ PrintT(ToJson([s |-> s, kept |-> [c \in DOMAIN Codes |-> KeptSeq(s, Codes[c])]]))
Inv == NoEqualNeighbours /\ Idempotent /\ CoarserKeepsLess /\ KeepsFirst /\ Emitted
=============================================================================
