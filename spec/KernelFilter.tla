----------------------------- MODULE KernelFilter -----------------------------
(***************************************************************************)
(* C15 - kernel smoothing is a renormalised local weighted mean             *)
(* (tracklib Operator.FILTER, algo.filtering.filter_seq, core.kernel).       *)
(*                                                                         *)
(* Signal x (integers, NaNv = not-a-number), odd list w of positive integer  *)
(* weights (N = 2D + 1), boundary flag.  Sample w[j] multiplies x[i-j+D]     *)
(* (0-based), as in the implementation.                                      *)
(* Definition : Out[i] = sum of w[j]*x[k] over valid j / sum of w[j] over     *)
(*              valid j, valid = k inside the track and x[k] not NaN; when     *)
(*              the boundary is not filtered the first and last D values are   *)
(*              the inputs themselves.  If some index has no valid sample the   *)
(*              call is arithmetic-undefined (0/0): nothing is claimed.         *)
(* TLC checks : the loop transcription (temp / norm accumulation, boundary       *)
(*              copy) equals the definition; constant signals are fixed; every    *)
(*              output lies in the hull of its window's valid inputs.             *)
(* Acceptance : AcceptFilter (exact fractions) for integer weight lists and       *)
(*              kernels with rational windows; AcceptFilterApprox (window scaled   *)
(*              by 10^4, outputs in 1/1000, tolerance 20/1000 + hull) for kernels   *)
(*              with transcendental windows; WindowFacts for toSlidingWindow().     *)
(***************************************************************************)
EXTENDS Geo2D, FiniteSets, TLC

CONSTANTS XVals, WVals, MaxN, MaxW, Mode
VARIABLES x, w, bd, ph
vars == <<x, w, bd, ph>>
NaNv == 9999

Half(ww) == Len(ww) \div 2
\* 1-based index of the sample multiplied by w[j] for output i
Src(i, j, D) == i - j + D + 1
ValidJ(xx, ww, i) == {j \in DOMAIN ww : Src(i, j, Half(ww)) \in DOMAIN xx /\ xx[Src(i, j, Half(ww))] # NaNv}
RECURSIVE SumOver(_, _)
SumOver(S, f) == IF S = {} THEN 0 ELSE LET j == CHOOSE j \in S : TRUE IN f[j] + SumOver(S \ {j}, f)
NumAt(xx, ww, i) == SumOver(ValidJ(xx, ww, i), [j \in DOMAIN ww |-> IF Src(i, j, Half(ww)) \in DOMAIN xx THEN ww[j] * xx[Src(i, j, Half(ww))] ELSE 0])
DenAt(xx, ww, i) == SumOver(ValidJ(xx, ww, i), ww)
CallUndef(xx, ww) == \E i \in DOMAIN xx : DenAt(xx, ww, i) = 0
InBoundary(xx, ww, i) == i <= Half(ww) \/ i > Len(xx) - Half(ww)
\* a value is <<0,0,1>> (NaN) or <<1, n, d>> (n/d reduced)
VNaN == <<0, 0, 1>>
VNum(f) == <<1, f[1], f[2]>>
OutAt(xx, ww, b, i) ==
   IF ~b /\ InBoundary(xx, ww, i) THEN (IF xx[i] = NaNv THEN VNaN ELSE <<1, xx[i], 1>>)
   ELSE VNum(Frac(NumAt(xx, ww, i), DenAt(xx, ww, i)))
Out(xx, ww, b) == [i \in DOMAIN xx |-> OutAt(xx, ww, b, i)]

(* ---- transcription of Filter.execute ---------------------------------------------- *)
RECURSIVE Accum(_, _, _, _, _, _)
\* j runs 1..N; returns <<temp, norm>>
Accum(xx, ww, i, j, temp, norm) ==
   IF j > Len(ww) THEN <<temp, norm>>
   ELSE LET k == Src(i, j, Half(ww)) IN
        IF k < 1 \/ k > Len(xx) THEN Accum(xx, ww, i, j + 1, temp, norm)
        ELSE IF xx[k] = NaNv THEN Accum(xx, ww, i, j + 1, temp, norm)
        ELSE Accum(xx, ww, i, j + 1, temp + xx[k] * ww[j], norm + ww[j])
LoopOut(xx, ww, b) ==
   LET t == [i \in DOMAIN xx |-> Accum(xx, ww, i, 1, 0, 0)]
       filt == [i \in DOMAIN xx |-> VNum(Frac(t[i][1], t[i][2]))]
   IN [i \in DOMAIN xx |-> IF ~b /\ InBoundary(xx, ww, i) THEN (IF xx[i] = NaNv THEN VNaN ELSE <<1, xx[i], 1>>) ELSE filt[i]]

(* ---- acceptance ------------------------------------------------------------------------ *)
AcceptFilter(xx, ww, b, raised, out) ==
   IF CallUndef(xx, ww) THEN "ok"
   ELSE IF raised THEN "raised"
   ELSE IF Len(out) # Len(xx) THEN "output_length_differs"
   ELSE LET bad == {i \in DOMAIN xx : <<out[i][1], out[i][2], out[i][3]>> # OutAt(xx, ww, b, i)} IN
        IF bad = {} THEN "ok"
        ELSE LET i == CHOOSE i \in bad : \A k \in bad : i <= k IN
             IF ~b /\ InBoundary(xx, ww, i) THEN "boundary_value_not_returned_unchanged"
             ELSE "output_is_not_the_renormalised_weighted_mean"
\* approximate mode: W = weights * 10^4 (rounded), o = outputs * 1000 (rounded), NaN outputs as ONaN
ONaN == 99999999
WinVals(xx, ww, i) == {xx[Src(i, j, Half(ww))] : j \in ValidJ(xx, ww, i)}
SetMin(S) == CHOOSE v \in S : \A u \in S : v <= u
SetMax(S) == CHOOSE v \in S : \A u \in S : v >= u
AcceptFilterApprox(xx, W, b, raised, o) ==
   IF CallUndef(xx, W) THEN "ok"
   ELSE IF raised THEN "raised"
   ELSE IF Len(o) # Len(xx) THEN "output_length_differs"
   ELSE IF \E i \in DOMAIN xx : ~b /\ InBoundary(xx, W, i) /\ o[i] # (IF xx[i] = NaNv THEN ONaN ELSE 1000 * xx[i]) THEN "boundary_value_not_returned_unchanged"
   ELSE IF \E i \in DOMAIN xx : (b \/ ~InBoundary(xx, W, i)) /\
              (o[i] = ONaN \/ o[i] < 1000 * SetMin(WinVals(xx, W, i)) - 1 \/ o[i] > 1000 * SetMax(WinVals(xx, W, i)) + 1) THEN "output_outside_the_hull_of_its_window"
   ELSE IF \E i \in DOMAIN xx : (b \/ ~InBoundary(xx, W, i)) /\
              GAbs(o[i] * DenAt(xx, W, i) - 1000 * NumAt(xx, W, i)) > 20 * DenAt(xx, W, i) THEN "output_is_not_the_renormalised_weighted_mean"
   ELSE "ok"
\* window of a kernel object, scaled by 10^6
WindowFacts(W, isup) ==
   IF Len(W) % 2 = 0 THEN "window_length_even"
   ELSE IF Len(W) # 2 * isup + 1 THEN "window_length_is_not_2_floor_support_plus_1"
   ELSE IF \E k \in DOMAIN W : W[k] < 0 THEN "negative_weight"
   ELSE IF \E k \in DOMAIN W : GAbs(W[k] - W[Len(W) + 1 - k]) > 1 THEN "window_not_symmetric"
   ELSE IF GAbs(SumOver(DOMAIN W, W) - 1000000) > Len(W) THEN "window_does_not_sum_to_1"
   ELSE "ok"

(* ---- design check -------------------------------------------------------------------------- *)
Signals == UNION {[1..n -> XVals] : n \in 3..MaxN}
Weights == UNION {[1..(2 * d + 1) -> WVals] : d \in 0..MaxW}
Init == Mode = "mc" /\ ph = 0 /\ x \in Signals /\ w = <<1>> /\ bd = FALSE
Next == ph = 0 /\ ph' = 1 /\ x' = x /\ w' \in {ww \in Weights : Len(ww) <= Len(x)} /\ bd' \in BOOLEAN
Spec == Init /\ [][Next]_vars
Defined == ph = 1 /\ ~CallUndef(x, w)
LoopIsDefinition == Defined => LoopOut(x, w, bd) = Out(x, w, bd)
ConstantFixed == (Defined /\ \A i \in DOMAIN x : x[i] = x[1] /\ x[1] # NaNv) => \A i \in DOMAIN x : OutAt(x, w, bd, i) = <<1, x[1], 1>>
HullProperty == Defined => \A i \in DOMAIN x : (bd \/ ~InBoundary(x, w, i)) =>
                   LET o == OutAt(x, w, bd, i)
                       V == WinVals(x, w, i)
                   IN FrLe(<<SetMin(V), 1>>, <<o[2], o[3]>>) /\ FrLe(<<o[2], o[3]>>, <<SetMax(V), 1>>)
=============================================================================
