------------------------------ MODULE Selection ------------------------------
(***************************************************************************)
(* Growth next to C04 (selecting the designated observations / tracks):      *)
(* tracklib.algo.selection - Constraint, TimeConstraint, TollGateConstraint,  *)
(* Selector, GlobalSelector.                                                  *)
(*                                                                         *)
(* A constraint is a shape (open rectangle, closed disc) with a time window    *)
(* and a mode (CROSSES / INSIDE / GETS_IN / GETS_OUT), or a toll gate (a          *)
(* segment the track has to cross).  A selector folds the verdicts of its          *)
(* constraints with AND / OR / XOR from the left, starting from the neutral          *)
(* element; a global selector folds selectors the same way.  Both are mutable:        *)
(* addConstraint, addSelector, setCombinationMode are the actions of the state         *)
(* machine below, and `contains' is the observation made in every state.                *)
(*                                                                         *)
(* Family "constraint": one state per constraint of the catalogue; the state prints       *)
(*   the verdict for EVERY track of 1..3 fixes over the point catalogue, the cut            *)
(*   (TYPE_CUT_AND_SELECT) of each track, and the sub-collection TYPE_SELECT returns.         *)
(* Family "combine"   : histories of at most MaxOps mutations of a global selector;             *)
(*   every state prints its history and the verdict vectors (per selector, global).               *)
(* The driver replays each printed state on the real classes (spec -> code).                        *)
(*                                                                         *)
(* Deviations of the code from the ideal, modelled as the code behaves and named:                     *)
(*   GateSound   - isSegmentIntersects is a pure straddle test (products <= 0): a degenerate             *)
(*                 or collinear segment on the gate's LINE but off the gate counts as crossing.            *)
(*   CutIntended - the cut of a shape constraint tests the time of the i-th observation of the                 *)
(*                 ORIGINAL track for the i-th observation that survived the shape.                            *)
(* TLC refutes both (self-tests in the driver), which pins the behaviour the specification describes.             *)
(***************************************************************************)
EXTENDS Integers, Sequences, FiniteSets, TLC, Json

CONSTANTS Family, Emit, MaxOps
VARIABLES g, hist
vars == <<g, hist>>

(* ---- geometry catalogue ------------------------------------------------------------ *)
Pts == << <<1, 1>>, <<2, 2>>, <<3, 2>>, <<4, 2>>, <<5, 2>>, <<7, 7>>, <<3, 6>> >>
NP == Len(Pts)
AllTracks == UNION {[1..n -> 1..NP] : n \in 1..3}        \* a track = the ids of its fixes; fix k has time k
P(tr, k) == Pts[tr[k]]

\* open rectangle ]0,4[ x ]0,4[ ; closed disc of centre (4,2) and radius 2
InShape(s, p) == IF s = "rect" THEN 0 < p[1] /\ p[1] < 4 /\ 0 < p[2] /\ p[2] < 4
                 ELSE (p[1] - 4) * (p[1] - 4) + (p[2] - 2) * (p[2] - 2) <= 4
InWin(w, t) == w = "any" \/ (2 <= t /\ t <= 3)

\* cartesian equation a x + b y + c of the line through a segment <<x1, y1, x2, y2>>, as geometry.cartesienne
Line(s) == LET a == s[4] - s[2]
               b == -(s[3] - s[1])
           IN <<a, b, -(a * s[1] + b * s[2])>>
Ev(l, x, y) == l[1] * x + l[2] * y + l[3]
SegX(s1, s2) == /\ Ev(Line(s1), s2[1], s2[2]) * Ev(Line(s1), s2[3], s2[4]) <= 0
                /\ Ev(Line(s2), s1[1], s1[2]) * Ev(Line(s2), s1[3], s1[4]) <= 0
GateSeg == <<3, 0, 3, 4>>
TSeg(tr, k) == <<P(tr, k)[1], P(tr, k)[2], P(tr, k + 1)[1], P(tr, k + 1)[2]>>
GateHolds(tr) == \E k \in 1..(Len(tr) - 1) : SegX(GateSeg, TSeg(tr, k))

\* the geometric truth, for the named deviation
Between(a, b, v) == (a <= v /\ v <= b) \/ (b <= v /\ v <= a)
OnSeg(s, x, y) == Ev(Line(s), x, y) = 0 /\ Between(s[1], s[3], x) /\ Between(s[2], s[4], y)
                  /\ (s[1] # s[3] \/ s[2] # s[4] \/ (x = s[1] /\ y = s[2]))
TrueX(s1, s2) == \/ /\ Ev(Line(s1), s2[1], s2[2]) * Ev(Line(s1), s2[3], s2[4]) < 0
                    /\ Ev(Line(s2), s1[1], s1[2]) * Ev(Line(s2), s1[3], s1[4]) < 0
                 \/ OnSeg(s1, s2[1], s2[2]) \/ OnSeg(s1, s2[3], s2[4])
                 \/ OnSeg(s2, s1[1], s1[2]) \/ OnSeg(s2, s1[3], s1[4])
GateTrue(tr) == \E k \in 1..(Len(tr) - 1) : TrueX(GateSeg, TSeg(tr, k))

(* ---- constraints ---------------------------------------------------------------------- *)
ShapeCons == [kind : {"shape"}, shape : {"rect", "circ"}, win : {"any", "w23"}, mode : 0..3]
GateCon == [kind |-> "gate", shape |-> "-", win |-> "any", mode |-> 0]
AllCons == ShapeCons \cup {GateCon}

ShapeHolds(c, tr) ==
   LET n == Len(tr)
       in(k) == InShape(c.shape, P(tr, k))
       tm(k) == InWin(c.win, k)
   IN CASE c.mode = 0 -> \E k \in 1..n : in(k) /\ tm(k)
        [] c.mode = 1 -> \A k \in 1..n : in(k) /\ tm(k)
        [] c.mode = 2 -> ~in(1) /\ \E k \in 2..n : in(k) /\ tm(k)
        [] c.mode = 3 -> in(1) /\ \E k \in 2..n : ~in(k) /\ tm(k)
Holds(c, tr) == IF c.kind = "gate" THEN GateHolds(tr) ELSE ShapeHolds(c, tr)

\* TYPE_CUT_AND_SELECT on one track: the positions (in the original track) of the observations kept
InIdx(c, tr) == SelectSeq([k \in 1..Len(tr) |-> k], LAMBDA k : InShape(c.shape, P(tr, k)))
CutLegacy(c, tr) == LET t == InIdx(c, tr) IN SelectSeq([i \in 1..Len(t) |-> <<i, t[i]>>], LAMBDA e : InWin(c.win, e[1]))
CutCode(c, tr) == LET r == CutLegacy(c, tr) IN [i \in 1..Len(r) |-> r[i][2]]
CutIdeal(c, tr) == SelectSeq([k \in 1..Len(tr) |-> k], LAMBDA k : InShape(c.shape, P(tr, k)) /\ InWin(c.win, k))

(* ---- combination ------------------------------------------------------------------------ *)
Comb(m, a, b) == CASE m = 0 -> a /\ b [] m = 1 -> a \/ b [] m = 2 -> (a /\ ~b) \/ (~a /\ b)
RECURSIVE Fold(_, _, _)
Fold(m, acc, bs) == IF bs = <<>> THEN acc ELSE Fold(m, Comb(m, acc, Head(bs)), Tail(bs))
Count(bs) == Cardinality({k \in DOMAIN bs : bs[k]})
Closed(m, bs) == CASE m = 0 -> Count(bs) = Len(bs) [] m = 1 -> Count(bs) > 0 [] m = 2 -> Count(bs) % 2 = 1

\* the catalogue the mutations draw from, and the tracks observed in every state of the "combine" family
CCons == << [kind |-> "shape", shape |-> "rect", win |-> "any", mode |-> 0],
            [kind |-> "shape", shape |-> "circ", win |-> "any", mode |-> 1],
            [kind |-> "shape", shape |-> "rect", win |-> "w23", mode |-> 3],
            GateCon,
            [kind |-> "shape", shape |-> "circ", win |-> "w23", mode |-> 0] >>
CTracks == << <<1>>, <<4>>, <<2, 4>>, <<1, 5>>, <<6, 2>>, <<3, 3, 6>>, <<2, 3, 5>>, <<5, 4, 1>>, <<7, 7>>, <<6, 1, 4>>, <<4, 4, 4>>, <<1, 6, 6>> >>

ConsVerdicts(s, tr) == [k \in DOMAIN s.cons |-> Holds(CCons[s.cons[k]], tr)]
SelHolds(s, tr) == Fold(s.comb, s.comb = 0, ConsVerdicts(s, tr))
SelVerdicts(gg, tr) == [k \in DOMAIN gg.sels |-> SelHolds(gg.sels[k], tr)]
GHolds(gg, tr) == Fold(gg.comb, gg.comb = 0, SelVerdicts(gg, tr))

(* ---- state machine ---------------------------------------------------------------------- *)
Op(o, i, c, m) == [op |-> o, i |-> i, c |-> c, m |-> m]
NewSel(c, m)  == /\ Len(g.sels) < 2
                 /\ g' = [g EXCEPT !.sels = Append(@, [comb |-> m, cons |-> <<c>>])]
                 /\ hist' = Append(hist, Op("newsel", 0, c, m))
AddCon(i, c)  == /\ Len(g.sels[i].cons) < 3
                 /\ g' = [g EXCEPT !.sels[i].cons = Append(@, c)]
                 /\ hist' = Append(hist, Op("addc", i, c, 0))
SetComb(i, m) == /\ g.sels[i].comb # m
                 /\ g' = [g EXCEPT !.sels[i].comb = m]
                 /\ hist' = Append(hist, Op("setc", i, 0, m))
SetG(m)       == /\ g.comb # m
                 /\ g' = [g EXCEPT !.comb = m]
                 /\ hist' = Append(hist, Op("setg", 0, 0, m))

Init == IF Family = "constraint"
        THEN hist = <<>> /\ g \in {[comb |-> 0, sels |-> <<>>, con |-> c] : c \in AllCons}
        ELSE hist = <<>> /\ g = [comb |-> 0, sels |-> <<>>]
Next == /\ Family = "combine" /\ Len(hist) < MaxOps
        /\ \/ \E c \in DOMAIN CCons, m \in 0..2 : NewSel(c, m)
           \/ \E i \in DOMAIN g.sels, c \in DOMAIN CCons : AddCon(i, c)
           \/ \E i \in DOMAIN g.sels, m \in 0..2 : SetComb(i, m)
           \/ \E m \in 0..2 : SetG(m)
Spec == Init /\ [][Next]_vars

(* ---- emission ------------------------------------------------------------------------------ *)
SelectIdx(c) == SelectSeq([k \in DOMAIN CTracks |-> k], LAMBDA k : Holds(c, CTracks[k]))
EmitConstraint ==
   PrintT(ToJson([fam |-> "constraint", con |-> g.con,
                  res |-> {<<tr, Holds(g.con, tr), IF g.con.kind = "gate" THEN <<>> ELSE CutCode(g.con, tr)>> : tr \in AllTracks},
                  sel |-> SelectIdx(g.con)]))
EmitCombine ==
   PrintT(ToJson([fam |-> "combine", hist |-> hist,
                  sels |-> [k \in DOMAIN CTracks |-> SelVerdicts(g, CTracks[k])],
                  glob |-> [k \in DOMAIN CTracks |-> GHolds(g, CTracks[k])]]))
Emitted == ~Emit \/ (IF Family = "constraint" THEN EmitConstraint ELSE EmitCombine)

(* ---- what TLC checks in every state --------------------------------------------------------------- *)
\* the left fold from the neutral element is the closed form (all / any / odd number of), at both levels
FoldIsClosedForm ==
   Family = "combine" =>
      \A k \in DOMAIN CTracks :
         /\ \A i \in DOMAIN g.sels : SelHolds(g.sels[i], CTracks[k]) = Closed(g.sels[i].comb, ConsVerdicts(g.sels[i], CTracks[k]))
         /\ GHolds(g, CTracks[k]) = Closed(g.comb, SelVerdicts(g, CTracks[k]))
\* relations between the modes of one shape and window
ModeAlgebra ==
   Family = "constraint" /\ g.con.kind = "shape" =>
      \A tr \in AllTracks :
         LET h(m) == Holds([g.con EXCEPT !.mode = m], tr) IN
         /\ h(1) => h(0)                   \* wholly inside (a track has at least one fix) => crosses
         /\ h(2) => h(0) /\ ~h(1)           \* gets in => crosses, and is not wholly inside
         /\ h(3) => ~h(1)                    \* gets out => not wholly inside
         /\ ~(h(2) /\ h(3))                   \* a track starts inside or outside, not both
\* a cut never invents or reorders observations, and everything it keeps is inside the shape
CutSound ==
   Family = "constraint" /\ g.con.kind = "shape" =>
      \A tr \in AllTracks : LET r == CutCode(g.con, tr) IN
         /\ \A i \in 1..(Len(r) - 1) : r[i] < r[i + 1]
         /\ \A i \in DOMAIN r : r[i] \in 1..Len(tr) /\ InShape(g.con.shape, P(tr, r[i]))
\* selection keeps the order of the collection and returns exactly the tracks the constraint holds for
SelectSound ==
   Family = "constraint" =>
      LET r == SelectIdx(g.con) IN /\ \A i \in 1..(Len(r) - 1) : r[i] < r[i + 1]
                                   /\ {r[i] : i \in DOMAIN r} = {k \in DOMAIN CTracks : Holds(g.con, CTracks[k])}
\* a crossing reported by the gate is a crossing ... except for the named deviations below
GateComplete == Family = "constraint" /\ g.con.kind = "gate" => \A tr \in AllTracks : GateTrue(tr) => GateHolds(tr)
Inv == FoldIsClosedForm /\ ModeAlgebra /\ CutSound /\ SelectSound /\ GateComplete /\ Emitted

\* named deviations (each REFUTED by TLC in the driver's self-tests)
GateSound   == Family = "constraint" /\ g.con.kind = "gate" => \A tr \in AllTracks : GateHolds(tr) => GateTrue(tr)
CutIntended == Family = "constraint" /\ g.con.kind = "shape" => \A tr \in AllTracks : CutCode(g.con, tr) = CutIdeal(g.con, tr)
=============================================================================
