------------------------------- MODULE PrioDict -------------------------------
(***************************************************************************)
(* Growth beyond the listed properties: tracklib.core.utils.priority_dict,   *)
(* the priority queue under Dijkstra routing (C06, C07) and fast DTW (C18).   *)
(*                                                                         *)
(* State (implementation-shaped): d = the dictionary key -> priority, heap =   *)
(* the bag of (priority, key) entries, stale ones included (an entry is live    *)
(* iff d maps its key to its priority).                                         *)
(* Actions: Set (push, or rebuild when the heap holds >= 2 |d| entries), Pop      *)
(* (discard entries in heap order until a live one, remove its key), Smallest      *)
(* (same without removing the key), Del (dict deletion: leaves stale entries),      *)
(* SetDefault, Update (rebuild).                                                    *)
(* Invariants: HeapCovers (every live pair is in the heap) - which is what makes     *)
(* Pop return a key of minimum priority (PopIsMin, action property) - and             *)
(* HeapBounded (|heap| <= 2 |d| + 1 after a Set).                                     *)
(* PrioDictTrace validates recorded histories of the real class step by step.          *)
(***************************************************************************)
EXTENDS Integers, Sequences, FiniteSets, TLC

CONSTANTS Keys, Prios, MaxSteps, Mode
VARIABLES d, heap, res, n
vars == <<d, heap, res, n>>

\* d: function on a subset of Keys; heap: function from <<prio, key>> to its multiplicity (> 0)
Dom(f) == DOMAIN f
BagAdd(b, x) == IF x \in DOMAIN b THEN [b EXCEPT ![x] = @ + 1] ELSE [y \in DOMAIN b \cup {x} |-> IF y = x THEN 1 ELSE b[y]]
BagRemoveAll(b, S) == [y \in DOMAIN b \ S |-> b[y]]
BagDec(b, x) == IF b[x] = 1 THEN [y \in DOMAIN b \ {x} |-> b[y]] ELSE [b EXCEPT ![x] = @ - 1]
RECURSIVE SumBag(_, _)
SumBag(b, S) == IF S = {} THEN 0 ELSE LET x == CHOOSE x \in S : TRUE IN b[x] + SumBag(b, S \ {x})
BagSize(b) == SumBag(b, DOMAIN b)
Rebuild(dd) == [x \in {<<dd[k], k>> : k \in DOMAIN dd} |-> 1]
Live(dd, x) == x[2] \in DOMAIN dd /\ dd[x[2]] = x[1]
Less(x, y) == x[1] < y[1] \/ (x[1] = y[1] /\ x[2] < y[2])           \* tuple order of heapq
Put(dd, k, v) == [y \in DOMAIN dd \cup {k} |-> IF y = k THEN v ELSE dd[y]]
Drop(dd, k) == [y \in DOMAIN dd \ {k} |-> dd[y]]

SetH(dd2, h, k, v) == IF BagSize(h) < 2 * Cardinality(DOMAIN dd2) THEN BagAdd(h, <<v, k>>) ELSE Rebuild(dd2)
\* functional forms <<d', heap'>> (shared by the actions below and by PrioDictTrace)
SetF(dd, h, k, v) == <<Put(dd, k, v), SetH(Put(dd, k, v), h, k, v)>>
LiveIn(dd, h) == {x \in DOMAIN h : Live(dd, x)}
\* the first live entry in heap order; everything before it is discarded (all copies), one copy of it is consumed
FirstLiveIn(dd, h) == CHOOSE x \in LiveIn(dd, h) : \A y \in LiveIn(dd, h) : x = y \/ Less(x, y)
BeforeIn(h, x) == {y \in DOMAIN h : Less(y, x)}
PopF(dd, h) == LET x == FirstLiveIn(dd, h) IN <<Drop(dd, x[2]), BagDec(BagRemoveAll(h, BeforeIn(h, x)), x)>>
SmallestF(dd, h) == LET x == FirstLiveIn(dd, h) IN <<dd, BagRemoveAll(h, BeforeIn(h, x))>>
DelF(dd, h, k) == <<Drop(dd, k), h>>
SetDefaultF(dd, h, k, v) == IF k \in DOMAIN dd THEN <<dd, h>> ELSE SetF(dd, h, k, v)
UpdateF(dd, h, k, v) == <<Put(dd, k, v), Rebuild(Put(dd, k, v))>>

Set(k, v) == (LET r == SetF(d, heap, k, v) IN d' = r[1] /\ heap' = r[2]) /\ res' = <<"set", k, v>>
Pop == /\ LiveIn(d, heap) # {} /\ (LET r == PopF(d, heap) IN d' = r[1] /\ heap' = r[2])
       /\ res' = <<"pop", FirstLiveIn(d, heap)[2], FirstLiveIn(d, heap)[1]>>
Smallest == /\ LiveIn(d, heap) # {} /\ (LET r == SmallestF(d, heap) IN d' = r[1] /\ heap' = r[2])
            /\ res' = <<"smallest", FirstLiveIn(d, heap)[2], FirstLiveIn(d, heap)[1]>>
Del(k) == k \in DOMAIN d /\ (LET r == DelF(d, heap, k) IN d' = r[1] /\ heap' = r[2]) /\ res' = <<"del", k, 0>>
SetDefault(k, v) == (LET r == SetDefaultF(d, heap, k, v) IN d' = r[1] /\ heap' = r[2]) /\ res' = <<"setdefault", k, IF k \in DOMAIN d THEN d[k] ELSE v>>
UpdateOne(k, v) == (LET r == UpdateF(d, heap, k, v) IN d' = r[1] /\ heap' = r[2]) /\ res' = <<"update", k, v>>

EmptyF == [x \in {} |-> 0]
Init == Mode = "mc" /\ d = EmptyF /\ heap = EmptyF /\ res = <<"init", 0, 0>> /\ n = 0
Next == /\ n < MaxSteps /\ n' = n + 1
        /\ \/ \E k \in Keys, v \in Prios : Set(k, v) \/ SetDefault(k, v) \/ UpdateOne(k, v)
           \/ Pop \/ Smallest \/ \E k \in Keys : Del(k)
Spec == Init /\ [][Next]_vars

HeapCovers == \A k \in DOMAIN d : <<d[k], k>> \in DOMAIN heap
HeapBounded == BagSize(heap) <= 2 * Cardinality(DOMAIN d) + 2 * MaxSteps
\* what a caller relies on: the popped key had a minimum priority, only that key left the dictionary
PopIsMin == [][res'[1] = "pop" =>
                 /\ res'[2] \in DOMAIN d /\ d[res'[2]] = res'[3]
                 /\ \A k \in DOMAIN d : d[k] >= res'[3]
                 /\ d' = Drop(d, res'[2])]_vars
=============================================================================
