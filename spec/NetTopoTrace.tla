----------------------------- MODULE NetTopoTrace -----------------------------
(* code -> spec: histories of Network.addNode / addEdge recorded from the real class; after every call the node and edge
   id lists and the six adjacency tables (as returned by getNextEdges, getPrevEdges, getIncidentEdges, getNextNodes,
   getPrevNodes, getAdjacentNodes) are logged.  The specification's state is advanced by AddNodeF / AddEdgeF and must
   coincide with the logged tables. *)
EXTENDS NetTopo, IOUtils, Json
VARIABLES l, nbad

Tab(rows) == [v \in {rows[k][1] : k \in DOMAIN rows} |-> rows[CHOOSE k \in DOMAIN rows : rows[k][1] = v][2]]
RECURSIVE Run(_, _, _)
Run(steps, i, st) ==
   IF i > Len(steps) THEN "ok"
   ELSE LET e == steps[i]
            nx == IF e.op = "node" THEN AddNodeF(st, e.v) ELSE AddEdgeF(st, [id |-> e.id, s |-> e.s, t |-> e.t, o |-> e.o])
        IN IF e.raised THEN "raised"
           ELSE IF e.nodes # nx.nodes THEN "node_list_differs"
           ELSE IF e.edges # [k \in DOMAIN nx.edges |-> nx.edges[k].id] THEN "edge_list_differs"
           ELSE IF Tab(e.nextE) # nx.nextE THEN "next_edges_differ"
           ELSE IF Tab(e.prevE) # nx.prevE THEN "previous_edges_differ"
           ELSE IF Tab(e.nbgrE) # nx.nbgrE THEN "incident_edges_differ"
           ELSE IF Tab(e.nextN) # nx.nextN THEN "next_nodes_differ"
           ELSE IF Tab(e.prevN) # nx.prevN THEN "previous_nodes_differ"
           ELSE IF Tab(e.nbgrN) # nx.nbgrN THEN "adjacent_nodes_differ"
           ELSE IF e.ends # [k \in DOMAIN nx.edges |-> <<nx.edges[k].s, nx.edges[k].t>>] THEN "edge_end_nodes_differ"
           ELSE Run(steps, i + 1, nx)
Clause(c) == Run(c.steps, 1, Init0)

Cases == ndJsonDeserialize(IOEnv.TRACE_FILE)
Bt == INSTANCE Batch WITH Clause <- Clause, Cases <- Cases
TSpec == Bt!TInit /\ n = 0 /\ nodes = <<>> /\ edges = <<>> /\ nextE = EmptyT /\ prevE = EmptyT /\ nbgrE = EmptyT
         /\ nextN = EmptyT /\ prevN = EmptyT /\ nbgrN = EmptyT /\ [][Bt!TNext /\ UNCHANGED vars]_<<l, nbad, vars>>
=============================================================================
