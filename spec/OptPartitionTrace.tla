-------------------------- MODULE OptPartitionTrace --------------------------
(* code -> spec for C12: lists returned by optimalPartition / optimalSegmentation / findStops-style callers are judged
   by AcceptPartition against the brute-force optimum over all 2^(n-2) strictly increasing lists.  e.c is the full
   n x n matrix of integers (real-valued costs k/1024 travel as k), e.mode 0 = minimise, 1 = maximise. *)
EXTENDS OptPartition, IOUtils, Json
VARIABLES l, nbad

Mat(e) == [p \in {<<i, j>> \in (0..(e.n - 1)) \X (0..(e.n - 1)) : i < j} |-> e.c[p[1] + 1][p[2] + 1]]
Clause(e) == IF e.raised THEN "raised" ELSE AcceptPartition(Mat(e), e.n, e.mode, e.res)

Cases == ndJsonDeserialize(IOEnv.TRACE_FILE)
Bt == INSTANCE Batch WITH Clause <- Clause, Cases <- Cases
TSpec == Bt!TInit /\ C = <<>> /\ mode = 0 /\ ph = 2 /\ [][Bt!TNext /\ UNCHANGED vars]_<<l, nbad, vars>>
=============================================================================
