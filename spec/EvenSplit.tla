------------------------------ MODULE EvenSplit ------------------------------
(***************************************************************************)
(* Growth next to C11 (cutting a track into pieces): the operator  track / n,   *)
(* modelled as coded.  With N = floor(size / n) the i-th piece (i = 0..n-1)       *)
(* holds the observations at positions i N .. (i + 1) N - 1; it shares the Obs      *)
(* objects and carries the feature table over.  The last  size mod n  observations    *)
(* are in NO piece (the source says "returns n+1 segments"; it returns n).             *)
(* TLC (every size 0..MaxSize x every n in 1..MaxN):                                     *)
(*   Disjoint, Ordered  - the pieces are consecutive blocks in the original order         *)
(*   EqualSizes         - every piece has floor(size / n) observations                     *)
(*   CoversAll          - named deviation, REFUTED: every observation is in some piece      *)
(* Every state prints (size, n, pieces as position lists); the driver replays.               *)
(***************************************************************************)
EXTENDS Integers, Sequences, FiniteSets, TLC, Json

CONSTANTS Emit, MaxSize, MaxN
VARIABLES size, n
vars == <<size, n>>

Block(i) == LET N == size \div n IN [k \in 1..N |-> i * N + k - 1]          \* 0-based positions of piece i (0-based)
Pieces == [i \in 1..n |-> Block(i - 1)]
Init == size \in 0..MaxSize /\ n \in 1..MaxN
Next == UNCHANGED vars
Spec == Init /\ [][Next]_vars

Pos(i) == {Pieces[i][k] : k \in DOMAIN Pieces[i]}
Disjoint == \A i, j \in 1..n : i # j => Pos(i) \cap Pos(j) = {}
Ordered == \A i \in 1..n : \A k \in 1..(Len(Pieces[i]) - 1) : Pieces[i][k] + 1 = Pieces[i][k + 1]
EqualSizes == \A i \in 1..n : Len(Pieces[i]) = size \div n
InRange == \A i \in 1..n : Pos(i) \subseteq 0..(size - 1)
Emitted == ~Emit \/ PrintT(ToJson([size |-> size, n |-> n, pieces |-> Pieces]))
Inv == Disjoint /\ Ordered /\ EqualSizes /\ InRange /\ Emitted
CoversAll == UNION {Pos(i) : i \in 1..n} = 0..(size - 1)
=============================================================================
