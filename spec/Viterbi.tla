------------------------------- MODULE Viterbi -------------------------------
(***************************************************************************)
(* C09 - hidden-Markov decoding returns a maximum-likelihood sequence       *)
(* (tracklib.algo.dynamics.HMM.estimate).                                   *)
(*                                                                         *)
(* A model has T epochs, n[k] candidate states at epoch k, an observation   *)
(* likelihood per (epoch, state) and a transition likelihood per            *)
(* (epoch k -> k+1, state, state).  A likelihood 2^-c has cost c (unit      *)
(* ln 2); a zero likelihood has cost "one zero".  Costs are pairs           *)
(* <<zeros, c>> added component-wise and ordered lexicographically - the    *)
(* order of the implementation's floats, whose 1e-300 floor makes one zero  *)
(* cost 690.8 > any finite sum inside the bounds.                           *)
(*                                                                         *)
(* Definition : Opt = minimum JointCost over the full product of the        *)
(*              candidate lists (brute force).  A sequence has maximum      *)
(*              likelihood iff (Opt has no zero and its cost is Opt) or     *)
(*              (Opt has a zero, i.e. every sequence has likelihood 0).     *)
(* Algorithm  : TAB_VAL / TAB_MRK forward recursion with strict <, first    *)
(*              arg-min of the last column, backward reconstruction.        *)
(* TLC checks : Bellman value = brute-force optimum; the transcribed        *)
(*              algorithm's sequence and last cost are accepted.            *)
(***************************************************************************)
EXTENDS Integers, Sequences, FiniteSets, TLC

CONSTANTS T, S,          \* epochs, maximum number of candidate states per epoch
          PCostIds, QCostIds,  \* cost values for observation / transition entries: c in 0..49 = likelihood 2^-c, 50+k = likelihood 2^k, 99 = likelihood 0
          Mode           \* "mc" | "none"
VARIABLES n, P, Q, ph
vars == <<n, P, Q, ph>>

C0 == <<0, 0>>                       \* likelihood 1
\* ids 0..49: likelihood 2^-i; 51..98: likelihood 2^(i-50) > 1 (unnormalised models, negative cost); 99: likelihood 0
\* ids 100 + 10 a + b: log-likelihood -(1000 a + b) ln 2 handed over directly as a logarithm (far below ln 1e-300 for a >= 1: a
\* logarithm has no floor - a Gaussian residual of 30 sigma is an ordinary value)
CostOf(i) == IF i = 99 THEN <<1, 0>> ELSE IF i >= 100 THEN <<0, 1000 * ((i - 100) \div 10) + (i % 10)>>
             ELSE IF i > 50 THEN <<0, 50 - i>> ELSE <<0, i>>
PCost == {CostOf(i) : i \in PCostIds}
QCost == {CostOf(i) : i \in QCostIds}
CAdd(a, b) == <<a[1] + b[1], a[2] + b[2]>>
CLt(a, b) == a[1] < b[1] \/ (a[1] = b[1] /\ a[2] < b[2])
CLe(a, b) == ~CLt(b, a)
RECURSIVE CMinSet(_)
CMinSet(X) == LET x == CHOOSE x \in X : TRUE IN
              IF X = {x} THEN x ELSE LET m == CMinSet(X \ {x}) IN IF CLe(x, m) THEN x ELSE m

(* ---- definition ---------------------------------------------------------- *)
\* nn: sequence of sizes; PP[k][s]; QQ[k][s1][s2] for the transition epoch k -> k+1
Seqs(nn) == LET RECURSIVE R(_)
                R(k) == IF k = 0 THEN {<<>>} ELSE {Append(f, s) : f \in R(k - 1), s \in 1..nn[k]}
            IN R(Len(nn))
RECURSIVE JC(_, _, _, _)
JC(PP, QQ, f, k) == IF k = 1 THEN PP[1][f[1]]
                    ELSE CAdd(JC(PP, QQ, f, k - 1), CAdd(QQ[k - 1][f[k - 1]][f[k]], PP[k][f[k]]))
JointCost(nn, PP, QQ, f) == JC(PP, QQ, f, Len(nn))
OptBrute(nn, PP, QQ) == CMinSet({JointCost(nn, PP, QQ, f) : f \in Seqs(nn)})
\* Bellman recursion (used for models too large for the brute force)
RECURSIVE BVal(_, _, _, _, _)
BVal(nn, PP, QQ, k, s) ==
   IF k = 1 THEN PP[1][s]
   ELSE CAdd(CMinSet({CAdd(BVal(nn, PP, QQ, k - 1, m), QQ[k - 1][m][s]) : m \in 1..nn[k - 1]}), PP[k][s])
BCol(nn, PP, QQ, k) ==       \* memoised column by column
   LET RECURSIVE Col(_)
       Col(j) == IF j = 1 THEN [s \in 1..nn[1] |-> PP[1][s]]
                 ELSE LET prev == Col(j - 1) IN
                      [s \in 1..nn[j] |-> CAdd(CMinSet({CAdd(prev[m], QQ[j - 1][m][s]) : m \in 1..nn[j - 1]}), PP[j][s])]
   IN Col(k)
OptBellman(nn, PP, QQ) == LET c == BCol(nn, PP, QQ, Len(nn)) IN CMinSet({c[s] : s \in DOMAIN c})

(* ---- acceptance of a recorded decoding -------------------------------------- *)
\* inf[k] = <<epoch label (0-based), state index (0-based)>>; last = recorded cost of the last epoch
AcceptDecoding(nn, PP, QQ, opt, inf, last) ==
   IF Len(inf) # Len(nn) THEN "wrong_number_of_epochs"
   ELSE IF \E k \in 1..Len(nn) : inf[k][1] # k - 1 \/ ~(inf[k][2] \in 0..(nn[k] - 1)) THEN "state_not_a_candidate_of_its_epoch"
   ELSE LET f == [k \in 1..Len(nn) |-> inf[k][2] + 1]
            c == JointCost(nn, PP, QQ, f)
        IN IF opt[1] = 0 /\ c # opt THEN "sequence_not_maximum_likelihood"
           ELSE IF opt[1] = 0 /\ last # opt THEN "last_cost_differs_from_optimum"
           ELSE IF opt[1] > 0 /\ last[1] = 0 THEN "last_cost_finite_but_every_sequence_has_likelihood_zero"
           ELSE "ok"

(* ---- transcription of HMM.estimate ------------------------------------------- *)
Big == <<1000000, 0>>               \* best_val = 1e300
\* column k of TAB_VAL / TAB_MRK as a record [val, mrk]
AlgoCols(nn, PP, QQ) ==
   LET RECURSIVE Col(_)
       Col(k) ==
          IF k = 1 THEN << [val |-> [s \in 1..nn[1] |-> PP[1][s]], mrk |-> [s \in 1..nn[1] |-> 0]] >>
          ELSE LET before == Col(k - 1)
                   prev == before[k - 1].val
                   \* scan m = 1..nn[k-1] with strict <, starting from (1e300, index 0 = first state)
                   RECURSIVE Scan(_, _, _, _)
                   Scan(s, m, bv, ba) ==
                      IF m > nn[k - 1] THEN <<bv, ba>>
                      ELSE LET v == CAdd(QQ[k - 1][m][s], prev[m]) IN
                           IF CLt(v, bv) THEN Scan(s, m + 1, v, m) ELSE Scan(s, m + 1, bv, ba)
                   best == [s \in 1..nn[k] |-> Scan(s, 1, Big, 1)]
               IN Append(before, [val |-> [s \in 1..nn[k] |-> CAdd(best[s][1], PP[k][s])],
                                  mrk |-> [s \in 1..nn[k] |-> best[s][2]]])
   IN Col(Len(nn))
FirstArgMin(v) == CHOOSE s \in DOMAIN v : (\A o \in DOMAIN v : CLe(v[s], v[o])) /\ (\A o \in DOMAIN v : o < s => CLt(v[o], v[s]) \/ CLt(v[s], v[o]))
AlgoDecode(nn, PP, QQ) ==
   LET cols == AlgoCols(nn, PP, QQ)
       N == Len(nn)
       RECURSIVE Back(_, _)
       Back(k, idk) == IF k = 0 THEN <<>> ELSE Append(Back(k - 1, cols[k].mrk[idk]), <<k - 1, idk - 1>>)
       i0 == FirstArgMin(cols[N].val)
   IN [inf |-> Back(N, i0), last |-> cols[N].val[i0]]

(* ---- design check: every model with sizes 1..S per epoch over the cost sets ---- *)
Sizes == [1..T -> 1..S]
UsedP(nn) == {<<k, s>> \in (1..T) \X (1..S) : s <= nn[k]}
UsedQ(nn) == {<<k, a, b>> \in (1..(T - 1)) \X (1..S) \X (1..S) : a <= nn[k] /\ b <= nn[k + 1]}
Init == /\ Mode = "mc" /\ ph = 0
        /\ n \in Sizes
        /\ \E f \in [UsedP(n) -> PCost] : P = [k \in 1..T |-> [s \in 1..n[k] |-> f[<<k, s>>]]]
        /\ Q = <<>>
Next == /\ ph = 0 /\ ph' = 1 /\ UNCHANGED <<n, P>>
        /\ \E f \in [UsedQ(n) -> QCost] :
              Q' = [k \in 1..(T - 1) |-> [a \in 1..n[k] |-> [b \in 1..n[k + 1] |-> f[<<k, a, b>>]]]]
Spec == Init /\ [][Next]_vars

BellmanIsOpt == ph = 1 => OptBellman(n, P, Q) = OptBrute(n, P, Q)
AlgoAccepted == ph = 1 => LET r == AlgoDecode(n, P, Q) IN
                          /\ AcceptDecoding(n, P, Q, OptBrute(n, P, Q), r.inf, r.last) = "ok"
                          /\ r.last = OptBrute(n, P, Q)          \* the transcription is even lexicographically optimal
=============================================================================
