------------------------- MODULE FeatureTableTrace -------------------------
(***************************************************************************)
(* Trace validation for C01: every public feature-table call recorded from *)
(* the real Track (arguments, projected state before and after, values     *)
(* interned to opaque integer tokens) must be a step of FeatureTable.      *)
(* Two TLC states per event: Load (the logged pre-state becomes the spec    *)
(* state) and Judge (the spec action named by the event is taken and the    *)
(* resulting spec state is compared, modulo the listing order, with the     *)
(* logged post-state).  "What an operator computes" is unlogged: OpWrite /  *)
(* Assign bind the written values from the trace, everything else (which    *)
(* column, what must not move, alignment, no temporaries) is the spec's.    *)
(***************************************************************************)
EXTENDS FeatureTable, IOUtils

VARIABLES l, phase, nbad
tvars == <<vars, l, phase, nbad>>

Trace == ndJsonDeserialize(IOEnv.TRACE_FILE)

ToFn(s) == [i \in Obs |-> s[i]]
PosIn(s, n) == CHOOSE k \in DOMAIN s : s[k] = n
LoggedCol(st, n) == IF n \in Range(st.names) THEN ToFn(st.cols[PosIn(st.names, n)]) ELSE Bcast(None)

Load(e) == /\ order' = e.pre.names
           /\ feat' = [i \in Obs |-> [k \in DOMAIN e.pre.names |-> e.pre.cols[k][i]]]
           /\ P' = [c \in Coords |-> ToFn(e.pre[c])]
           /\ ret' = None /\ hist' = <<>>

Vals(e) == IF e.scalar THEN Bcast(e.v) ELSE ToFn(e.v)

Apply(e) ==
   CASE e.ev = "create"  -> Create(e.n, Vals(e))
     [] e.ev = "setitem" -> SetItem(e.n, Vals(e))
     [] e.ev = "update"  -> Update(e.n, Vals(e))
     [] e.ev = "remove"  -> Remove(e.n)
     [] e.ev = "setobs"  -> SetObs(e.n, e.i + 1, e.v)
     [] e.ev = "opwrite" -> OpWrite(e.n, LoggedCol(e.post, e.n)) /\ ret' = None
     [] e.ev = "assign"  -> Assign(e.n, IF e.n \in Coords THEN ToFn(e.post[e.n]) ELSE LoggedCol(e.post, e.n)) /\ ret' = None
     [] e.ev = "pure"    -> Pure(None)

\* the calls that are documented to raise and change nothing
ErrExpected(e) ==
   \/ e.ev = "create" /\ e.n \in Reserved
   \/ e.ev \in {"update", "remove", "setobs"} /\ ~(e.n \in Range(e.pre.names)) /\ ~(e.ev = "setobs" /\ e.n \in Coords)

NoDup(s) == \A j, k \in DOMAIN s : s[j] = s[k] => j = k

\* evaluated on the primed spec state, right after Apply
Clause(e) ==
   IF e.raised /\ ~ErrExpected(e) THEN "raised"
   ELSE IF ~NoDup(e.post.names) THEN "duplicate_name"
   ELSE IF Range(order') # Range(e.post.names) THEN "names"
   ELSE IF \E i \in Obs : e.post.lens[i] # Len(e.post.names) THEN "aligned"
   ELSE IF \E n \in Range(e.post.names) \ Range(e.pre.names) : n \notin Names THEN "temporary_left"
   ELSE IF \E n \in Range(order') :
              [i \in Obs |-> feat'[i][CHOOSE k \in DOMAIN order' : order'[k] = n]] # LoggedCol(e.post, n) THEN "column"
   ELSE IF \E c \in Coords : P'[c] # ToFn(e.post[c]) THEN "coords"
   ELSE IF e.post.t # e.pre.t THEN "time"
   ELSE "ok"

TInit == /\ order = <<>> /\ feat = [i \in Obs |-> <<>>] /\ P = [c \in Coords |-> Bcast(0)]
         /\ ret = None /\ hist = <<>>
         /\ l = 1 /\ phase = "idle" /\ nbad = 0

TLoad == /\ l <= Len(Trace) /\ phase = "idle"
         /\ Load(Trace[l]) /\ phase' = "loaded" /\ UNCHANGED <<l, nbad>>

TJudge == /\ phase = "loaded"
          /\ LET e == Trace[l] IN
             /\ Apply(e)
             /\ hist' = hist
             /\ LET c == Clause(e) IN
                IF c = "ok" THEN nbad' = nbad
                ELSE nbad' = nbad + 1 /\ PrintT(<<"REJECT", e.id, c>>)
          /\ phase' = "idle" /\ l' = l + 1

TDone == /\ l = Len(Trace) + 1 /\ phase = "idle"
         /\ PrintT(<<"DONE", Len(Trace), nbad>>)
         /\ l' = l + 1 /\ UNCHANGED <<vars, phase, nbad>>

TNext == TLoad \/ TJudge \/ TDone
TSpec == TInit /\ [][TNext]_tvars

=============================================================================
