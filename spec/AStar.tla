-------------------------------- MODULE AStar --------------------------------
(***************************************************************************)
(* Growth next to C06: Network.setRoutingMethod(ROUTING_ALGO_ASTAR) +           *)
(* setAStarWeight(w), modelled as coded.  In that mode a relaxed node gets the    *)
(* tentative weight                                                                *)
(*        parent's weight + edge weight + w * distance(node, target)                 *)
(* and that sum - heuristic included - is what the node hands on to ITS children       *)
(* and what shortest_distance(source, target) finally reports for the target           *)
(* (heuristic 0 there).  The test that decides a relaxation compares                     *)
(* parent's weight + edge weight (heuristic NOT included) with the node's stored           *)
(* weight (heuristic included).  So this is not A* (whose priorities carry the               *)
(* heuristic while the path lengths do not): the reported number is the length of a            *)
(* walk PLUS the heuristics of its intermediate nodes.                                          *)
(* Nodes 0..NN-1 sit on a line at x = 0..NN-1 (distances are integers).                           *)
(* One action per pop; ties of the queue are free, so a (graph, source, target) may have            *)
(* several admissible outcomes: every final state prints one, the driver checks that the              *)
(* real call returns one of them (spec -> code).                                                      *)
(* TLC: NeverBelowShortest (the reported value is at least the true distance; -1 iff                   *)
(* unreachable... when the search ends by exhaustion), ZeroWeightIsDijkstra (w = 0: the true             *)
(* distance); named deviation REFUTED: ReportsALength (the value is the length of some walk).             *)
(***************************************************************************)
EXTENDS Integers, Sequences, FiniteSets, TLC, Json

CONSTANTS NN, MaxE, Weights, Wgt, Emit
VARIABLES g, src, tgt, poids, visite, queue, pc
vars == <<g, src, tgt, poids, visite, queue, pc>>

Nodes == 0..(NN - 1)
Inf == 1000000
Abs(x) == IF x < 0 THEN -x ELSE x
H(v) == Wgt * Abs(v - tgt)                                   \* astar_wgt * fils.distanceTo(target)
EdgeTypes == {<<s, t, w, o>> : s \in Nodes, t \in Nodes, w \in Weights, o \in {-1, 0, 1}}
ArcsOf(G) == UNION { (IF G[j][4] >= 0 THEN {<<G[j][1], G[j][2], G[j][3]>>} ELSE {})
                     \cup (IF G[j][4] <= 0 THEN {<<G[j][2], G[j][1], G[j][3]>>} ELSE {}) : j \in DOMAIN G }
MinS(S) == CHOOSE m \in S : \A x \in S : m <= x
RECURSIVE BF(_, _, _)
BF(A, s, k) == IF k = 0 THEN [v \in Nodes |-> IF v = s THEN 0 ELSE Inf]
               ELSE LET d == TLCEval(BF(A, s, k - 1)) IN
                    TLCEval([v \in Nodes |-> MinS({d[v]} \cup {d[a[1]] + a[3] : a \in {x \in A : x[2] = v /\ d[x[1]] < Inf}})])
Dist(G, s) == BF(ArcsOf(G), s, NN)
\* lengths of walks with at most NN + 2 edges from s to t (enough to refute; the deviation only needs one witness)
RECURSIVE WalkLens(_, _, _)
WalkLens(A, s, k) == IF k = 0 THEN [v \in Nodes |-> IF v = s THEN {0} ELSE {}]
                     ELSE LET d == TLCEval(WalkLens(A, s, k - 1)) IN
                          TLCEval([v \in Nodes |-> d[v] \cup UNION {{l + a[3] : l \in d[a[1]]} : a \in {x \in A : x[2] = v}}])

NextEdges(G, v) == {j \in DOMAIN G : (G[j][4] >= 0 /\ G[j][1] = v) \/ (G[j][4] <= 0 /\ G[j][2] = v)}
Other(G, j, v) == IF G[j][2] = v THEN G[j][1] ELSE G[j][2]
RECURSIVE RelaxAll(_, _, _, _, _)
RelaxAll(G, p, js, w, q) ==
   IF js = {} THEN <<w, q>>
   ELSE LET j == CHOOSE x \in js : TRUE
            f == Other(G, j, p)
            better == ~visite[f] /\ f # p /\ (w[f] = -1 \/ w[p] + G[j][3] < w[f])
        IN RelaxAll(G, p, js \ {j},
                    IF better THEN [w EXCEPT ![f] = w[p] + G[j][3] + H(f)] ELSE w,
                    IF better THEN q \cup {f} ELSE q)
Rank(e) == ((e[1] * NN + e[2]) * 10 + e[3]) * 3 + e[4] + 1

Init == /\ g = <<>> /\ src = 0 /\ tgt = 0 /\ pc = "build"
        /\ poids = [v \in Nodes |-> -1] /\ visite = [v \in Nodes |-> FALSE] /\ queue = {}
AddEdge(e) == /\ pc = "build" /\ Len(g) < MaxE
              /\ (IF g = <<>> THEN TRUE ELSE Rank(g[Len(g)]) <= Rank(e))
              /\ g' = Append(g, e) /\ UNCHANGED <<src, tgt, poids, visite, queue, pc>>
Start(s, t) == /\ pc = "build" /\ s # t
               /\ src' = s /\ tgt' = t /\ poids' = [v \in Nodes |-> IF v = s THEN 0 ELSE -1]
               /\ visite' = [v \in Nodes |-> FALSE] /\ queue' = {s} /\ pc' = "run" /\ g' = g
\* pop_smallest; the search stops when the target is popped (before it is settled or relaxed)
Pop(p) == /\ pc = "run" /\ p \in queue /\ \A q \in queue : poids[p] <= poids[q]
          /\ IF p = tgt THEN pc' = "done" /\ UNCHANGED <<poids, visite, queue>>
             ELSE LET r == RelaxAll(g, p, NextEdges(g, p), poids, queue \ {p}) IN
                  /\ visite' = [visite EXCEPT ![p] = TRUE] /\ poids' = r[1] /\ queue' = r[2] /\ pc' = pc
          /\ UNCHANGED <<g, src, tgt>>
Finish == /\ pc = "run" /\ queue = {} /\ pc' = "done" /\ UNCHANGED <<g, src, tgt, poids, visite, queue>>
Report == /\ pc = "done" /\ pc' = "end" /\ UNCHANGED <<g, src, tgt, poids, visite, queue>>
          /\ (Emit => PrintT(ToJson([g |-> g, s |-> src, t |-> tgt, d |-> poids[tgt]])))
Next == (\E e \in EdgeTypes : AddEdge(e)) \/ (\E s, t \in Nodes : Start(s, t)) \/ (\E p \in Nodes : Pop(p)) \/ Finish \/ Report
Spec == Init /\ [][Next]_vars

NeverBelowShortest == pc = "done" => LET d == Dist(g, src)[tgt] IN IF d = Inf THEN poids[tgt] = -1 ELSE poids[tgt] >= d
ZeroWeightIsDijkstra == (pc = "done" /\ Wgt = 0) => LET d == Dist(g, src)[tgt] IN poids[tgt] = (IF d = Inf THEN -1 ELSE d)
\* named deviation (REFUTED for Wgt >= 1)
ReportsALength == (pc = "done" /\ poids[tgt] >= 0) => poids[tgt] \in WalkLens(ArcsOf(g), src, NN + 2)[tgt]
=============================================================================
