----------------------------- MODULE Projection -----------------------------
(***************************************************************************)
(* C20 - projecting a point on a polyline returns its nearest point        *)
(* (tracklib.util.geometry proj_segment / proj_polyligne, mapping.mapOnTrack).*)
(*                                                                         *)
(* Definition : D2PointPoly - minimum squared distance from the query to   *)
(*              the segments (exact fractions, Geo2D).                     *)
(* Acceptance : AcceptClause(poly, q, r) for a result r = [raised, lat, i,  *)
(*              p = <<xn,yn,den>>, dd = <<n,d>> (squared distance)]:        *)
(*              r.p lies on segment r.i, r.dd = |q - r.p|^2 = D2PointPoly.  *)
(* Algorithm  : SegAlgo / PolyAlgo - transcription of proj_segment's case   *)
(*              analysis (foot of the perpendicular, inclusion test in the  *)
(*              bounding box, else nearest end, first end on ties) and of   *)
(*              proj_polyligne (skip zero-length segments, strict minimum). *)
(*              For x1 = x2 the pinned code takes LegacyVertical: the 'foot'*)
(*              is (x, y2 - y1); if that passes the inclusion test the code *)
(*              divides by zero, otherwise the nearest END is returned.     *)
(*              TLC shows every other branch satisfies the acceptance       *)
(*              predicate and that LegacyVertical does not (known finding). *)
(***************************************************************************)
EXTENDS Geo2D, FiniteSets, TLC

CONSTANTS LatMax,        \* polyline vertices in (0..LatMax)^2
          QPad,          \* query points in (-QPad..LatMax+QPad)^2
          Mode           \* "mc" | "none"
VARIABLES A, B, C, Q, ph
vars == <<A, B, C, Q, ph>>

Lat == (0..LatMax) \X (0..LatMax)
Qs == ((0 - QPad)..(LatMax + QPad)) \X ((0 - QPad)..(LatMax + QPad))

Res(raised, i, p, dd) == [raised |-> raised, lat |-> TRUE, i |-> i, p |-> p, dd |-> dd]
Raised == [raised |-> TRUE, lat |-> TRUE, i |-> 0, p |-> <<0, 0, 1>>, dd |-> <<0, 1>>]

(* ---- acceptance ---------------------------------------------------------- *)
AcceptClause(poly, q, r) ==
   IF r.raised THEN "raised"
   ELSE IF ~r.lat THEN "result_not_on_the_lattice_of_exact_answers"
   ELSE IF ~(r.i \in 0..(Len(poly) - 2)) THEN "segment_index_out_of_range"
   ELSE IF ~RPtOnSeg(r.p, poly[r.i + 1], poly[r.i + 2]) THEN "point_not_on_segment_i"
   ELSE IF ~FrEq(r.dd, D2PointRPt(q, r.p)) THEN "distance_differs_from_distance_to_returned_point"
   ELSE IF ~FrEq(r.dd, D2PointPoly(q, poly)) THEN "distance_not_minimum"
   ELSE "ok"

(* ---- transcription of proj_segment ---------------------------------------- *)
InBox(R, P1, P2) ==
   /\ GMin(P1[1], P2[1]) * R[3] <= R[1] /\ R[1] <= GMax(P1[1], P2[1]) * R[3]
   /\ GMin(P1[2], P2[2]) * R[3] <= R[2] /\ R[2] <= GMax(P1[2], P2[2]) * R[3]
NearestEnd(P1, P2, q) ==
   IF Dist2(q, P1) <= Dist2(q, P2) THEN [raised |-> FALSE, p |-> <<P1[1], P1[2], 1>>, dd |-> <<Dist2(q, P1), 1>>]
   ELSE [raised |-> FALSE, p |-> <<P2[1], P2[2], 1>>, dd |-> <<Dist2(q, P2), 1>>]
\* what the pinned code does when x1 = x2 (b = 0): projection_droite returns (x, a) with a = y2 - y1
LegacyVertical(P1, P2, q) ==
   LET a == P2[2] - P1[2]
       pr == <<q[1], a, 1>>
   IN IF InBox(pr, P1, P2) THEN [raised |-> TRUE, p |-> <<0, 0, 1>>, dd |-> <<0, 1>>]     \* -c / b with b = 0
      ELSE NearestEnd(P1, P2, q)
SegAlgo(P1, P2, q) ==            \* P1 # P2
   IF P1[1] = P2[1] THEN LegacyVertical(P1, P2, q)
   ELSE LET f == FootOnLine(q, P1, P2) IN
        IF InBox(f, P1, P2) THEN [raised |-> FALSE, p |-> f, dd |-> D2PointLine(q, P1, P2)]
        ELSE NearestEnd(P1, P2, q)

(* ---- transcription of proj_polyligne -------------------------------------- *)
\* one result per candidate segment; the scan keeps the first strict minimum of the float distances.  Exact ties between
\* a perpendicular distance (|ax+by+c| / norm) and an end-point distance (sqrt) may fall either way in floating point,
\* so the transcription yields the SET of results the scan can return: any segment attaining the minimum.
SegResults(poly, q) == {<<k, SegAlgo(poly[k], poly[k + 1], q)>> : k \in {j \in 1..(Len(poly) - 1) : poly[j] # poly[j + 1]}}
PolyAlgoSet(poly, q) ==
   LET S == SegResults(poly, q) IN
   IF S = {} \/ \E s \in S : s[2].raised THEN {Raised}
   ELSE LET m == MinFrac({s[2].dd : s \in S}) IN
        {Res(FALSE, s[1] - 1, s[2].p, s[2].dd) : s \in {x \in S : FrEq(x[2].dd, m)}}
\* deterministic reading (first minimum), used by the design check
PolyAlgo(poly, q) == LET S == PolyAlgoSet(poly, q) IN CHOOSE r \in S : \A o \in S : r.i <= o.i

HasVertical(poly) == \E k \in 1..(Len(poly) - 1) : poly[k] # poly[k + 1] /\ poly[k][1] = poly[k + 1][1]
HasProper(poly) == \E k \in 1..(Len(poly) - 1) : poly[k] # poly[k + 1]
SameResult(e, r) == e.raised = r.raised /\ (r.raised \/ (e.lat /\ e.i = r.i /\ RPtEq(e.p, r.p) /\ FrEq(e.dd, r.dd)))

(* ---- design check: every segment / 3-vertex polyline of the lattice x every query ---- *)
Init == Mode = "mc" /\ A \in Lat /\ B = A /\ C = A /\ Q = <<0, 0>> /\ ph = 0
Next == ph = 0 /\ ph' = 1 /\ A' = A /\ B' \in Lat /\ C' \in Lat /\ Q' \in Qs
Spec == Init /\ [][Next]_vars

\* the definition is self-consistent: the nearest point is on the segment and realises the distance,
\* and no point of the segment (sampled at quarters) is nearer
DefConsistent == ph = 1 =>
   LET n == NearestOnSeg(Q, A, B) IN
   /\ RPtOnSeg(n, A, B) /\ FrEq(D2PointSeg(Q, A, B), D2PointRPt(Q, n))
   /\ \A j \in 0..4 : FrLe(D2PointSeg(Q, A, B), D2PointRPt(Q, <<4 * A[1] + j * (B[1] - A[1]), 4 * A[2] + j * (B[2] - A[2]), 4>>))
\* every non-vertical branch of proj_segment satisfies the acceptance predicate
NonVerticalAccepted == (ph = 1 /\ A # B /\ A[1] # B[1]) =>
   LET s == SegAlgo(A, B, Q) IN AcceptClause(<<A, B>>, Q, Res(s.raised, 0, s.p, s.dd)) = "ok"
\* ... and so does the polyline scan when no segment is vertical
PolyAccepted == (ph = 1 /\ HasProper(<<A, B, C>>) /\ ~HasVertical(<<A, B, C>>)) =>
   AcceptClause(<<A, B, C>>, Q, PolyAlgo(<<A, B, C>>, Q)) = "ok"
\* sensitivity self-test: REFUTED by TLC (the pinned vertical branch is the known finding)
LegacyVerticalAccepted == (ph = 1 /\ A # B /\ A[1] = B[1]) =>
   LET s == SegAlgo(A, B, Q) IN AcceptClause(<<A, B>>, Q, Res(s.raised, 0, s.p, s.dd)) = "ok"
=============================================================================
