SPECIFICATION TSpec
CONSTANTS
  XVals = {0}
  WVals = {1}
  MaxN = 3
  MaxW = 0
  Mode = "none"
CHECK_DEADLOCK FALSE
