------------------------------- MODULE CellOps -------------------------------
(***************************************************************************)
(* Growth next to C19: the two cell operators the listed property does not      *)
(* name - co_count_distinct and co_dominant (tracklib.core.utils), as coded.       *)
(*   co_count_distinct(l) = number of distinct non-NaN values of l                    *)
(*   co_dominant(l)       = the value with the most occurrences; among several           *)
(*                          with the same count, the one that occurs FIRST in l             *)
(*                          (a dictionary in insertion order, strict >); NaN for []            *)
(* (lists without NaN for co_dominant: NaN objects are dictionary keys by identity).              *)
(* TLC, every list of 0..MaxLen values over Vals (NaN = NaNv for the count):                        *)
(*   DistinctBounds   0 <= distinct <= number of non-NaN values, = 0 iff there is none                *)
(*   DistinctIsSetSize, DominantIsMostFrequent, DominantFirstAmongTies                                  *)
(*   OrderFree        co_count_distinct does not depend on the order of the list                          *)
(* Every state prints the list and the two results; the driver replays (spec -> code).                     *)
(***************************************************************************)
EXTENDS Integers, Sequences, FiniteSets, TLC, Json

CONSTANTS Emit, MaxLen, Vals, NaNv
VARIABLES l
vars == <<l>>

NonNan(s) == {k \in DOMAIN s : s[k] # NaNv}
Values(s) == {s[k] : k \in NonNan(s)}
Distinct(s) == Cardinality(Values(s))
Count(s, v) == Cardinality({k \in DOMAIN s : s[k] = v})
FirstPos(s, v) == CHOOSE k \in DOMAIN s : s[k] = v /\ \A j \in 1..(k - 1) : s[j] # v
HasNan(s) == \E k \in DOMAIN s : s[k] = NaNv
\* scan of the dictionary in insertion order with a strict comparison
Dominant(s) == CHOOSE v \in {s[k] : k \in DOMAIN s} :
                  /\ \A u \in {s[k] : k \in DOMAIN s} : Count(s, u) <= Count(s, v)
                  /\ \A u \in {s[k] : k \in DOMAIN s} : Count(s, u) = Count(s, v) => FirstPos(s, v) <= FirstPos(s, u)

Init == l \in UNION {[1..n -> Vals \cup {NaNv}] : n \in 0..MaxLen}
Next == UNCHANGED l
Spec == Init /\ [][Next]_vars

DistinctBounds == Distinct(l) >= 0 /\ Distinct(l) <= Cardinality(NonNan(l)) /\ (Distinct(l) = 0 <=> NonNan(l) = {})
Rev(s) == [k \in DOMAIN s |-> s[Len(s) + 1 - k]]
OrderFree == Distinct(Rev(l)) = Distinct(l)
DominantIsMostFrequent == (l # <<>> /\ ~HasNan(l)) => \A k \in DOMAIN l : Count(l, l[k]) <= Count(l, Dominant(l))
DominantFirstAmongTies == (l # <<>> /\ ~HasNan(l)) => \A k \in DOMAIN l : Count(l, l[k]) = Count(l, Dominant(l)) => FirstPos(l, Dominant(l)) <= k
Emitted == ~Emit \/ PrintT(ToJson([l |-> l, distinct |-> Distinct(l), dom |-> IF l = <<>> \/ HasNan(l) THEN NaNv ELSE Dominant(l)]))
Inv == DistinctBounds /\ OrderFree /\ DominantIsMostFrequent /\ DominantFirstAmongTies /\ Emitted
=============================================================================
