SPECIFICATION TSpec
CONSTANTS
  Keys = {1}
  Prios = {1}
  MaxSteps = 0
  Mode = "none"
CHECK_DEADLOCK FALSE
