------------------------------ MODULE MapMatch ------------------------------
(***************************************************************************)
(* C10 - map-matched positions lie on a real edge within the search radius *)
(* (tracklib.algo.mapping.mapOnNetwork).                                    *)
(*                                                                         *)
(* Composition: candidate states are produced per observation by            *)
(* projecting it on the geometry of every edge the index proposes           *)
(* (Projection!PolyAlgo), keeping those with d < r, and attaching the       *)
(* distances to the edge's two end nodes along the edge (__distToNode);     *)
(* the decoder (Viterbi.tla, C09) then picks one candidate per epoch.       *)
(* Edge geometries have legs of integer length, so abscissas are rational.  *)
(*                                                                         *)
(* Acceptance : AcceptState(edges, obs, r2, st) for the state assigned to    *)
(*              one observation; AcceptMatching for a whole recorded call    *)
(*              (every state accepted + the track kept its observations).    *)
(* TLC checks : every candidate the transcription can produce on any         *)
(*              3-vertex integer-leg geometry x query x radius is accepted.  *)
(***************************************************************************)
EXTENDS Projection

CONSTANT R2x4            \* design check: squared radii, in quarters (r^2 = k/4)

(* ---- acceptance of the state assigned to one observation -------------------- *)
\* st = [e |-> edge number (0-based, -1 = unmatched), lat, p |-> <<xn,yn,den>>, ds, dt |-> fractions]
AcceptState(edges, obsPt, r2, st) ==
   IF st.e = -1 THEN "ok"
   ELSE IF ~(st.e \in 0..(Len(edges) - 1)) THEN "edge_number_not_an_existing_edge"
   ELSE IF ~st.lat THEN "state_not_on_the_lattice_of_exact_answers"
   ELSE LET g == edges[st.e + 1]
            segs == {i \in 1..(Len(g) - 1) : RPtOnSeg(st.p, g[i], g[i + 1])}
        IN IF segs = {} THEN "point_not_on_the_edge_geometry"
           ELSE IF FrLt(r2, D2PointRPt(obsPt, st.p)) THEN "point_farther_than_search_radius"
           ELSE IF ~FrEq(FrAdd(st.ds, st.dt), <<PolyLength(g), 1>>) THEN "end_distances_do_not_add_up_to_edge_length"
           ELSE IF ~(\E i \in segs : FrEq(st.ds, AbscOn(g, i, st.p))) THEN "source_distance_is_not_the_abscissa_of_the_point"
           ELSE "ok"

(* ---- transcription of the candidate construction ------------------------------- *)
\* __distToNode(geom, p, i, end): abs_curv[i] + |v_i p|   /   total - abs_curv[i+1] + |v_{i+1} p|
CandState(g, r) ==       \* r = result of PolyAlgo(g, q), not raised; r.i 0-based
   LET i == r.i + 1
       along == AlongSeg(g, i, r.p)
   IN [e |-> 0, lat |-> TRUE, p |-> r.p,
       ds |-> FrAdd(<<CumLen(g, i), 1>>, along),
       dt |-> FrAdd(<<PolyLength(g) - CumLen(g, i + 1), 1>>, FrSub(<<LegLen(g, i), 1>>, along))]

\* could the pinned vertical branch of the projection divide by zero for this call ? (known finding of C20)
CouldRaiseLegacy(edges, obs) ==
   \E k \in DOMAIN obs : \E j \in DOMAIN edges :
      HasProper(edges[j]) /\ HasVertical(edges[j]) /\ PolyAlgoSet(edges[j], obs[k]) = {Raised}

(* ---- design check (state space of Projection: geometry <<A,B,C>>, observation Q) -- *)
CandidatesAccepted ==
   (ph = 1 /\ HasProper(<<A, B, C>>) /\ IntLegs(<<A, B, C>>)) =>
      LET g == <<A, B, C>>
          r == PolyAlgo(g, Q)
      IN r.raised \/ \A k \in R2x4 : FrLt(r.dd, <<k, 4>>) => AcceptState(<<g>>, Q, <<k, 4>>, CandState(g, r)) = "ok"
=============================================================================
