------------------------------ MODULE StDbscan ------------------------------
(***************************************************************************)
(* Growth next to C11 (markers computed on a track): the ST-DBSCAN clustering   *)
(* of tracklib.algo.segmentation.stdbscan, which writes a cluster label           *)
(* ('stdbscan') and a noise flag ('noise') on every observation.                     *)
(*                                                                         *)
(* The specification is the algorithm AS CODED, one action per iteration of its        *)
(* two loops (the scan over the observations, the expansion of one stacked                *)
(* observation), so that TLC checks the invariants in every intermediate state              *)
(* and the driver compares the final columns for every enumerated input                       *)
(* (spec -> code).  Neighbourhood: the OTHER observations within eps1 in space                  *)
(* and eps2 in the attribute (both inclusive).                                                    *)
(*                                                                         *)
(* What textbook DBSCAN promises and this code does not - named and refuted by TLC:                  *)
(*   CoreIsClustered - the observation that founds a cluster is not given the label itself; it          *)
(*                     only gets it back if one of its neighbours is dense and close in attribute;        *)
(*   NoiseExclusive  - founding a cluster labels the neighbours without clearing their noise flag.          *)
(***************************************************************************)
EXTENDS Rat, FiniteSets, TLC, Json

CONSTANTS NMax, Emit
VARIABLES inp, lab, noi, stk, i, cl, pc
vars == <<inp, lab, noi, stk, i, cl, pc>>

Positions == {0, 1, 2, 4}
AFVals == {0, 1, 3}
Inputs == UNION {[pos : [1..n -> Positions], af : [1..n -> AFVals], eps1 : {1, 2}, eps2 : {0, 1}, minPts : {1, 2}, delta : {1, 2}] : n \in 1..NMax}
N == Len(inp.pos)
AbsDiff(a, b) == IF a < b THEN b - a ELSE a - b
IsNeigh(j, k) == k # j /\ AbsDiff(inp.pos[j], inp.pos[k]) <= inp.eps1 /\ AbsDiff(inp.af[j], inp.af[k]) <= inp.eps2
Neigh(j) == SelectSeq([k \in 1..N |-> k], LAMBDA k : IsNeigh(j, k))

\* attribute mean of the observations currently labelled c (0 when there is none)
AvgOf(l, c) == LET M == {o \in 1..N : l[o] = c} IN
               IF M = {} THEN Zero ELSE RDiv(SeqSum([o \in 1..N |-> IF o \in M THEN R(inp.af[o]) ELSE Zero]), R(Cardinality(M)))
\* the `for k in neighbours' loop of one expansion: the mean is recomputed for every k with the labels assigned so far
RECURSIVE Absorb(_, _, _, _)
Absorb(nb, l, z, s) ==
   IF nb = <<>> THEN <<l, z, s>>
   ELSE LET k == Head(nb)
            diff == RAbs(RSub(AvgOf(l, cl), R(inp.af[k])))
        IN IF (z[k] > 0 \/ l[k] = 0) /\ RLt(diff, R(inp.delta))
           THEN Absorb(Tail(nb), [l EXCEPT ![k] = cl], [z EXCEPT ![k] = 0], Append(s, k))
           ELSE Absorb(Tail(nb), l, z, s)

Init == /\ inp \in Inputs
        /\ lab = [k \in 1..Len(inp.pos) |-> 0] /\ noi = [k \in 1..Len(inp.pos) |-> 0]
        /\ stk = <<>> /\ i = 1 /\ cl = 0 /\ pc = "scan"

\* one iteration of `for i, obs in enumerate(track)'
Scan == /\ pc = "scan" /\ i <= N
        /\ IF lab[i] # 0 THEN i' = i + 1 /\ UNCHANGED <<lab, noi, stk, cl, pc>>
           ELSE LET nb == Neigh(i) IN
                IF Len(nb) < inp.minPts
                THEN noi' = [noi EXCEPT ![i] = 1] /\ i' = i + 1 /\ UNCHANGED <<lab, stk, cl, pc>>
                ELSE /\ cl' = cl + 1
                     /\ lab' = [k \in 1..N |-> IF IsNeigh(i, k) THEN cl + 1 ELSE lab[k]]
                     /\ stk' = nb /\ pc' = "expand" /\ UNCHANGED <<noi, i>>
        /\ UNCHANGED inp
\* one iteration of `while len(stack) > 0'
Expand == /\ pc = "expand" /\ stk # <<>>
          /\ LET io == Head(stk)
                 nb == Neigh(io)
                 r == IF Len(nb) >= inp.minPts THEN Absorb(nb, lab, noi, Tail(stk)) ELSE <<lab, noi, Tail(stk)>>
             IN lab' = r[1] /\ noi' = r[2] /\ stk' = r[3]
          /\ UNCHANGED <<inp, i, cl, pc>>
Close == pc = "expand" /\ stk = <<>> /\ pc' = "scan" /\ i' = i + 1 /\ UNCHANGED <<inp, lab, noi, stk, cl>>
Finish == pc = "scan" /\ i > N /\ pc' = "done" /\ UNCHANGED <<inp, lab, noi, stk, i, cl>>
Next == Scan \/ Expand \/ Close \/ Finish
Spec == Init /\ [][Next]_vars /\ WF_vars(Next)

Emitted == (Emit /\ pc = "done") => PrintT(ToJson([inp |-> inp, lab |-> lab, noise |-> noi]))

(* ---- checked in every state ------------------------------------------------------------------ *)
TypeOK == /\ \A k \in 1..N : lab[k] \in 0..cl /\ noi[k] \in {0, 1}
          /\ cl \in 0..N /\ i \in 1..(N + 1)
\* everything waiting on the stack already carries the label of the cluster being grown
StackLabelled == \A k \in DOMAIN stk : lab[stk[k]] = cl
\* observations the scan has not reached yet and no cluster has touched are still blank
Untouched == \A k \in 1..N : (k >= i /\ lab[k] = 0 /\ pc = "scan") => noi[k] = 0
\* a label, once given, is never taken back (it can be replaced by a later cluster's)
LabelsStay == [][\A k \in 1..N : lab[k] # 0 => lab'[k] # 0]_vars
\* an observation flagged as noise by the scan had fewer than minPts neighbours
NoiseIsSparse == \A k \in 1..N : noi[k] = 1 => Len(Neigh(k)) < inp.minPts
\* the algorithm always runs to completion (the stack only receives observations that were blank or noise)
Terminates == <>(pc = "done")
Inv == TypeOK /\ StackLabelled /\ Untouched /\ NoiseIsSparse /\ Emitted

\* named deviations from textbook DBSCAN (each REFUTED by TLC in the driver's self-tests)
CoreIsClustered == pc = "done" => \A k \in 1..N : Len(Neigh(k)) >= inp.minPts => lab[k] # 0
NoiseExclusive == \A k \in 1..N : noi[k] = 1 => lab[k] = 0
=============================================================================
