SPECIFICATION TSpec
CONSTANTS
  N = 2
  Vals = {0}
  Shift = 0
  Legacy = FALSE
  Mode = "none"
CHECK_DEADLOCK FALSE
