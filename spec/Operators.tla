------------------------------ MODULE Operators ------------------------------
(***************************************************************************)
(* Growth next to C02: the operator OBJECTS of tracklib.core.operators that   *)
(* the expression grammar does not reach (ExprEval covers + - * / ^ < >, the    *)
(* pointwise / aggregate functions and D, D2, I): shifts, finite differences,     *)
(* pointwise unary and binary operators, scalar-argument operators, the              *)
(* two-feature statistics, APPLY and AGGREGATE.  Each is given by its                  *)
(* documented definition (class Operator) on exact rationals with IEEE NaN               *)
(* (propagates through arithmetic, compares false, skipped by the statistics);             *)
(* where the code fixes something the documentation leaves open - or contradicts it -         *)
(* the specification follows the code and says so:                                              *)
(*   - a call whose arithmetic divides by zero RAISES as a whole (INVERSER, MODULO,               *)
(*     DERIVATOR on a repeated abscissa, statistics over no valid value);                           *)
(*   - DERIVATOR leaves 0 at the first observation; FORWARD / CENTERED differences put NaN            *)
(*     at the ends that have no neighbour;                                                             *)
(*   - THRESHOLDER clamps (min(x, arg)); the class documentation says "1 if x >= arg else 0".           *)
(* One state = one call (operator, argument, input vector(s)); it prints the expected                      *)
(* outcome; the driver performs the call on a real track (spec -> code).                                     *)
(***************************************************************************)
EXTENDS Rat, FiniteSets, TLC, Json

CONSTANTS Family, Emit, MaxLen        \* Family: "unary" | "binary"
VARIABLES c
vars == <<c>>

Vals == {R(-2), R(0), R(1), R(3), NaN}
Vals2 == {R(-2), R(0), R(1), NaN}
Vecs(S, m) == UNION {[1..n -> S] : n \in 1..m}

ShiftOps == {"SHIFT", "SHIFT_REV", "SHIFT_CIRCULAR", "SHIFT_CIRCULAR_REV"}
NumArgOps == {"SCALAR_ADDER", "SCALAR_SUBSTRACTER", "SCALAR_REV_SUBSTRACTER", "SCALAR_MULTIPLIER", "SCALAR_DIVIDER",
              "SCALAR_REV_DIVIDER", "SCALAR_POWER", "SCALAR_REV_POWER", "SCALAR_MODULO", "SCALAR_REV_MODULO",
              "SCALAR_ABOVE", "SCALAR_BELOW", "SCALAR_REV_ABOVE", "SCALAR_REV_BELOW", "THRESHOLDER"}
PlainOps == {"SHIFT_RIGHT", "SHIFT_LEFT", "SHIFT_CIRCULAR_RIGHT", "SHIFT_CIRCULAR_LEFT", "IDENTITY", "INVERTER", "INVERSER",
             "SQUARE", "REVERSER", "FORWARD_FINITE_DIFF", "BACKWARD_FINITE_DIFF", "CENTERED_FINITE_DIFF", "DEBIASER",
             "ZEROS", "RMSE", "APPLY", "AGGREGATE"}
BinOps == {"MODULO", "QUAD_ADDER", "DERIVATOR", "POINTWISE_EQUALER", "COVARIANCE", "L0", "L1", "L2", "LINF", "EQUAL"}
ArgsOf(op) == IF op \in ShiftOps THEN {-2, -1, 0, 1, 2, 5} ELSE IF op \in NumArgOps THEN {2, -3} ELSE {0}

(* ---- helpers ------------------------------------------------------------------------ *)
Vec(v) == [kind |-> "vec", val |-> v]
Num(x) == [kind |-> "num", val |-> <<x>>]
Raise == [kind |-> "raise", val |-> <<>>]
N(u) == Len(u)
Map1(u, f(_)) == [i \in 1..N(u) |-> f(u[i])]
IsZero(p) == p = Zero
AnyZero(u) == \E i \in DOMAIN u : IsZero(u[i])
Bool(b) == IF b THEN One ELSE Zero
\* Python's float modulo on integer values: the result has the sign of the divisor
IMod(a, b) == LET m == a % AbsI(b) IN IF b > 0 THEN m ELSE IF m = 0 THEN 0 ELSE m + b
RMod(p, q) == IF IsNaN(p) \/ IsNaN(q) THEN NaN ELSE R(IMod(p[1], q[1]))
Shift(u, k) == [i \in 1..N(u) |-> IF i - k \in 1..N(u) THEN u[i - k] ELSE NaN]
ShiftCirc(u, k) == [i \in 1..N(u) |-> u[((i - 1 - k) % N(u)) + 1]]
Pairs(u, v) == {i \in DOMAIN u : IsNum(u[i]) /\ IsNum(v[i])}
SumOver(S, u, f(_)) == SeqSum([i \in 1..N(u) |-> IF i \in S THEN f(i) ELSE Zero])
MeanOf(u) == LET s == FilterNum(u) IN RDiv(SeqSum(s), R(Len(s)))       \* callers check that s is not empty
Lt(p, q) == IsNum(p) /\ IsNum(q) /\ RLt(p, q)                          \* a comparison with NaN is false

(* ---- one-feature operators (with their argument) ------------------------------------------ *)
Unary(op, k, u) ==
  LET n == N(u)  a == R(k)  s == FilterNum(u) IN
  CASE op = "SHIFT" -> Vec(Shift(u, k))
    [] op = "SHIFT_REV" -> Vec(Shift(u, -k))
    [] op = "SHIFT_CIRCULAR" -> Vec(ShiftCirc(u, k))
    [] op = "SHIFT_CIRCULAR_REV" -> Vec(ShiftCirc(u, -k))
    [] op = "SHIFT_RIGHT" -> Vec(Shift(u, 1))
    [] op = "SHIFT_LEFT" -> Vec(Shift(u, -1))
    [] op = "SHIFT_CIRCULAR_RIGHT" -> Vec(ShiftCirc(u, 1))
    [] op = "SHIFT_CIRCULAR_LEFT" -> Vec(ShiftCirc(u, -1))
    [] op = "IDENTITY" -> Vec(u)
    [] op = "INVERTER" -> Vec(Map1(u, RNeg))
    [] op = "INVERSER" -> IF AnyZero(u) THEN Raise ELSE Vec(Map1(u, LAMBDA p : RDiv(One, p)))
    [] op = "SQUARE" -> Vec(Map1(u, LAMBDA p : RMul(p, p)))
    [] op = "REVERSER" -> Vec([i \in 1..n |-> u[n + 1 - i]])
    [] op = "FORWARD_FINITE_DIFF" -> Vec([i \in 1..n |-> IF i = n THEN NaN ELSE RSub(u[i + 1], u[i])])
    [] op = "BACKWARD_FINITE_DIFF" -> Vec([i \in 1..n |-> IF i = 1 THEN NaN ELSE RSub(u[i], u[i - 1])])
    [] op = "CENTERED_FINITE_DIFF" -> Vec([i \in 1..n |-> IF i = 1 \/ i = n THEN NaN ELSE RSub(u[i + 1], u[i - 1])])
    [] op = "DEBIASER" -> IF s = <<>> THEN Raise ELSE Vec(Map1(u, LAMBDA p : RSub(p, MeanOf(u))))
    [] op = "ZEROS" -> [kind |-> "list", val |-> SelectSeq([i \in 1..n |-> i - 1], LAMBDA j : IsZero(u[j + 1]))]
    [] op = "RMSE" -> IF s = <<>> THEN Raise ELSE [kind |-> "sqnum", val |-> <<RDiv(SeqSum([i \in DOMAIN s |-> RMul(s[i], s[i])]), R(Len(s)))>>]
    [] op = "APPLY" -> Vec(Map1(u, LAMBDA p : RAdd(RMul(R(2), p), One)))                     \* f(x) = 2 x + 1
    [] op = "AGGREGATE" -> Num(SeqSum([i \in 1..n |-> RMul(R(i), u[i])]))                     \* f(L) = sum of (position * value)
    [] op = "SCALAR_ADDER" -> Vec(Map1(u, LAMBDA p : RAdd(p, a)))
    [] op = "SCALAR_SUBSTRACTER" -> Vec(Map1(u, LAMBDA p : RSub(p, a)))
    [] op = "SCALAR_REV_SUBSTRACTER" -> Vec(Map1(u, LAMBDA p : RSub(a, p)))
    [] op = "SCALAR_MULTIPLIER" -> Vec(Map1(u, LAMBDA p : RMul(p, a)))
    [] op = "SCALAR_DIVIDER" -> Vec(Map1(u, LAMBDA p : RDiv(p, a)))
    [] op = "SCALAR_REV_DIVIDER" -> IF AnyZero(u) THEN Raise ELSE Vec(Map1(u, LAMBDA p : RDiv(a, p)))
    [] op = "SCALAR_POWER" -> IF k < 0 /\ AnyZero(u) THEN Raise ELSE Vec(Map1(u, LAMBDA p : IF IsNaN(p) THEN NaN ELSE RPow(p, a)))
    [] op = "SCALAR_REV_POWER" -> Vec(Map1(u, LAMBDA p : IF IsNaN(p) THEN NaN ELSE RPow(a, p)))
    [] op = "SCALAR_MODULO" -> Vec(Map1(u, LAMBDA p : RMod(p, a)))
    [] op = "SCALAR_REV_MODULO" -> IF AnyZero(u) THEN Raise ELSE Vec(Map1(u, LAMBDA p : RMod(a, p)))
    [] op = "SCALAR_ABOVE" -> Vec(Map1(u, LAMBDA p : Bool(Lt(a, p))))
    [] op = "SCALAR_BELOW" -> Vec(Map1(u, LAMBDA p : Bool(Lt(p, a))))
    [] op = "SCALAR_REV_ABOVE" -> Vec(Map1(u, LAMBDA p : Bool(Lt(p, a))))
    [] op = "SCALAR_REV_BELOW" -> Vec(Map1(u, LAMBDA p : Bool(Lt(a, p))))
    [] op = "THRESHOLDER" -> Vec(Map1(u, LAMBDA p : IF IsNaN(p) THEN NaN ELSE IF RLt(p, a) THEN p ELSE a))

(* ---- two-feature operators -------------------------------------------------------------------- *)
Binary(op, u, v) ==
  LET n == N(u)  P == Pairs(u, v)
      m1 == MeanOf(u)  m2 == MeanOf(v)
      cnt == R(Cardinality(P))
      AbsD(i) == RAbs(RSub(u[i], v[i]))
  IN
  CASE op = "MODULO" -> IF AnyZero(v) THEN Raise ELSE Vec([i \in 1..n |-> RMod(u[i], v[i])])
    [] op = "QUAD_ADDER" -> [kind |-> "sqvec", val |-> [i \in 1..n |-> RAdd(RMul(u[i], u[i]), RMul(v[i], v[i]))]]
    [] op = "DERIVATOR" -> IF \E i \in 2..n : IsNum(v[i]) /\ v[i] = v[i - 1] THEN Raise
                           ELSE Vec([i \in 1..n |-> IF i = 1 THEN Zero ELSE RDiv(RSub(u[i], u[i - 1]), RSub(v[i], v[i - 1]))])
    [] op = "POINTWISE_EQUALER" -> Vec([i \in 1..n |-> Bool(IsNum(u[i]) /\ u[i] = v[i])])
    [] op = "COVARIANCE" -> IF FilterNum(u) = <<>> \/ FilterNum(v) = <<>> \/ P = {} THEN Raise
                            ELSE Num(RDiv(SumOver(P, u, LAMBDA i : RMul(RSub(u[i], m1), RSub(v[i], m2))), cnt))
    [] op = "L0" -> Num(R(Cardinality({i \in P : u[i] # v[i]})))
    [] op = "L1" -> IF P = {} THEN Raise ELSE Num(RDiv(SumOver(P, u, AbsD), cnt))
    [] op = "L2" -> IF P = {} THEN Raise ELSE [kind |-> "sqnum", val |-> <<RDiv(SumOver(P, u, LAMBDA i : RMul(AbsD(i), AbsD(i))), cnt)>>]
    [] op = "LINF" -> Num(IF P = {} THEN Zero ELSE LET m == CHOOSE m \in {AbsD(i) : i \in P} : \A i \in P : RLe(AbsD(i), m) IN m)
    [] op = "EQUAL" -> [kind |-> "bool", val |-> <<\A i \in 1..n : u[i] = v[i]>>]

(* ---- enumeration ---------------------------------------------------------------------------------- *)
Init == IF Family = "unary"
        THEN c \in {[op |-> o, k |-> k, u |-> u, v |-> <<>>] : o \in {"IDENTITY"}, k \in {0}, u \in Vecs(Vals, MaxLen)}
        ELSE c \in {[op |-> o, k |-> 0, u |-> uv[1], v |-> uv[2]] : o \in {"L0"},
                    uv \in UNION {[1..n -> Vals2] \X [1..n -> Vals2] : n \in 1..MaxLen}}
Next == IF Family = "unary"
        THEN c.op = "IDENTITY" /\ \E o \in (ShiftOps \cup NumArgOps \cup PlainOps) \ {"IDENTITY"} : \E k \in ArgsOf(o) : c' = [c EXCEPT !.op = o, !.k = k]
        ELSE c.op = "L0" /\ \E o \in BinOps \ {"L0"} : c' = [c EXCEPT !.op = o]
Spec == Init /\ [][Next]_vars

Outcome == IF Family = "unary" THEN Unary(c.op, c.k, c.u) ELSE Binary(c.op, c.u, c.v)
Emitted == ~Emit \/ PrintT(ToJson([op |-> c.op, k |-> c.k, u |-> c.u, v |-> c.v, out |-> Outcome]))

(* ---- algebra checked by TLC on every enumerated call -------------------------------------------------- *)
\* a shift and its reverse undo each other where both are defined; circular shifts are permutations with inverse
ShiftAlgebra == (Family = "unary" /\ c.op \in {"SHIFT_CIRCULAR", "SHIFT_CIRCULAR_REV"}) =>
                   ShiftCirc(ShiftCirc(c.u, c.k), -c.k) = c.u
ShiftWindow == (Family = "unary" /\ c.op = "SHIFT") =>
                   LET w == Shift(Shift(c.u, c.k), -c.k) IN \A i \in DOMAIN c.u : w[i] = c.u[i] \/ w[i] = NaN
\* the differences telescope: forward difference at i = backward difference at i + 1
DiffsAgree == (Family = "unary" /\ c.op = "FORWARD_FINITE_DIFF") =>
                 LET f == Unary("FORWARD_FINITE_DIFF", 0, c.u).val  b == Unary("BACKWARD_FINITE_DIFF", 0, c.u).val
                 IN \A i \in 1..(N(c.u) - 1) : f[i] = b[i + 1]
\* the statistics are symmetric where the definition is
Symmetric == (Family = "binary" /\ c.op \in {"COVARIANCE", "L0", "L1", "L2", "LINF", "EQUAL", "POINTWISE_EQUALER", "QUAD_ADDER"}) =>
                Binary(c.op, c.u, c.v) = Binary(c.op, c.v, c.u)
\* EQUAL agrees with L0 = 0 on vectors without NaN, and LINF = 0 exactly when L0 = 0
EqualIsL0 == (Family = "binary" /\ c.op = "EQUAL" /\ Pairs(c.u, c.v) = DOMAIN c.u) =>
                (Binary("EQUAL", c.u, c.v).val[1] <=> Binary("L0", c.u, c.v).val[1] = Zero)
Inv == ShiftAlgebra /\ ShiftWindow /\ DiffsAgree /\ Symmetric /\ EqualIsL0 /\ Emitted
=============================================================================
