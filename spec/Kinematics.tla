------------------------------ MODULE Kinematics ------------------------------
(***************************************************************************)
(* C17 - curvilinear abscissa and speed                                     *)
(* (tracklib.algo.cinematics.computeAbsCurv, Track.estimate_speed).          *)
(*                                                                         *)
(* Tracks with legs of integer length (axis-aligned, 3-4-5, ...) and          *)
(* non-decreasing integer times with repeats.                                 *)
(* Definition : AbsCurv[1] = 0, AbsCurv[i] = AbsCurv[i-1] + Leg(i), last =     *)
(*              planimetric length; Speed[i] = chord(i-1, i+1) / dt (one-sided  *)
(*              at both ends), NaN iff dt = 0.  Speeds are compared through      *)
(*              their squares, chord^2 / dt^2, so oblique chords stay rational.   *)
(* Algorithm  : ds (distance to the previous fix, 0 at index 0) summed by the      *)
(*              Integrator (running sum that skips index 0); the three-way case     *)
(*              of speed().  TLC checks transcription = definition.                 *)
(***************************************************************************)
EXTENDS Geo2D, FiniteSets, TLC

CONSTANTS MaxFixK, NLegs, Gaps, Mode
VARIABLES pts, ts, ph
vars == <<pts, ts, ph>>

(* ---- definition ------------------------------------------------------------ *)
AbsCurvDef(p) == [i \in DOMAIN p |-> CumLen(p, i)]
\* squared speed as <<1, n, d>> or NaN <<0, 0, 1>>
SNaN == <<0, 0, 1>>
Sq(ch2, dt) == IF dt = 0 THEN SNaN ELSE LET f == Frac(ch2, dt * dt) IN <<1, f[1], f[2]>>
Speed2Def(p, t) ==
   LET n == Len(p) IN
   [i \in DOMAIN p |-> IF i = 1 THEN Sq(Dist2(p[2], p[1]), t[2] - t[1])
                       ELSE IF i = n THEN Sq(Dist2(p[n], p[n - 1]), t[n] - t[n - 1])
                       ELSE Sq(Dist2(p[i + 1], p[i - 1]), t[i + 1] - t[i - 1])]

(* ---- transcription ------------------------------------------------------------ *)
Ds(p, i) == IF i = 1 THEN 0 ELSE ISqrt(Dist2(p[i], p[i - 1]))
RECURSIVE Integ(_, _)
Integ(p, i) == IF i = 1 THEN <<0>> ELSE LET prev == Integ(p, i - 1) IN Append(prev, prev[i - 1] + Ds(p, i))
AbsCurvAlgo(p) == Integ(p, Len(p))

(* ---- acceptance of recorded feature columns --------------------------------------- *)
\* a[i] = <<kind, n, d>> : kind 1 = the number n/d, 0 = NaN, 3 = not on the lattice
AcceptAbsCurv(p, a) ==
   IF Len(a) # Len(p) THEN "abscissa_column_length"
   ELSE IF <<a[1][1], a[1][2], a[1][3]>> # <<1, 0, 1>> THEN "abscissa_does_not_start_at_0"
   ELSE IF \E i \in 2..Len(p) : a[i][1] # 1 \/ a[i - 1][1] # 1 \/ ~FrEq(FrSub(<<a[i][2], a[i][3]>>, <<a[i - 1][2], a[i - 1][3]>>), <<LegLen(p, i - 1), 1>>)
        THEN "abscissa_increment_differs_from_leg_length"
   ELSE IF ~FrEq(<<a[Len(p)][2], a[Len(p)][3]>>, <<PolyLength(p), 1>>) THEN "abscissa_end_differs_from_track_length"
   ELSE "ok"
AcceptSpeed(p, t, s2) ==
   IF Len(s2) # Len(p) THEN "speed_column_length"
   ELSE LET want == Speed2Def(p, t)
            bad == {i \in DOMAIN p : <<s2[i][1], s2[i][2], s2[i][3]>> # want[i]}
        IN IF bad = {} THEN "ok"
           ELSE LET i == CHOOSE i \in bad : \A k \in bad : i <= k IN
                IF want[i] = SNaN THEN "speed_not_NaN_on_zero_duration"
                ELSE IF s2[i][1] = 0 THEN "speed_NaN_on_positive_duration"
                ELSE IF i = 1 \/ i = Len(p) THEN "end_speed_differs_from_one_sided_difference"
                ELSE "speed_differs_from_centred_difference"
\* Timestamps are floating-point seconds since 1970: for a present-day date a gap of one millisecond is known to the clock
\* only to about 2e-4 of itself, so on millisecond-scale tracks recorded with such dates only the PATTERN is judged:
\* NaN exactly where the elapsed time is zero, a number everywhere else.
AcceptSpeedPattern(p, t, s2) ==
   IF Len(s2) # Len(p) THEN "speed_column_length"
   ELSE LET want == Speed2Def(p, t)
            bad == {i \in DOMAIN p : (s2[i][1] = 0) # (want[i] = SNaN)}
        IN IF bad = {} THEN "ok"
           ELSE LET i == CHOOSE i \in bad : \A k \in bad : i <= k IN
                IF want[i] = SNaN THEN "speed_not_NaN_on_zero_duration" ELSE "speed_NaN_on_positive_duration"

(* ---- design check ---------------------------------------------------------------------- *)
LegSeq == << <<0, 0>>, <<1, 0>>, <<3, 4>>, <<0, -1>>, <<-4, 3>>, <<1000, 0>>, <<0, 2>>, <<-6, -8>> >>
Legs == {LegSeq[k] : k \in 1..NLegs}
RECURSIVE Walk(_, _)
Walk(start, legs) == IF legs = <<>> THEN <<start>> ELSE <<start>> \o Walk(<<start[1] + legs[1][1], start[2] + legs[1][2]>>, Tail(legs))
RECURSIVE Cum(_, _)
Cum(t0, gaps) == IF gaps = <<>> THEN <<t0>> ELSE <<t0>> \o Cum(t0 + gaps[1], Tail(gaps))
Init == Mode = "mc" /\ ph = 0 /\ \E n \in 1..(MaxFixK - 1) : \E lg \in [1..n -> Legs] : pts = Walk(<<0, 0>>, lg) /\ ts = <<>>
Next == ph = 0 /\ ph' = 1 /\ pts' = pts /\ \E gp \in [1..(Len(pts) - 1) -> Gaps] : ts' = Cum(0, gp)
Spec == Init /\ [][Next]_vars
AbsCurvIsDefinition == ph = 1 => /\ AbsCurvAlgo(pts) = AbsCurvDef(pts)
                                 /\ AcceptAbsCurv(pts, [i \in DOMAIN pts |-> <<1, AbsCurvDef(pts)[i], 1>>]) = "ok"
SpeedWellDefined == ph = 1 => AcceptSpeed(pts, ts, Speed2Def(pts, ts)) = "ok"
                              /\ \A i \in DOMAIN pts : (Speed2Def(pts, ts)[i] = SNaN) <=>
                                    (IF i = 1 THEN ts[2] = ts[1] ELSE IF i = Len(pts) THEN ts[i] = ts[i - 1] ELSE ts[i + 1] = ts[i - 1])
=============================================================================
