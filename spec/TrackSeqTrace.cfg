SPECIFICATION TSpec
CONSTANTS
  MaxN = 0
  Times = {0}
  SearchN = 0
  Emit = FALSE
CHECK_DEADLOCK FALSE
