SPECIFICATION TSpec
CONSTANTS
  MaxLen = 1
  Coord = {0}
  Legacy = FALSE
  Mode = "none"
CHECK_DEADLOCK FALSE
