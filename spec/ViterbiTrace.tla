----------------------------- MODULE ViterbiTrace -----------------------------
(* code -> spec for C09: decodings recorded from the real HMM.estimate (likelihood mode and log mode) are judged by
   AcceptDecoding.  The optimum is the brute-force minimum over the full product of the candidate lists when that
   product is small (e.brute), otherwise the Bellman value TLC has shown equal to it on the exhaustive family. *)
EXTENDS Viterbi, IOUtils, Json
VARIABLES l, nbad

Tab2(t) == [k \in DOMAIN t |-> [s \in DOMAIN t[k] |-> CostOf(t[k][s])]]
Tab3(t) == [k \in DOMAIN t |-> [a \in DOMAIN t[k] |-> [b \in DOMAIN t[k][a] |-> CostOf(t[k][a][b])]]]
Clause(e) ==
   IF e.raised THEN "raised"
   ELSE IF ~e.lat THEN "recorded_cost_not_on_the_cost_lattice"
   ELSE LET PP == Tab2(e.P)
            QQ == Tab3(e.Q)
            opt == IF e.brute THEN OptBrute(e.n, PP, QQ) ELSE OptBellman(e.n, PP, QQ)
        IN AcceptDecoding(e.n, PP, QQ, opt, e.inf, <<e.last[1], e.last[2]>>)

Cases == ndJsonDeserialize(IOEnv.TRACE_FILE)
Bt == INSTANCE Batch WITH Clause <- Clause, Cases <- Cases
TSpec == Bt!TInit /\ n = <<>> /\ P = <<>> /\ Q = <<>> /\ ph = 2 /\ [][Bt!TNext /\ UNCHANGED vars]_<<l, nbad, vars>>
=============================================================================
