------------------------------ MODULE TrackEdit ------------------------------
(***************************************************************************)
(* Growth next to C01: what happens to the feature table when the LIST OF     *)
(* OBSERVATIONS of a track is edited between feature operations (C01 itself     *)
(* quantifies over feature operations only).  A Track keeps one name -> index     *)
(* dictionary; every Obs object carries its own list of feature slots, empty       *)
(* when the Obs is constructed.  The structural mutators (addObs, insertObs,        *)
(* setObs) store the Obs they are given AS IT IS, so an observation added after      *)
(* a feature was created has fewer slots than the table lists.                        *)
(*                                                                         *)
(* Modelled as the code behaves, one action per public call, including the             *)
(* PARTIAL effects of a call that fails half-way:                                       *)
(*   create   appends a slot to every observation (whatever its length): on a short     *)
(*            observation the new value lands at a lower index than the table says;      *)
(*   update   writes slot idx of each observation in order and raises IndexError at       *)
(*            the first short one - the observations before it keep the new value;         *)
(*   remove   deletes slot idx of each observation in order and raises at the first         *)
(*            short one - the slots deleted so far stay deleted, the table is not touched;   *)
(*   read     raises if any observation is short.                                            *)
(* Every state prints its history, the table and the slots of every observation; the          *)
(* driver replays the history on a real Track (spec -> code).                                  *)
(*                                                                         *)
(* TLC: the table never lists a name twice; no observation ever has MORE slots than the         *)
(* table lists; as long as no Obs built outside the track was put in (add / insert / set),       *)
(* the table stays aligned and no call fails - loop(add=True), makeOdd / makeEven and             *)
(* removals keep it aligned.  Named deviation, refuted: AlignedAlways.                             *)
(***************************************************************************)
EXTENDS Integers, Sequences, FiniteSets, TLC, Json

CONSTANTS Emit, MaxOps, Names
VARIABLES table,     \* sequence of feature names: position - 1 = the index the dictionary holds
          obs,       \* sequence of [oid |-> id, slots |-> sequence of values]
          nxt,       \* next fresh observation id
          err,       \* the last call raised
          hist
vars == <<table, obs, nxt, err, hist>>
MaxObs == 4

Op(o, a) == [op |-> o, a |-> a]
Log(o) == hist' = Append(hist, o)
Step == Len(hist) + 1
IdxOf(nm) == CHOOSE k \in DOMAIN table : table[k] = nm
Listed(nm) == \E k \in DOMAIN table : table[k] = nm
Fresh == [oid |-> nxt, slots |-> <<>>]
Short(o, k) == Len(o.slots) < k
\* first observation that is too short for slot k (0 = none)
FirstShort(k) == IF \E j \in DOMAIN obs : Short(obs[j], k) THEN CHOOSE j \in DOMAIN obs : Short(obs[j], k) /\ \A i \in 1..(j - 1) : ~Short(obs[i], k) ELSE 0
DelAt(s, k) == SubSeq(s, 1, k - 1) \o SubSeq(s, k + 1, Len(s))

(* ---- feature operations ------------------------------------------------------------ *)
Create(nm) ==
   /\ Log(Op("create", nm)) /\ nxt' = nxt
   /\ IF obs = <<>> THEN err' = TRUE /\ UNCHANGED <<table, obs>>                       \* "no observation in track"
      ELSE IF Listed(nm) THEN err' = FALSE /\ UNCHANGED <<table, obs>>                  \* silently kept
      ELSE /\ err' = FALSE /\ table' = Append(table, nm)
           /\ obs' = [j \in DOMAIN obs |-> [obs[j] EXCEPT !.slots = Append(@, 10 * Step)]]
Update(nm) ==
   /\ Log(Op("update", nm)) /\ nxt' = nxt /\ table' = table
   /\ IF ~Listed(nm) \/ obs = <<>> THEN err' = TRUE /\ obs' = obs
      ELSE LET k == IdxOf(nm)  f == FirstShort(k) IN
           /\ err' = (f # 0)
           /\ obs' = [j \in DOMAIN obs |-> IF f = 0 \/ j < f THEN [obs[j] EXCEPT !.slots[k] = 100 + Step] ELSE obs[j]]
Remove(nm) ==
   /\ Log(Op("remove", nm)) /\ nxt' = nxt
   /\ IF ~Listed(nm) THEN err' = TRUE /\ UNCHANGED <<table, obs>>
      ELSE LET k == IdxOf(nm)  f == FirstShort(k) IN
           /\ err' = (f # 0)
           /\ obs' = [j \in DOMAIN obs |-> IF f = 0 \/ j < f THEN [obs[j] EXCEPT !.slots = DelAt(@, k)] ELSE obs[j]]
           /\ table' = IF f = 0 THEN DelAt(table, k) ELSE table

(* ---- the list of observations -------------------------------------------------------- *)
Struct(o, newobs, used) == Log(Op(o, 0)) /\ obs' = newobs /\ nxt' = nxt + used /\ err' = FALSE /\ table' = table
AddObs     == Len(obs) < MaxObs /\ Struct("add", Append(obs, Fresh), 1)
InsertObs  == Len(obs) < MaxObs /\ Struct("insert0", <<Fresh>> \o obs, 1)
SetLast    == obs # <<>> /\ Struct("setlast", [obs EXCEPT ![Len(obs)] = Fresh], 1)
\* loop(add=True): a deep copy of the first observation, slots included, is appended
LoopAdd    == obs # <<>> /\ Len(obs) < MaxObs /\ Struct("loopadd", Append(obs, [oid |-> nxt, slots |-> obs[1].slots]), 1)
\* makeOdd pops when the size is even - also when it is 0 (IndexError: pop from empty list)
MakeOdd    == IF obs = <<>> THEN Log(Op("makeodd", 0)) /\ err' = TRUE /\ UNCHANGED <<table, obs, nxt>>
              ELSE Struct("makeodd", IF Len(obs) % 2 = 0 THEN SubSeq(obs, 1, Len(obs) - 1) ELSE obs, 0)
MakeEven   == Struct("makeeven", IF Len(obs) % 2 = 1 THEN SubSeq(obs, 1, Len(obs) - 1) ELSE obs, 0)
RemoveFirst == obs # <<>> /\ Struct("removefirst", Tail(obs), 0)

Init == table = <<>> /\ obs = <<[oid |-> 1, slots |-> <<>>], [oid |-> 2, slots |-> <<>>]>> /\ nxt = 3 /\ err = FALSE /\ hist = <<>>
Next == /\ Len(hist) < MaxOps
        /\ \/ \E nm \in Names : Create(nm) \/ Update(nm) \/ Remove(nm)
           \/ AddObs \/ InsertObs \/ SetLast \/ LoopAdd \/ MakeOdd \/ MakeEven \/ RemoveFirst
Spec == Init /\ [][Next]_vars

(* ---- observations ------------------------------------------------------------------------ *)
\* reading a listed name: the column, or "err" when some observation is short
ReadOf(nm) == LET k == IdxOf(nm) IN IF FirstShort(k) # 0 THEN <<-1>> ELSE [j \in DOMAIN obs |-> obs[j].slots[k]]
Emitted == ~Emit \/ PrintT(ToJson([hist |-> hist, table |-> table, err |-> err,
                                   oids |-> [j \in DOMAIN obs |-> obs[j].oid], slots |-> [j \in DOMAIN obs |-> obs[j].slots],
                                   reads |-> [k \in DOMAIN table |-> ReadOf(table[k])]]))

(* ---- checked -------------------------------------------------------------------------------- *)
NoDuplicateName == \A i, j \in DOMAIN table : table[i] = table[j] => i = j
NeverMoreSlots == \A j \in DOMAIN obs : Len(obs[j].slots) <= Len(table)
Aligned == \A j \in DOMAIN obs : Len(obs[j].slots) = Len(table)
Foreign == {"add", "insert0", "setlast"}                     \* calls that put in an Obs built outside the track
NoForeign == \A k \in DOMAIN hist : hist[k].op \notin Foreign
\* without foreign observations the table stays aligned, and a call fails only for a name that is not listed / an empty track
AlignedWithoutForeign == NoForeign => Aligned
FailsOnlyWhenExpected == (NoForeign /\ err /\ hist # <<>>) =>
                            LET o == hist[Len(hist)] IN o.op \in {"create", "update", "remove", "makeodd"}
Inv == NoDuplicateName /\ NeverMoreSlots /\ AlignedWithoutForeign /\ FailsOnlyWhenExpected /\ Emitted
\* named deviation (REFUTED by TLC in the driver's self-test)
AlignedAlways == Aligned
=============================================================================
