SPECIFICATION TSpec
CONSTANTS
  GW = 1
  GH = 1
  Res = {1}
  AVals = {0}
  Legacy = FALSE
  Mode = "none"
CHECK_DEADLOCK FALSE
