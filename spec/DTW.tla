--------------------------------- MODULE DTW ---------------------------------
(***************************************************************************)
(* C18 - dynamic time warping score and matching                            *)
(* (tracklib.algo.comparison match / compare: DTW, FDTW, FRECHET).           *)
(*                                                                         *)
(* a = track1 (N1 points), b = track2 (N2 points); points are integer        *)
(* tuples of dimension 1, 2 or 3.  Cell (i,j) couples b[i] with a[j].        *)
(* Step cost: d for p = 1, d^2 for p = 2 (exact for every lattice), and the   *)
(* accumulation is the maximum of d for p = infinity (PInf).  For p = 1 and    *)
(* infinity the configurations have integer distances (perfect squares).      *)
(* Definition : Couplings = all monotone lattice paths from (1,1) to (N2,N1)   *)
(*              with steps (1,0), (0,1), (1,1); Opt = min accumulated cost.    *)
(* Acceptance : AcceptMatching - recorded links form such a path, every index  *)
(*              of both tracks is linked, nb_links = number of links, the      *)
(*              accumulated cost of the links = recorded score = Opt.          *)
(* Algorithm  : the T / M tables of _dtw with the predecessor written either    *)
(*              as on the pinned tree (complex-number encoding, Legacy = TRUE:   *)
(*              points at the diagonal when left = up < diagonal) or as the      *)
(*              explicit arg-min; TLC accepts the latter and refutes the former. *)
(***************************************************************************)
EXTENDS Integers, Sequences, FiniteSets, TLC

CONSTANTS MaxLen,       \* design check: both tracks of length 1..MaxLen
          Coord,        \* ... over these 1-D coordinates
          Legacy,
          Mode          \* "mc" | "none"
VARIABLES a, b, p, ph
vars == <<a, b, p, ph>>
PInf == 0               \* p = infinity (discrete Frechet)

DAbs(n) == IF n < 0 THEN -n ELSE n
DMin(x, y) == IF x < y THEN x ELSE y
DMax(x, y) == IF x < y THEN y ELSE x
RECURSIVE SumSq(_, _)
SumSq(u, v) == IF u = <<>> THEN 0 ELSE (u[1] - v[1]) * (u[1] - v[1]) + SumSq(Tail(u), Tail(v))
DIsSquare(n) == \E k \in 0..n : k * k = n
DSqrt(n) == CHOOSE k \in 0..n : k * k = n
\* per-cell cost for norm pp (d^2 for p = 2, d otherwise)
Cell(aa, bb, pp, i, j) == IF pp = 2 THEN SumSq(bb[i], aa[j]) ELSE DSqrt(SumSq(bb[i], aa[j]))
IntegerDistances(aa, bb) == \A i \in DOMAIN bb : \A j \in DOMAIN aa : DIsSquare(SumSq(bb[i], aa[j]))
W(pp, acc, c) == IF pp = PInf THEN DMax(acc, c) ELSE acc + c

(* ---- definition: all couplings ------------------------------------------------ *)
RECURSIVE PathsTo(_, _)
PathsTo(i, j) ==
   IF i = 1 /\ j = 1 THEN {<< <<1, 1>> >>}
   ELSE {Append(q, <<i, j>>) : q \in (IF i > 1 THEN PathsTo(i - 1, j) ELSE {}) \cup (IF j > 1 THEN PathsTo(i, j - 1) ELSE {})
                                      \cup (IF i > 1 /\ j > 1 THEN PathsTo(i - 1, j - 1) ELSE {})}
RECURSIVE Acc(_, _, _, _)
Acc(aa, bb, pp, path) == IF path = <<>> THEN 0
                         ELSE W(pp, Acc(aa, bb, pp, SubSeq(path, 1, Len(path) - 1)), Cell(aa, bb, pp, path[Len(path)][1], path[Len(path)][2]))
IMinSet(X) == CHOOSE x \in X : \A y \in X : x <= y
OptBrute(aa, bb, pp) == IMinSet({Acc(aa, bb, pp, q) : q \in PathsTo(Len(bb), Len(aa))})

(* ---- Bellman recursion (rows of the table T) --------------------------------------- *)
RowFrom(aa, bb, pp, up, i) ==
   LET RECURSIVE Cells(_)
       Cells(j) == IF j = 1 THEN << W(pp, up[1], Cell(aa, bb, pp, i, 1)) >>
                   ELSE LET left == Cells(j - 1) IN
                        Append(left, W(pp, DMin(up[j - 1], DMin(up[j], left[j - 1])), Cell(aa, bb, pp, i, j)))
   IN Cells(Len(aa))
FirstRow(aa, bb, pp) ==
   LET RECURSIVE Cells(_)
       Cells(j) == IF j = 1 THEN << W(pp, 0, Cell(aa, bb, pp, 1, 1)) >>
                   ELSE LET left == Cells(j - 1) IN Append(left, W(pp, left[j - 1], Cell(aa, bb, pp, 1, j)))
   IN Cells(Len(aa))
RECURSIVE TRows(_, _, _, _)
TRows(aa, bb, pp, i) == IF i = 1 THEN << FirstRow(aa, bb, pp) >>
                        ELSE LET prev == TRows(aa, bb, pp, i - 1) IN Append(prev, RowFrom(aa, bb, pp, prev[i - 1], i))
OptBellman(aa, bb, pp) == TRows(aa, bb, pp, Len(bb))[Len(bb)][Len(aa)]

(* ---- acceptance of a recorded matching ------------------------------------------------ *)
\* links: sequence of <<i, j>> (1-based, i in track2, j in track1) in the order the matching lists them
IsCoupling(n2, n1, links) ==
   /\ Len(links) >= 1 /\ links[1] = <<1, 1>> /\ links[Len(links)] = <<n2, n1>>
   /\ \A k \in 1..(Len(links) - 1) :
         LET di == links[k + 1][1] - links[k][1]
             dj == links[k + 1][2] - links[k][2]
         IN di \in {0, 1} /\ dj \in {0, 1} /\ di + dj >= 1
AcceptMatching(aa, bb, pp, opt, links, nb, score) ==
   IF \E k \in DOMAIN links : ~(links[k][1] \in DOMAIN bb /\ links[k][2] \in DOMAIN aa) THEN "link_to_a_missing_observation"
   ELSE IF ~IsCoupling(Len(bb), Len(aa), links) THEN "links_are_not_a_monotone_coupling"
   ELSE IF \E i \in DOMAIN bb : ~(\E k \in DOMAIN links : links[k][1] = i) THEN "observation_of_track2_without_link"
   ELSE IF \E j \in DOMAIN aa : ~(\E k \in DOMAIN links : links[k][2] = j) THEN "observation_of_track1_without_link"
   ELSE IF nb # Len(links) THEN "nb_links_differs_from_number_of_links"
   ELSE IF score # opt THEN "score_differs_from_optimum"
   ELSE IF Acc(aa, bb, pp, links) # score THEN "matching_cost_differs_from_score"
   ELSE "ok"

(* ---- transcription of _dtw ---------------------------------------------------------------- *)
\* predecessor of cell (i,j), i,j > 1, from l = T[i,j-1], u = T[i-1,j], ul = T[i-1,j-1]
B2I(x) == IF x THEN 1 ELSE 0
Pred(i, j, l, u, ul) ==
   IF Legacy THEN <<i - B2I(l >= DMin(ul, u)), j - B2I(u >= DMin(ul, l))>>
   ELSE IF ul <= DMin(u, l) THEN <<i - 1, j - 1>> ELSE IF u <= l THEN <<i - 1, j>> ELSE <<i, j - 1>>
AlgoPath(aa, bb, pp) ==
   LET T == TRows(aa, bb, pp, Len(bb))
       RECURSIVE Back(_, _)
       Back(i, j) == IF i = 1 /\ j = 1 THEN << <<1, 1>> >>
                     ELSE IF i = 1 THEN Append(Back(1, j - 1), <<i, j>>)
                     ELSE IF j = 1 THEN Append(Back(i - 1, 1), <<i, j>>)
                     ELSE LET q == Pred(i, j, T[i][j - 1], T[i - 1][j], T[i - 1][j - 1]) IN Append(Back(q[1], q[2]), <<i, j>>)
   IN Back(Len(bb), Len(aa))

(* ---- design check ------------------------------------------------------------------------------ *)
Tracks == UNION {[1..n -> {<<c>> : c \in Coord}] : n \in 1..MaxLen}
Init == Mode = "mc" /\ ph = 0 /\ a \in Tracks /\ b = <<>> /\ p = 1
Next == ph = 0 /\ ph' = 1 /\ a' = a /\ b' \in Tracks /\ p' \in {1, 2, PInf}
Spec == Init /\ [][Next]_vars
BellmanIsOpt == ph = 1 => OptBellman(a, b, p) = OptBrute(a, b, p)
OptSymmetric == ph = 1 => OptBrute(a, b, p) = OptBrute(b, a, p)
AlgoAccepted == ph = 1 => LET path == AlgoPath(a, b, p)
                              opt == OptBrute(a, b, p)
                          IN AcceptMatching(a, b, p, opt, path, Len(path), OptBellman(a, b, p)) = "ok"
=============================================================================
