-------------------------------- MODULE Split --------------------------------
(***************************************************************************)
(* C11 - splitting on a marker partitions the track; threshold segmentation *)
(* sets the marker (tracklib.algo.segmentation.split / segmentation).        *)
(*                                                                         *)
(* Marker vector m in [1..n -> {0,1}].                                      *)
(* Definition : Pieces(m) - one piece per marked observation (the maximal    *)
(*              run ending there) plus the tail after the last mark (which    *)
(*              is empty when the last observation is marked); no piece when  *)
(*              nothing is marked.                                            *)
(* Acceptance : AcceptSplit - the concatenation of the pieces is 1..n, every  *)
(*              piece but the last is non-empty, ends at a mark and holds no   *)
(*              other mark, the last piece holds no mark except as its final   *)
(*              element; nothing marked => no piece.                           *)
(* Algorithm  : the begin / count loop of split() transcribed; TLC checks it   *)
(*              against the definition and the acceptance predicate for all    *)
(*              2^n markers.                                                   *)
(* Marker(vals, thr, mode): AND -> 1 iff some non-NaN value exceeds its        *)
(*              threshold; OR -> 1 iff every non-NaN value does (all-NaN rows   *)
(*              in OR mode are left open); the comp loop is transcribed.        *)
(***************************************************************************)
EXTENDS Integers, Sequences, FiniteSets, TLC

CONSTANTS NMax,          \* split: marker vectors of length 1..NMax
          KMax,          \* segmentation: 1..KMax tested features
          SVals, SThr,   \* feature values (NaNv = not-a-number) and thresholds
          Mode           \* "split" | "seg" | "none"
VARIABLES m, row, thr, cmp, ph
vars == <<m, row, thr, cmp, ph>>
NaNv == 99

(* ---- split: definition ------------------------------------------------------ *)
Marks(mk) == {i \in DOMAIN mk : mk[i] = 1}
Range(a, b) == [k \in 1..(b - a + 1) |-> a + k - 1]          \* <<a, ..., b>>, empty when b < a
RECURSIVE PiecesFrom(_, _)
PiecesFrom(mk, begin) ==
   LET later == {i \in Marks(mk) : i >= begin} IN
   IF later = {} THEN << Range(begin, Len(mk)) >>
   ELSE LET i == CHOOSE x \in later : \A y \in later : x <= y IN << Range(begin, i) >> \o PiecesFrom(mk, i + 1)
Pieces(mk) == IF Marks(mk) = {} THEN <<>> ELSE PiecesFrom(mk, 1)

RECURSIVE Concat(_)
Concat(ps) == IF ps = <<>> THEN <<>> ELSE Head(ps) \o Concat(Tail(ps))
AcceptSplit(mk, ps) ==
   IF Marks(mk) = {} THEN (IF ps = <<>> THEN "ok" ELSE "pieces_returned_although_nothing_is_marked")
   ELSE IF Concat(ps) # Range(1, Len(mk)) THEN "pieces_do_not_concatenate_to_the_track"
   ELSE IF \E k \in 1..(Len(ps) - 1) : ps[k] = <<>> THEN "empty_piece_before_the_last"
   ELSE IF \E k \in 1..(Len(ps) - 1) : mk[ps[k][Len(ps[k])]] # 1 THEN "piece_does_not_end_at_a_marked_observation"
   ELSE IF \E k \in 1..Len(ps) : \E j \in 1..(Len(ps[k]) - 1) : mk[ps[k][j]] = 1 THEN "piece_contains_an_interior_mark"
   ELSE "ok"

(* ---- split: transcription of the begin / count loop ------------------------------ *)
RECURSIVE Loop(_, _, _, _)
Loop(mk, i, begin, acc) ==
   IF i > Len(mk) THEN (IF begin # 1 THEN Append(acc, Range(begin, Len(mk))) ELSE acc)
   ELSE IF mk[i] = 1 THEN Loop(mk, i + 1, i + 1, Append(acc, Range(begin, i)))
   ELSE Loop(mk, i + 1, begin, acc)
SplitAlgo(mk) == Loop(mk, 1, 1, <<>>)

(* ---- segmentation ----------------------------------------------------------------- *)
AND == "and"
OR == "or"
\* infinite values are ordinary values of the order: +inf (PInf) exceeds every threshold, -inf (NInf) exceeds none; only NaN
\* is left out of the comparison
PInf == 98
NInf == 97
\* (a threshold may be infinite too: nothing exceeds +inf, everything but -inf exceeds -inf)
Gt(v, t) == IF t = PInf THEN FALSE ELSE IF t = NInf THEN v # NInf ELSE v # NInf /\ (v = PInf \/ v > t)
Exceeds(v, t) == v # NaNv /\ Gt(v, t)
Tested(vals) == {j \in DOMAIN vals : vals[j] # NaNv}
\* set of admissible marker values
Marker(vals, th, md) ==
   IF md = AND THEN {IF \E j \in Tested(vals) : Gt(vals[j], th[j]) THEN 1 ELSE 0}
   ELSE IF Tested(vals) = {} THEN {0, 1}
   ELSE {IF \A j \in Tested(vals) : Gt(vals[j], th[j]) THEN 1 ELSE 0}
RECURSIVE CompLoop(_, _, _, _, _)
CompLoop(vals, th, md, j, comp) ==
   IF j > Len(vals) THEN comp
   ELSE IF vals[j] = NaNv THEN CompLoop(vals, th, md, j + 1, comp)
   ELSE IF md = AND THEN CompLoop(vals, th, md, j + 1, comp /\ ~Gt(vals[j], th[j]))
   ELSE CompLoop(vals, th, md, j + 1, comp \/ ~Gt(vals[j], th[j]))
SegAlgo(vals, th, md) == IF CompLoop(vals, th, md, 1, md = AND) THEN 0 ELSE 1

(* ---- design checks ------------------------------------------------------------------- *)
Markers == UNION {[1..n -> {0, 1}] : n \in 1..NMax}
Rows == UNION {[1..k -> SVals] : k \in 1..KMax}
Init == \/ Mode = "split" /\ m \in Markers /\ row = <<>> /\ thr = <<>> /\ cmp = AND /\ ph = 1
        \/ Mode = "seg" /\ m = <<>> /\ row \in Rows /\ thr = <<>> /\ cmp = AND /\ ph = 0
Next == /\ Mode = "seg" /\ ph = 0 /\ ph' = 1 /\ UNCHANGED <<m, row>>
        /\ thr' \in [1..Len(row) -> SThr] /\ cmp' \in {AND, OR}
Spec == Init /\ [][Next]_vars
SplitIsDefinition == (Mode = "split" /\ ph = 1) => SplitAlgo(m) = Pieces(m) /\ AcceptSplit(m, Pieces(m)) = "ok"
SegIsDefinition == (Mode = "seg" /\ ph = 1) => SegAlgo(row, thr, cmp) \in Marker(row, thr, cmp)
=============================================================================
