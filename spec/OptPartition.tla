---------------------------- MODULE OptPartition ----------------------------
(***************************************************************************)
(* C12 - optimal partitioning is globally optimal in the requested          *)
(* direction (tracklib.algo.segmentation.optimalPartition and its callers).  *)
(*                                                                         *)
(* Break candidates 0..N-1, symmetric cost C[i][j].  A partition is a       *)
(* strictly increasing list from 0 to N-1; its cost is the sum of C over     *)
(* consecutive members.                                                     *)
(* Definition : Opt(mode) = min / max of the cost over all 2^(N-2) lists.    *)
(* Algorithm  : the interval DP over increasing diagonals (tables D, M),     *)
(*              candidates k scanned in order with strict comparison, and     *)
(*              the recursive backtracking.  With Legacy = TRUE the mode      *)
(*              tests are transcribed as on the pinned tree ("... and         *)
(*              MODE_SEGMENTATION_MINIMIZE", a constant equal to 0): TLC      *)
(*              refutes optimality (sensitivity self-test).                   *)
(***************************************************************************)
EXTENDS Integers, Sequences, FiniteSets, TLC

CONSTANTS N,            \* number of break candidates (>= 2)
          Vals,         \* matrix entries ...
          Shift,        \* ... minus Shift (a cfg file cannot hold negative numbers): signed costs / rewards
          Legacy,       \* transcribe the pinned mode tests
          Mode          \* "mc" | "none"
VARIABLES C, mode, ph
vars == <<C, mode, ph>>

MINIMIZE == 0
MAXIMIZE == 1

(* ---- definition ------------------------------------------------------------ *)
\* c: function on pairs <<i, j>>, i < j (0-based)
RECURSIVE SeqFromSet(_)
SeqFromSet(S) == IF S = {} THEN <<>> ELSE LET m == CHOOSE x \in S : \A y \in S : x <= y IN <<m>> \o SeqFromSet(S \ {m})
Lists(n) == {<<0>> \o SeqFromSet(I) \o <<n - 1>> : I \in SUBSET (1..(n - 2))}
RECURSIVE CostOf(_, _)
CostOf(c, s) == IF Len(s) < 2 THEN 0 ELSE c[<<s[1], s[2]>>] + CostOf(c, Tail(s))
IMin(S) == CHOOSE x \in S : \A y \in S : x <= y
IMax(S) == CHOOSE x \in S : \A y \in S : x >= y
Opt(c, n, m) == LET costs == {CostOf(c, s) : s \in Lists(n)} IN IF m = MINIMIZE THEN IMin(costs) ELSE IMax(costs)

StrictlyIncreasing(s) == \A k \in 1..(Len(s) - 1) : s[k] < s[k + 1]
AcceptPartition(c, n, m, res) ==
   IF Len(res) < 2 THEN "fewer_than_two_indices"
   ELSE IF res[1] # 0 THEN "does_not_start_at_first_candidate"
   ELSE IF res[Len(res)] # n - 1 THEN "does_not_end_at_last_candidate"
   ELSE IF ~StrictlyIncreasing(res) THEN "not_strictly_increasing"
   ELSE IF CostOf(c, res) # Opt(c, n, m) THEN (IF m = MINIMIZE THEN "cost_not_minimum" ELSE "cost_not_maximum")
   ELSE "ok"

(* ---- transcription of optimalPartition / backtracking --------------------------- *)
TakeMin(m) == IF Legacy THEN MINIMIZE # 0 ELSE m = MINIMIZE        \* "val < D and MODE_SEGMENTATION_MINIMIZE"
TakeMax(m) == IF Legacy THEN MAXIMIZE # 0 ELSE m = MAXIMIZE
\* tables as functions on pairs i <= j; scan k = i+1..j-1 in order
AlgoTables(c, n, m) ==
   LET RECURSIVE Diag(_)
       \* Diag(d) = [D, M] after all diagonals <= d
       Diag(d) ==
          IF d < 2 THEN [D |-> [p \in {<<i, j>> \in (0..(n - 1)) \X (0..(n - 1)) : i < j} |-> c[p]],
                         M |-> [p \in {<<i, j>> \in (0..(n - 1)) \X (0..(n - 1)) : i < j} |-> -1]]
          ELSE LET prev == Diag(d - 1)
                   RECURSIVE Scan(_, _, _, _, _)
                   Scan(i, j, k, dv, mv) ==
                      IF k >= j THEN <<dv, mv>>
                      ELSE LET val == prev.D[<<i, k>>] + prev.D[<<k, j>>] IN
                           IF val < dv /\ TakeMin(m) THEN Scan(i, j, k + 1, val, k)      \* (the second test then compares val with itself)
                           ELSE IF val > dv /\ TakeMax(m) THEN Scan(i, j, k + 1, val, k)
                           ELSE Scan(i, j, k + 1, dv, mv)
                   upd == [i \in 0..(n - 1 - d) |-> Scan(i, i + d, i + 1, prev.D[<<i, i + d>>], prev.M[<<i, i + d>>])]
               IN [D |-> [p \in DOMAIN prev.D |-> IF p[2] - p[1] = d THEN upd[p[1]][1] ELSE prev.D[p]],
                   M |-> [p \in DOMAIN prev.M |-> IF p[2] - p[1] = d THEN upd[p[1]][2] ELSE prev.M[p]]]
   IN Diag(n - 1)
RECURSIVE Backtrack(_, _, _)
Backtrack(M, i, j) == IF i = j \/ M[<<i, j>>] < 0 THEN <<i>> ELSE Backtrack(M, i, M[<<i, j>>]) \o Backtrack(M, M[<<i, j>>], j)
Algo(c, n, m) == Backtrack(AlgoTables(c, n, m).M, 0, n - 1) \o <<n - 1>>

(* ---- design check: every matrix over Vals ------------------------------------------ *)
Pairs == {<<i, j>> \in (0..(N - 1)) \X (0..(N - 1)) : i < j}
Row0 == {p \in Pairs : p[1] = 0}
Init == Mode = "mc" /\ ph = 0 /\ mode \in {MINIMIZE, MAXIMIZE}
        /\ \E f \in [Row0 -> Vals] : C = [p \in Pairs |-> IF p \in Row0 THEN f[p] - Shift ELSE 0]
Next == ph = 0 /\ ph' = 1 /\ mode' = mode
        /\ \E f \in [Pairs \ Row0 -> Vals] : C' = [p \in Pairs |-> IF p \in Row0 THEN C[p] ELSE f[p] - Shift]
Spec == Init /\ [][Next]_vars
AlgoOptimal == ph = 1 => AcceptPartition(C, N, mode, Algo(C, N, mode)) = "ok"
=============================================================================
