------------------------------ MODULE Elevation ------------------------------
(***************************************************************************)
(* Growth next to C17: the elevation measures of tracklib.algo.cinematics -    *)
(* computeNetDeniv, computeAscDeniv, computeDescDeniv over an index range         *)
(* [id_ini, id_fin] (id_fin = None means the last observation) and                  *)
(* computeAvgAscSpeed (positive climb / elapsed time).                                *)
(* Definitions: climb = sum of the positive height steps of the range, descent =        *)
(* sum of the negative ones (a non-positive number), net = last - first height.            *)
(* TLC (every height profile over Heights of length 1..MaxN, every range):                   *)
(*   NetIsSum      net = climb + descent                                                      *)
(*   Signs         climb >= 0 >= descent, both 0 on an empty or single-observation range          *)
(*   Additive      climb and descent of [i, k] = those of [i, j] plus those of [j, k]              *)
(*   ReverseSwaps  walking the profile backwards swaps climb and -descent                           *)
(* Every state prints the profile and, for every range, the three measures; the driver               *)
(* replays them on a real track (spec -> code).                                                       *)
(***************************************************************************)
EXTENDS Integers, Sequences, FiniteSets, TLC, Json

CONSTANTS Emit, MaxN, Heights
VARIABLES z
vars == <<z>>

Pos(a) == IF a > 0 THEN a ELSE 0
Neg(a) == IF a < 0 THEN a ELSE 0
RECURSIVE Climb(_, _, _), Descent(_, _, _)
\* ranges are 1-based and inclusive here; a range with j <= i holds no step
Climb(s, i, j) == IF j <= i THEN 0 ELSE Climb(s, i, j - 1) + Pos(s[j] - s[j - 1])
Descent(s, i, j) == IF j <= i THEN 0 ELSE Descent(s, i, j - 1) + Neg(s[j] - s[j - 1])
Net(s, i, j) == s[j] - s[i]
Rev(s) == [k \in DOMAIN s |-> s[Len(s) + 1 - k]]

Init == z \in UNION {[1..n -> Heights] : n \in 1..MaxN}
Next == UNCHANGED z
Spec == Init /\ [][Next]_vars

Ranges == {<<i, j>> \in (DOMAIN z) \X (DOMAIN z) : i <= j}
NetIsSum == \A r \in Ranges : Net(z, r[1], r[2]) = Climb(z, r[1], r[2]) + Descent(z, r[1], r[2])
Signs == \A r \in Ranges : Climb(z, r[1], r[2]) >= 0 /\ Descent(z, r[1], r[2]) <= 0 /\ (r[1] = r[2] => Climb(z, r[1], r[2]) = 0 /\ Descent(z, r[1], r[2]) = 0)
Additive == \A r \in Ranges : \A m \in r[1]..r[2] :
               /\ Climb(z, r[1], r[2]) = Climb(z, r[1], m) + Climb(z, m, r[2])
               /\ Descent(z, r[1], r[2]) = Descent(z, r[1], m) + Descent(z, m, r[2])
ReverseSwaps == Climb(Rev(z), 1, Len(z)) = 0 - Descent(z, 1, Len(z))
Emitted == ~Emit \/ PrintT(ToJson([z |-> z, ranges |-> [k \in 1..Cardinality(Ranges) |->
               LET r == CHOOSE r \in Ranges : Cardinality({q \in Ranges : q[1] < r[1] \/ (q[1] = r[1] /\ q[2] < r[2])}) = k - 1
               IN <<r[1] - 1, r[2] - 1, Net(z, r[1], r[2]), Climb(z, r[1], r[2]), Descent(z, r[1], r[2])>>]]))
Inv == NetIsSum /\ Signs /\ Additive /\ ReverseSwaps /\ Emitted
=============================================================================
