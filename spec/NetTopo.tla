------------------------------- MODULE NetTopo -------------------------------
(***************************************************************************)
(* Growth under C06 / C07: the topology tables of tracklib Network that the   *)
(* routing relies on (addNode, addEdge, getNextEdges / getPrevEdges /          *)
(* getAdjacentNodes ..., counts, hasNode / hasEdge, edge numbers).             *)
(*                                                                         *)
(* State: nodes (sequence of ids in insertion order), edges (sequence of        *)
(* records id, s, t, o in insertion order) and the six adjacency tables the      *)
(* implementation maintains incrementally (lists, in insertion order).           *)
(* Definition : the tables are functions of the edge list: NextE(n) = ids of       *)
(*              the edges leaving n in a permitted direction (o >= 0 from the        *)
(*              source, o <= 0 from the target), PrevE(n) symmetric, NbgrE(n) all     *)
(*              incident edges; likewise for nodes.                                    *)
(* Invariant  : TablesAreDefinition - the incremental tables equal the definition       *)
(*              after every history of AddNode / AddEdge (edges may name new nodes,      *)
(*              self loops and parallel edges allowed).                                  *)
(* NetTopoTrace validates histories recorded from the real Network step by step.          *)
(***************************************************************************)
EXTENDS Integers, Sequences, FiniteSets, TLC

CONSTANTS NodeIds, MaxOps, Mode
VARIABLES nodes, edges, nextE, prevE, nbgrE, nextN, prevN, nbgrN, n
vars == <<nodes, edges, nextE, prevE, nbgrE, nextN, prevN, nbgrN, n>>

Has(seq, x) == \E k \in DOMAIN seq : seq[k] = x
EmptyT == [x \in {} |-> <<>>]
WithNode(t, v) == IF v \in DOMAIN t THEN t ELSE [y \in DOMAIN t \cup {v} |-> IF y = v THEN <<>> ELSE t[y]]
App(t, v, x) == [t EXCEPT ![v] = Append(@, x)]

\* functional forms: a state is a record st = [nodes, edges, nextE, prevE, nbgrE, nextN, prevN, nbgrN]
AddNodeF(st, v) == IF Has(st.nodes, v) THEN st
   ELSE [st EXCEPT !.nodes = Append(@, v), !.nextE = WithNode(@, v), !.prevE = WithNode(@, v), !.nbgrE = WithNode(@, v),
                   !.nextN = WithNode(@, v), !.prevN = WithNode(@, v), !.nbgrN = WithNode(@, v)]
AddEdgeF(st0, e) ==
   LET st == AddNodeF(AddNodeF(st0, e.s), e.t)
       fw == e.o >= 0
       bw == e.o <= 0
       ne1 == IF fw THEN App(st.nextE, e.s, e.id) ELSE st.nextE
       ne2 == IF bw THEN App(ne1, e.t, e.id) ELSE ne1
       pe1 == IF fw THEN App(st.prevE, e.t, e.id) ELSE st.prevE
       pe2 == IF bw THEN App(pe1, e.s, e.id) ELSE pe1
       nn1 == IF fw THEN App(st.nextN, e.s, e.t) ELSE st.nextN
       nn2 == IF bw THEN App(nn1, e.t, e.s) ELSE nn1
       pn1 == IF fw THEN App(st.prevN, e.t, e.s) ELSE st.prevN
       pn2 == IF bw THEN App(pn1, e.s, e.t) ELSE pn1
   IN [st EXCEPT !.edges = Append(@, e), !.nextE = ne2, !.prevE = pe2, !.nbgrE = App(App(@, e.s, e.id), e.t, e.id),
                 !.nextN = nn2, !.prevN = pn2, !.nbgrN = App(App(@, e.s, e.t), e.t, e.s)]
Init0 == [nodes |-> <<>>, edges |-> <<>>, nextE |-> EmptyT, prevE |-> EmptyT, nbgrE |-> EmptyT, nextN |-> EmptyT, prevN |-> EmptyT, nbgrN |-> EmptyT]
Cur == [nodes |-> nodes, edges |-> edges, nextE |-> nextE, prevE |-> prevE, nbgrE |-> nbgrE, nextN |-> nextN, prevN |-> prevN, nbgrN |-> nbgrN]
Become(st) == /\ nodes' = st.nodes /\ edges' = st.edges /\ nextE' = st.nextE /\ prevE' = st.prevE /\ nbgrE' = st.nbgrE
              /\ nextN' = st.nextN /\ prevN' = st.prevN /\ nbgrN' = st.nbgrN

(* ---- definition of the tables from the edge list ------------------------------------- *)
\* what edge e contributes to table `kind` of node v (possibly nothing, possibly two entries for a self loop)
Contrib(kind, e, v) ==
   CASE kind = "nextE" -> (IF e.o >= 0 /\ e.s = v THEN <<e.id>> ELSE <<>>) \o (IF e.o <= 0 /\ e.t = v THEN <<e.id>> ELSE <<>>)
     [] kind = "prevE" -> (IF e.o >= 0 /\ e.t = v THEN <<e.id>> ELSE <<>>) \o (IF e.o <= 0 /\ e.s = v THEN <<e.id>> ELSE <<>>)
     [] kind = "nbgrE" -> (IF e.s = v THEN <<e.id>> ELSE <<>>) \o (IF e.t = v THEN <<e.id>> ELSE <<>>)
     [] kind = "nextN" -> (IF e.o >= 0 /\ e.s = v THEN <<e.t>> ELSE <<>>) \o (IF e.o <= 0 /\ e.t = v THEN <<e.s>> ELSE <<>>)
     [] kind = "prevN" -> (IF e.o >= 0 /\ e.t = v THEN <<e.s>> ELSE <<>>) \o (IF e.o <= 0 /\ e.s = v THEN <<e.t>> ELSE <<>>)
     [] kind = "nbgrN" -> (IF e.s = v THEN <<e.t>> ELSE <<>>) \o (IF e.t = v THEN <<e.s>> ELSE <<>>)
RECURSIVE Collect(_, _, _, _)
Collect(es, k, kind, v) == IF k > Len(es) THEN <<>> ELSE Contrib(kind, es[k], v) \o Collect(es, k + 1, kind, v)
NextEDef(es, v) == Collect(es, 1, "nextE", v)
PrevEDef(es, v) == Collect(es, 1, "prevE", v)
NbgrEDef(es, v) == Collect(es, 1, "nbgrE", v)
NextNDef(es, v) == Collect(es, 1, "nextN", v)
PrevNDef(es, v) == Collect(es, 1, "prevN", v)
NbgrNDef(es, v) == Collect(es, 1, "nbgrN", v)
TablesOK(st) ==
   /\ DOMAIN st.nextE = {st.nodes[k] : k \in DOMAIN st.nodes}
   /\ \A v \in DOMAIN st.nextE :
         /\ st.nextE[v] = NextEDef(st.edges, v) /\ st.prevE[v] = PrevEDef(st.edges, v) /\ st.nbgrE[v] = NbgrEDef(st.edges, v)
         /\ st.nextN[v] = NextNDef(st.edges, v) /\ st.prevN[v] = PrevNDef(st.edges, v) /\ st.nbgrN[v] = NbgrNDef(st.edges, v)

Init == Mode = "mc" /\ n = 0 /\ nodes = <<>> /\ edges = <<>> /\ nextE = EmptyT /\ prevE = EmptyT /\ nbgrE = EmptyT
        /\ nextN = EmptyT /\ prevN = EmptyT /\ nbgrN = EmptyT
Next == /\ n < MaxOps /\ n' = n + 1
        /\ \/ \E v \in NodeIds : Become(AddNodeF(Cur, v))
           \/ \E s \in NodeIds, t \in NodeIds, o \in {-1, 0, 1} : Become(AddEdgeF(Cur, [id |-> 100 + Len(edges), s |-> s, t |-> t, o |-> o]))
Spec == Init /\ [][Next]_vars
TablesAreDefinition == TablesOK(Cur)
=============================================================================
